// GENERATED on every run by /verif/driver/verif.py from history.vspec and /repo -- do not edit
#![allow(unused_imports, dead_code, unused_variables, unused_mut, unused_parens, non_snake_case)]

use vstd::prelude::*;

verus! {
// ------------------------------------------------------------------------------------------------------------
// Verus unit `history`: the history table of src/engine/search/tables.rs (struct + impl HistoryTable: new, reset,
// bonus, get, add_bonus_for) with the two score constants of src/engine/search/move_ordering.rs it clamps against.
// Items marked "item:" are copied byte for byte from /repo on every run; rewrites are listed in the evidence file.
// `decay` is dropped: Verus 0.2026.09.13 rejects `/` on signed finite-width integers ("div/mod on signed
// finite-width integers" is outside its subset) -- decay stays with Kani (C04.history_arith.decay).
// ------------------------------------------------------------------------------------------------------------
use vstd::std_specs::cmp::*;

// ASSUMED library contracts (not in vstd): i32::from(u8) is the value-preserving widening; std::cmp::min returns the
// second argument iff it compares Less than the first, else the first (core's definition `v1.min(v2)`)
pub assume_specification [<i32 as core::convert::From<u8>>::from] (d: u8) -> (r: i32)
    ensures r == d as int;
pub assume_specification<T: Ord> [std::cmp::min] (a: T, b: T) -> (r: T)
    ensures T::obeys_cmp_spec() ==> r == (if b.cmp_spec(&a) == core::cmp::Ordering::Less { b } else { a });

// Stand-ins for the three index types.  Only their index ranges matter here (ASSUMED in this unit, discharged by
// Kani: C07.bitboard.square_iterator / C01.moves.* -- a Square's index is below 64, a Player's below 2, and a Move's
// source and destination are Squares); the constant N of each type is the repo's own text.
#[derive(Clone, Copy)]
pub struct Square(pub u8);
impl Square {

pub const N: usize = 64;

    pub open spec fn idx(self) -> int { self.0 as int }
    #[verifier::external_body]
    pub const fn array_idx(self) -> (r: usize)
        ensures r == self.idx(), r < 64,
    { self.0 as usize }
}
#[derive(Clone, Copy)]
pub struct Player(pub u8);
impl Player {

pub const N: usize = 2;

    pub open spec fn idx(self) -> int { self.0 as int }
    #[verifier::external_body]
    pub const fn array_idx(self) -> (r: usize)
        ensures r == self.idx(), r < 2,
    { self.0 as usize }
}
#[derive(Clone, Copy)]
pub struct Move(pub u16);
impl Move {
    pub uninterp spec fn src_spec(self) -> Square;
    pub uninterp spec fn dst_spec(self) -> Square;
    #[verifier::external_body]
    pub fn src(self) -> (r: Square)
        ensures r == self.src_spec(),
    { unimplemented!() }
    #[verifier::external_body]
    pub fn dst(self) -> (r: Square)
        ensures r == self.dst_spec(),
    { unimplemented!() }
}


pub const GOOD_CAPTURE_SCORE: i32 = 1_000_000_000;

pub const HISTORY_MAX_SCORE: i32 = GOOD_CAPTURE_SCORE - 1;

pub const QUIET_SCORE: i32 = 100_000_000;

pub const BAD_CAPTURE_SCORE: i32 = 0;

pub mod move_ordering { pub use super::{GOOD_CAPTURE_SCORE, HISTORY_MAX_SCORE, QUIET_SCORE, BAD_CAPTURE_SCORE}; }


pub struct HistoryTable(pub [[[i32; Square::N]; Square::N]; Player::N]);

impl HistoryTable {
    /// abstract view: the cell of (player, from, to)
    pub open spec fn cell(&self, p: int, f: int, t: int) -> i32 { self.0[p][f][t] }
    /// representation invariant: every one of the 2 x 64 x 64 cells is a legal history score
    pub open spec fn in_range(&self) -> bool {
        forall|p: int, f: int, t: int| 0 <= p < 2 && 0 <= f < 64 && 0 <= t < 64
            ==> 0 <= #[trigger] self.cell(p, f, t) <= HISTORY_MAX_SCORE
    }
    pub open spec fn all_zero(&self) -> bool {
        forall|p: int, f: int, t: int| 0 <= p < 2 && 0 <= f < 64 && 0 <= t < 64 ==> #[trigger] self.cell(p, f, t) == 0
    }
}
pub open spec fn bonus_spec(depth: u8) -> int { (depth as int) * (depth as int) }

//@ obligation: C12.history.new_all_zero
//@ property: C12 C04
//@ domain: complete
//@ functions: engine/search/tables.rs::HistoryTable::new
//@ harness: new
//@ note: a freshly constructed history table reads 0 in every one of its 2 x 64 x 64 cells (the state ucinewgame must restore) and satisfies the range invariant
//@ obligation: C12.history.reset_all_zero
//@ property: C12
//@ domain: complete
//@ functions: engine/search/tables.rs::HistoryTable::reset
//@ harness: reset
//@ note: whatever ALL 8192 cells held, after reset every cell reads 0 -- exactly the view of HistoryTable::new() (ucinewgame == fresh engine, history part).  Inductive invariants on the three nested loops; replaces the Kani obligation that could only vary one cell
//@ obligation: C04.history_arith.bonus_all_cells
//@ property: C04
//@ domain: complete
//@ functions: engine/search/tables.rs::HistoryTable::add_bonus_for, engine/search/tables.rs::HistoryTable::get, engine/search/tables.rs::HistoryTable::bonus
//@ harness: add_bonus_for
//@ note: for EVERY cell (symbolic player, source, destination), every table content inside the invariant range and every depth 0..=255: depth*depth and existing + bonus cannot overflow i32, all three indices are in range, the addressed cell becomes min(old + depth^2, HISTORY_MAX_SCORE), every OTHER cell is unchanged (whole-view postcondition) and the range invariant 0..=HISTORY_MAX_SCORE is preserved (so QUIET_SCORE + history cannot overflow in the move picker).  Closes the gap of C04.history_arith.bonus (one fixed cell, CBMC budget)
//@ assumes: Square index < 64, Player index < 2 (stand-in types; proved by Kani elsewhere); i32::from(u8) and std::cmp::min as specified above
//@ obligation: C04.history_arith.get_reads_cell
//@ property: C04
//@ domain: complete
//@ functions: engine/search/tables.rs::HistoryTable::get
//@ harness: get
//@ note: get returns exactly the cell of (player, source, destination) and indexes in range for every player and move
//@ obligation: C04.history_arith.bonus_value
//@ property: C04
//@ domain: complete
//@ functions: engine/search/tables.rs::HistoryTable::bonus
//@ harness: bonus
//@ note: bonus(depth) == depth^2 without i32 overflow for every depth 0..=255

impl HistoryTable {
    pub const fn new() -> (r: Self) 
        ensures r.all_zero(), r.in_range(),
{
        Self([[[0; Square::N]; Square::N]; Player::N])
    }

    pub fn reset(&mut self) 
        ensures final(self).all_zero(), final(self).in_range(),
{
        for from_square in 0..Square::N 
            invariant forall|p: int, f: int, t: int| 0 <= p < 2 && 0 <= f < from_square && 0 <= t < 64 ==> #[trigger] self.cell(p, f, t) == 0,
{
            for to_square in 0..Square::N 
                invariant from_square < 64,
                    forall|p: int, f: int, t: int| 0 <= p < 2 && 0 <= f < from_square && 0 <= t < 64 ==> #[trigger] self.cell(p, f, t) == 0,
                    forall|p: int, t: int| 0 <= p < 2 && 0 <= t < to_square ==> #[trigger] self.cell(p, from_square as int, t) == 0,
{
                for player in 0..Player::N 
                    invariant from_square < 64, to_square < 64,
                        forall|p: int, f: int, t: int| 0 <= p < 2 && 0 <= f < from_square && 0 <= t < 64 ==> #[trigger] self.cell(p, f, t) == 0,
                        forall|p: int, t: int| 0 <= p < 2 && 0 <= t < to_square ==> #[trigger] self.cell(p, from_square as int, t) == 0,
                        forall|p: int| 0 <= p < player ==> #[trigger] self.cell(p, from_square as int, to_square as int) == 0,
{
                    let ghost pre = *self; self.0[player][from_square][to_square] = 0; assert(forall|p: int, f: int, t: int| 0 <= p < 2 && 0 <= f < 64 && 0 <= t < 64 && !(p == player && f == from_square && t == to_square) ==> #[trigger] self.cell(p, f, t) == pre.cell(p, f, t));
                }
            }
        }
    }

    pub fn bonus(depth: u8) -> (r: i32) 
        ensures r == bonus_spec(depth), 0 <= r <= 255 * 255,
{
        let depthi32 = i32::from(depth);
        assert(0 <= depthi32 * depthi32 <= 255 * 255) by(nonlinear_arith) requires 0 <= depthi32 <= 255;

        depthi32 * depthi32
    }

    pub fn get(&self, player: Player, mv: Move) -> (r: i32) 
        ensures r == self.cell(player.idx(), mv.src_spec().idx(), mv.dst_spec().idx()),
            0 <= player.idx() < 2, 0 <= mv.src_spec().idx() < 64, 0 <= mv.dst_spec().idx() < 64,
{
        self.0[player.array_idx()][mv.src().array_idx()][mv.dst().array_idx()]
    }

    pub fn add_bonus_for(&mut self, player: Player, mv: Move, depth: u8) 
        requires old(self).in_range(),
        ensures final(self).in_range(),
            forall|p: int, f: int, t: int| 0 <= p < 2 && 0 <= f < 64 && 0 <= t < 64 ==> #[trigger] final(self).cell(p, f, t) ==
                if p == player.idx() && f == mv.src_spec().idx() && t == mv.dst_spec().idx() {
                    if old(self).cell(p, f, t) + bonus_spec(depth) < HISTORY_MAX_SCORE { (old(self).cell(p, f, t) + bonus_spec(depth)) as i32 } else { HISTORY_MAX_SCORE }
                } else { old(self).cell(p, f, t) },
{
        let bonus = Self::bonus(depth);
        let existing_score = self.get(player, mv);
        let new_score = std::cmp::min(existing_score + bonus, move_ordering::HISTORY_MAX_SCORE);

        self.0[player.array_idx()][mv.src().array_idx()][mv.dst().array_idx()] = new_score;
            proof {
            assert forall|p: int, f: int, t: int| 0 <= p < 2 && 0 <= f < 64 && 0 <= t < 64 implies 0 <= #[trigger] self.cell(p, f, t) <= HISTORY_MAX_SCORE by {
                let _ = old(self).cell(p, f, t);
            }
        }
}


}


//@ obligation: C12.canary.verus_history
//@ canary: true
pub proof fn canary_history_must_fail(t: HistoryTable)
    requires t.in_range(),
    ensures false,
{
}

} // verus!
fn main() {}
