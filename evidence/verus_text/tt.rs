// GENERATED on every run by /verif/driver/verif.py from tt.vspec and /repo -- do not edit
#![allow(unused_imports, dead_code, unused_variables, unused_mut, unused_parens, non_snake_case)]

#![feature(allocator_api)]

use vstd::prelude::*;

verus! {
// ------------------------------------------------------------------------------------------------------------
// Verus unit `tt`: src/engine/transposition_table.rs (whole file except `occupancy`, f32) and the replacement
// policy of src/engine/search/transposition.rs.  Items below marked "extracted" are copied byte for byte from
// /repo on every run; the rewrites applied are listed in the evidence file.
// ------------------------------------------------------------------------------------------------------------

// ZobristHash: `#[derive(Debug, Clone, Eq, PartialEq)] pub struct ZobristHash(pub u64);` -- the derives are expanded
// by hand to what rustc derives for a one-field tuple struct (ASSUMED equivalent; Verus gives derived non-Copy Clone
// and derived PartialEq no specification).

pub struct ZobristHash(pub u64);

impl Clone for ZobristHash {
    fn clone(&self) -> (r: Self)
        ensures r == *self,
    {
        ZobristHash(self.0)
    }
}
impl PartialEq for ZobristHash {
    fn eq(&self, other: &Self) -> (r: bool) {
        self.0 == other.0
    }
}
impl vstd::std_specs::cmp::PartialEqSpecImpl for ZobristHash {
    open spec fn obeys_eq_spec() -> bool { true }
    open spec fn eq_spec(&self, other: &Self) -> bool { self.0 == other.0 }
}

pub assume_specification<T, A: std::alloc::Allocator> [std::vec::Vec::<T, A>::shrink_to_fit] (v: &mut std::vec::Vec<T, A>)
    ensures final(v)@ == old(v)@;

// slice::fill, in case a body clears the table with it instead of a loop (ASSUMED: every element becomes a clone of the
// value; for Option::None that is None)
pub assume_specification<T: Clone> [<[T]>::fill] (s: &mut [T], value: T)
    ensures final(s)@.len() == old(s)@.len(),
        forall|i: int| 0 <= i < final(s)@.len() ==> cloned(value, #[trigger] final(s)@[i]);

// stand-ins for types that the policy function never inspects
#[derive(Debug, Clone)]
pub struct Move(pub u16);
#[derive(Debug, Clone)]
pub struct Eval(pub i16);


pub trait TTOverwriteable: Sized {     spec fn should_overwrite_spec(&self, new: &Self) -> bool;
    fn should_overwrite_with(&self, new: &Self) -> (r: bool) ensures r == self.should_overwrite_spec(new);
}

pub struct TranspositionTable<T: Clone + TTOverwriteable> {
    pub data: Vec<Option<TranspositionTableEntry<T>>>,
    pub generation: u8,
    pub occupied: usize,
    pub size: usize,
}

#[derive(Clone)]
pub struct TranspositionTableEntry<T: Clone + TTOverwriteable> {
    pub key: ZobristHash,
    pub data: T,
}

pub open spec fn entries_spec<T: Clone + TTOverwriteable>(size_mb: usize) -> int {
    (size_mb * 1024 * 1024) / (vstd::layout::size_of::<TranspositionTableEntry<T>>() as int)
}

/// number of occupied slots of the abstract view
pub open spec fn count_some<T: Clone + TTOverwriteable>(s: Seq<Option<TranspositionTableEntry<T>>>) -> nat
    decreases s.len(),
{
    if s.len() == 0 { 0 } else { count_some(s.drop_last()) + if s.last().is_some() { 1nat } else { 0nat } }
}

pub proof fn lemma_count_none<T: Clone + TTOverwriteable>(s: Seq<Option<TranspositionTableEntry<T>>>)
    requires forall|i: int| 0 <= i < s.len() ==> s[i].is_none(),
    ensures count_some(s) == 0,
    decreases s.len(),
{
    if s.len() > 0 { lemma_count_none(s.drop_last()); }
}

pub proof fn lemma_count_le<T: Clone + TTOverwriteable>(s: Seq<Option<TranspositionTableEntry<T>>>)
    ensures count_some(s) <= s.len(),
    decreases s.len(),
{
    if s.len() > 0 { lemma_count_le(s.drop_last()); }
}

pub proof fn lemma_count_update<T: Clone + TTOverwriteable>(s: Seq<Option<TranspositionTableEntry<T>>>, i: int, v: Option<TranspositionTableEntry<T>>)
    requires 0 <= i < s.len(),
    ensures count_some(s.update(i, v)) == count_some(s) - (if s[i].is_some() { 1int } else { 0int }) + (if v.is_some() { 1int } else { 0int }),
    decreases s.len(),
{
    if i == s.len() - 1 {
        assert(s.update(i, v).drop_last() =~= s.drop_last());
    } else {
        lemma_count_update(s.drop_last(), i, v);
        assert(s.update(i, v).drop_last() =~= s.drop_last().update(i, v));
    }
}

impl<T: Clone + TTOverwriteable> TranspositionTable<T> {
    /// representation invariant: at least one slot, and `occupied` is the number of filled slots
    pub open spec fn wf(&self) -> bool {
        self.data@.len() > 0 && self.occupied as nat == count_some(self.data@)
    }
    /// the slot a key maps to
    pub open spec fn slot(&self, key: u64) -> int {
        (key as usize % self.data@.len() as usize) as int
    }
    pub open spec fn all_empty(&self) -> bool {
        forall|i: int| 0 <= i < self.data@.len() ==> self.data@[i].is_none()
    }
}

// layout assumption used by `new`/`resize`: an entry occupies between 1 byte and 1 MiB (it is 16 bytes for the
// search table -- unit test assert_tt_size in the repo)
pub open spec fn entry_layout_ok<T: Clone + TTOverwriteable>() -> bool {
    0 < vstd::layout::size_of::<TranspositionTableEntry<T>>() <= 1024 * 1024
}

//@ obligation: C19.tt.entries
//@ property: C19 C13
//@ domain: complete
//@ functions: engine/transposition_table.rs::calculate_number_of_entries
//@ harness: calculate_number_of_entries
//@ note: no overflow of size_mb * 2^20 for every advertised size (0..=1024), result is the exact quotient

pub fn calculate_number_of_entries<T: Clone + TTOverwriteable>(size_mb: usize) -> (r: usize) 
    requires size_mb <= 1024, vstd::layout::size_of::<TranspositionTableEntry<T>>() > 0,
    ensures r == entries_spec::<T>(size_mb),
{
    let size_of_entry = std::mem::size_of::<TranspositionTableEntry<T>>();
    let total_size_in_bytes = size_mb * 1024 * 1024;
    total_size_in_bytes / size_of_entry
}

impl<T: Clone + TTOverwriteable> TranspositionTable<T> {
    pub fn new(size_mb: usize) -> (tt: Self) 
        requires size_mb <= 1024, entry_layout_ok::<T>(),
        ensures tt.wf(), tt.generation == 0, tt.occupied == 0, tt.all_empty(), tt.size == size_mb,
{
        let mut tt = Self {
            data: Vec::new(),
            size: 0,
            occupied: 0,
            generation: 0,
        };

        tt.resize(size_mb);
        tt
    }

    pub fn reset(&mut self) 
        requires old(self).data@.len() > 0,
        ensures final(self).wf(), final(self).all_empty(), final(self).data@.len() == old(self).data@.len(),
            final(self).generation == 0, final(self).occupied == 0, final(self).size == old(self).size,
{
        for i in 0..self.data.len() 
            invariant self.data@.len() == old(self).data@.len(), self.size == old(self).size,
                forall|j: int| 0 <= j < i ==> self.data@[j].is_none(),
{
            self.data[i] = None;
        }

        self.generation = 0;
        self.occupied = 0;
            proof { lemma_count_none(self.data@); }
}

    pub fn resize(&mut self, size_mb: usize) 
        requires size_mb <= 1024, entry_layout_ok::<T>(), old(self).wf() || old(self).data@.len() == 0,
        ensures final(self).wf(), final(self).size == size_mb,
            (old(self).size == size_mb && old(self).data@.len() > 0) ==> *final(self) == *old(self),
            (old(self).size != size_mb || old(self).data@.len() == 0) ==> final(self).generation == 0 && final(self).occupied == 0 && final(self).all_empty()
                && final(self).data@.len() == (if entries_spec::<T>(size_mb) >= 1 { entries_spec::<T>(size_mb) } else { 1 }),
{
        if self.size == size_mb && !self.data.is_empty() {
            return;
        }

        // 'Hash 0' is an advertised value: keep at least one slot so indexing never divides by zero.
        let number_of_entries = calculate_number_of_entries::<T>(size_mb).max(1);

        self.data.clear();
        self.data.resize(number_of_entries, None);
        self.data.shrink_to_fit();
        self.size = size_mb;
        self.occupied = 0;
        self.generation = 0;
            proof { lemma_count_none(self.data@); }
}

    pub fn new_generation(&mut self) 
        ensures final(self).generation != old(self).generation, final(self).data@ == old(self).data@,
            final(self).occupied == old(self).occupied, final(self).size == old(self).size,
{
        // Entry ages are only compared for (in)equality, so wrapping around is harmless.
        self.generation = self.generation.wrapping_add(1);
    }

    #[expect(
        clippy::cast_possible_truncation,
        reason = "The truncation is intended to get an index"
    )]
    pub fn get_entry_idx(&self, key: &ZobristHash) -> (r: usize) 
        requires self.data@.len() > 0,
        ensures r == self.slot(key.0), r < self.data@.len(), self.data@.len() <= usize::MAX,
{
        // PERF: There's likely a more performant way to do this
        key.0 as usize % self.data.len()
    }

    #[expect(
        clippy::cast_precision_loss,
        clippy::cast_possible_truncation,
        clippy::cast_sign_loss,
        reason = "This is just an approximation, so a loss of precision is fine"
    )]
    // f32 arithmetic: no float theory in Verus -- the body is NOT verified here (external_body); callers only learn that
    // it returns some permille value
    #[verifier::external_body]
    pub fn occupancy(&self) -> (r: usize) 
        ensures r <= usize::MAX,
{
        let decimal = self.occupied as f32 / self.data.len() as f32;
        let permille = decimal * 1000.0;
        permille as usize
    }

    pub fn insert(&mut self, key: &ZobristHash, data: T) 
        requires old(self).wf(),
        ensures final(self).wf(), final(self).data@.len() == old(self).data@.len(),
            final(self).generation == old(self).generation, final(self).size == old(self).size,
            forall|i: int| 0 <= i < old(self).data@.len() && i != old(self).slot(key.0) ==> final(self).data@[i] == old(self).data@[i],
            ({
                let i = old(self).slot(key.0);
                let o = old(self).data@[i];
                if o.is_none() || o.unwrap().data.should_overwrite_spec(&data) {
                    final(self).data@[i] == Some(TranspositionTableEntry { key: *key, data: data })
                } else {
                    final(self).data@[i] == o
                }
            }),
            final(self).occupied == old(self).occupied + (if old(self).data@[old(self).slot(key.0)].is_none() { 1int } else { 0int }),
{
        let idx = self.get_entry_idx(key);
        proof {
            let i = self.slot(key.0);
            let v = Some(TranspositionTableEntry { key: *key, data: data });
            lemma_count_update(self.data@, i, v);
            lemma_count_le(self.data@.update(i, v));
        }

        // !: We know the exact size of the table and will always access within the bounds.
        {
            if let Some(existing_data) = &self.data[idx] {
                if existing_data.data.should_overwrite_with(&data) {
                    self.data[idx] = Some(TranspositionTableEntry {
                        key: key.clone(),
                        data,
                    });
                }
            } else {
                self.occupied += 1;

                self.data[idx] = Some(TranspositionTableEntry {
                    key: key.clone(),
                    data,
                });
            }
        }
    }

    pub fn get(&self, key: &ZobristHash) -> (r: Option<&T>) 
        requires self.data@.len() > 0,
        ensures match r {
            Some(d) => self.data@[self.slot(key.0)].is_some() && self.data@[self.slot(key.0)].unwrap().key.0 == key.0
                && *d == self.data@[self.slot(key.0)].unwrap().data,
            None => self.data@[self.slot(key.0)].is_none() || self.data@[self.slot(key.0)].unwrap().key.0 != key.0,
        },
{
        let idx = self.get_entry_idx(key);

        // !: We know the exact size of the table and will always access within the bounds.
        {
            if let Some(entry) = &self.data[idx] {
                if entry.key == *key {
                    return Some(&entry.data);
                }
            }
        }

        None
    }
}

// ---- replacement policy of the search table -----------------------------------------------------------------

#[derive(Debug, Clone, Eq, PartialEq)]
pub enum NodeBound {
    Exact,
    Upper,
    Lower,
}

// derive(PartialEq) on a field-less enum compares discriminants (ASSUMED: the derived `eq` body is not verified)
impl vstd::std_specs::cmp::PartialEqSpecImpl for NodeBound {
    open spec fn obeys_eq_spec() -> bool { true }
    open spec fn eq_spec(&self, other: &Self) -> bool { *self == *other }
}

#[derive(Debug, Clone)]
pub struct SearchTranspositionTableData {
    pub bound: NodeBound,
    pub eval: Eval,
    pub depth: u8,
    pub age: u8,
    pub best_move: Option<Move>,
}

impl TTOverwriteable for SearchTranspositionTableData {
    open spec fn should_overwrite_spec(&self, new: &Self) -> bool { new.age != self.age || new.depth > self.depth || new.bound == NodeBound::Exact || self.bound != NodeBound::Exact }    fn should_overwrite_with(&self, new: &Self) -> (r: bool) {
        // Always prioritise results from new searches
        if new.age != self.age {
            return true;
        }

        // Always prefer results that have been searched to a higher depth,
        // since they're more accurate
        if new.depth > self.depth {
            return true;
        }

        // If the new node is exact, always store it
        if new.bound == NodeBound::Exact {
            return true;
        }

        // Don't overwrite exact nodes
        self.bound != NodeBound::Exact
    }
}

//@ obligation: C19.policy.exact_protected
//@ domain: complete
//@ functions: engine/search/transposition.rs::impl TTOverwriteable for SearchTranspositionTableData / fn should_overwrite_with
//@ note: lemma over the policy contract: within one search (equal age) an Exact entry is displaced only by an Exact entry or a strictly deeper one; an entry of another search always gives way
pub proof fn lemma_exact_protected(old_e: SearchTranspositionTableData, new_e: SearchTranspositionTableData)
    ensures
        new_e.age != old_e.age ==> old_e.should_overwrite_spec(&new_e),
        (new_e.age == old_e.age && old_e.bound == NodeBound::Exact && old_e.should_overwrite_spec(&new_e))
            ==> (new_e.bound == NodeBound::Exact || new_e.depth > old_e.depth),
{
}

//@ obligation: C19.canary.verus
//@ canary: true
pub proof fn canary_must_fail(t: TranspositionTable<SearchTranspositionTableData>)
    requires t.wf(),
    ensures false,
{
}

} // verus!
fn main() {}
