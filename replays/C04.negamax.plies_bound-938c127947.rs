// REPLAY FILE written by /verif/driver/verif.py
// property: C04
// obligation: C04.negamax.plies_bound
// backend: kani
// harness: engine::search::negamax::verif_kani_c04::vk_c04_negamax_plies_bound
// contract_file: engine__search__negamax@c04.rs
// functions_under_contract: engine/search/negamax.rs::negamax
// failed: "KillersTable has 255 rows: index out of range (read in MovePicker::next)"
// repo_head: 76dd00f  (working tree may differ)
// replay with: /verif/check replay /verif/replays/C04.negamax.plies_bound-938c127947.rs
//
// The verifier's counterexample as a concrete playback test (runs the REAL functions natively):
//@playback-begin
/// Test generated for harness `engine::search::negamax::verif_kani_c04::vk_c04_negamax_plies_bound` 
///
/// Check for `assertion`: ""KillersTable has 255 rows: index out of range (read in MovePicker::next)""

#[test]
fn kani_concrete_playback_vk_c04_negamax_plies_bound_5080441978741068282() {
    let concrete_vals: Vec<Vec<u8>> = vec![
        // -31360
        vec![128, 133],
        // -26690
        vec![190, 151],
        // 1
        vec![1],
        // 255
        vec![255],
        // 0
        vec![0],
        // 0
        vec![0],
        // 18446744073709551615ul
        vec![255, 255, 255, 255, 255, 255, 255, 255],
        // 18446744073708551614ul
        vec![190, 189, 240, 255, 255, 255, 255, 255],
        // 255
        vec![255],
        // 255
        vec![255],
        // 0
        vec![0],
        // 255
        vec![255],
        // 0
        vec![0],
        // 0
        vec![0],
        // 0
        vec![0],
        // 0
        vec![0],
        // 0
        vec![0],
        // 0
        vec![0],
        // 30592
        vec![128, 119],
    ];
    kani::concrete_playback_run(concrete_vals, vk_c04_negamax_plies_bound);
}

//@playback-end
// failing check: "KillersTable has 255 rows: index out of range (read in MovePicker::next)" @ src/engine/search/negamax.rs:504:9 in function engine::search::negamax::verif_kani_c04::MovePicker::next
// failing check: attempt to add with overflow @ src/engine/search/negamax.rs:754:17 in function engine::search::negamax::verif_kani_c04::negamax__body
