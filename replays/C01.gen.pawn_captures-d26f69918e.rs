// REPLAY FILE written by /verif/driver/verif.py
// property: C01
// obligation: C01.gen.pawn_captures
// backend: kani
// harness: chess::movegen::gen::verif_kani_c01::vk_c01_gen_pawn_captures
// contract_file: chess__movegen__gen@c01.rs
// functions_under_contract: chess/movegen/gen.rs::generate_pawn_captures
// failed: "attack test on the wrong position"
// repo_head: 79b9776  (working tree may differ)
// replay with: /verif/check replay /verif/replays/C01.gen.pawn_captures-d26f69918e.rs
//
// The verifier's counterexample as a concrete playback test (runs the REAL functions natively):
//@playback-begin
/// Test generated for harness `chess::movegen::gen::verif_kani_c01::vk_c01_gen_pawn_captures` 
///
/// Check for `assertion`: ""attack test on the wrong position""
///
/// # Warning
///
/// Concrete playback tests combined with stubs or contracts is highly
/// experimental, and subject to change.
///
/// The original harness has stubs which are not applied to this test.
/// This may cause a mismatch of non-deterministic values if the stub
/// creates any non-deterministic value.
/// The execution path may also differ, which can be used to refine the stub
/// logic.

#[test]
fn kani_concrete_playback_vk_c01_gen_pawn_captures_2946660189649817879() {
    let concrete_vals: Vec<Vec<u8>> = vec![
        // 1
        vec![1],
        // 0
        vec![0],
        // 0
        vec![0],
        // 0
        vec![0],
        // 0
        vec![0],
        // 0
        vec![0],
        // 0
        vec![0],
        // 0
        vec![0],
        // 0
        vec![0],
        // 9
        vec![9],
        // 0
        vec![0],
        // 1
        vec![1],
        // 1
        vec![1],
        // 1
        vec![1],
        // 1
        vec![1],
        // 1
        vec![1],
        // 0
        vec![0],
        // 1
        vec![1],
        // 8
        vec![8],
        // 0
        vec![0],
        // 0
        vec![0],
        // 0
        vec![0],
        // 0
        vec![0],
        // 0
        vec![0],
        // 0
        vec![0],
        // 0
        vec![0],
        // 1
        vec![1],
        // 0
        vec![0],
        // 1
        vec![1],
        // 0
        vec![0],
        // 0
        vec![0],
        // 0
        vec![0],
        // 7
        vec![7],
        // 1
        vec![1],
        // 0
        vec![0],
        // 0
        vec![0],
        // 0
        vec![0],
        // 0
        vec![0],
        // 6
        vec![6],
        // 0
        vec![0],
        // 0
        vec![0],
        // 0
        vec![0],
        // 0
        vec![0],
        // 0
        vec![0],
        // 0
        vec![0],
        // 0
        vec![0],
        // 0
        vec![0],
        // 0
        vec![0],
        // 0
        vec![0],
        // 0
        vec![0],
        // 0
        vec![0],
        // 0
        vec![0],
        // 0
        vec![0],
        // 0
        vec![0],
        // 0
        vec![0],
        // 0
        vec![0],
        // 1
        vec![1],
        // 1
        vec![1],
        // 1
        vec![1],
        // 1
        vec![1],
        // 1
        vec![1],
        // 0
        vec![0],
        // 0
        vec![0],
        // 0
        vec![0],
        // 0
        vec![0, 0, 0, 0],
        // 0
        vec![0, 0, 0, 0],
        // 0
        vec![0, 0],
        // 0
        vec![0, 0],
        // 0
        vec![0, 0],
        // 1
        vec![1],
        // 0
        vec![0],
        // 0
        vec![0],
        // 0
        vec![0],
        // 0
        vec![0],
        // 1
        vec![1],
        // 40
        vec![40],
        // 0ul
        vec![0, 0, 0, 0, 0, 0, 0, 0],
        // 18445185490207358975ul
        vec![255, 191, 255, 255, 121, 118, 250, 255],
        // 134217728ul
        vec![0, 0, 0, 8, 0, 0, 0, 0],
        // 4294967296ul
        vec![0, 0, 0, 0, 1, 0, 0, 0],
        // 0
        vec![0],
        // 9
        vec![9],
        // 33
        vec![33],
        // 0ul
        vec![0, 0, 0, 0, 0, 0, 0, 0],
    ];
    kani::concrete_playback_run(concrete_vals, vk_c01_gen_pawn_captures);
}

//@playback-end
// failing check: "attack test on the wrong position" @ src/chess/movegen/gen.rs:929:9 in function chess::movegen::gen::verif_kani_c01::att_expect
