// REPLAY FILE written by /verif/driver/verif.py
// property: C16
// obligation: C16.passed_mask.geometry
// backend: kani
// harness: engine::eval::pawn_structure::verif_kani_c16::vk_c16_passed_mask_geometry
// contract_file: engine__eval__pawn_structure@c16.rs
// functions_under_contract: engine/eval/pawn_structure.rs::generate_passed_pawn_mask
// failed: assertion failed: got == want
// repo_head: 76dd00f  (working tree may differ)
// replay with: /verif/check replay /verif/replays/C16.passed_mask.geometry-05bff9f2c4.rs
//
// The verifier's counterexample as a concrete playback test (runs the REAL functions natively):
//@playback-begin
/// Test generated for harness `engine::eval::pawn_structure::verif_kani_c16::vk_c16_passed_mask_geometry` 
///
/// Check for `assertion`: "assertion failed: got == want"

#[test]
fn kani_concrete_playback_vk_c16_passed_mask_geometry_6457627116454131281() {
    let concrete_vals: Vec<Vec<u8>> = vec![
        // 0
        vec![0],
        // 0
        vec![0],
    ];
    kani::concrete_playback_run(concrete_vals, vk_c16_passed_mask_geometry);
}

//@playback-end
// failing check: assertion failed: got == want @ src/engine/eval/pawn_structure.rs:236:5 in function engine::eval::pawn_structure::verif_kani_c16::vk_c16_passed_mask_geometry
