// REPLAY FILE written by /verif/driver/verif.py
// property: C11
// obligation: C11.repetition.window
// backend: kani
// harness: chess::game::verif_kani_c11rep::vk_c11_repetition_window
// contract_file: chess__game@c11rep.rs
// functions_under_contract: chess/game.rs::Game::is_repeated_position
// failed: assertion failed: g.is_repeated_position() == want
// repo_head: 76dd00f  (working tree may differ)
// replay with: /verif/check replay /verif/replays/C11.repetition.window-225d6217ed.rs
//
// The verifier's counterexample as a concrete playback test (runs the REAL functions natively):
//@playback-begin
/// Test generated for harness `chess::game::verif_kani_c11rep::vk_c11_repetition_window` 
///
/// Check for `assertion`: "assertion failed: g.is_repeated_position() == want"

#[test]
fn kani_concrete_playback_vk_c11_repetition_window_3737318192494674636() {
    let concrete_vals: Vec<Vec<u8>> = vec![
        // 8ul
        vec![8, 0, 0, 0, 0, 0, 0, 0],
        // 4ul
        vec![4, 0, 0, 0, 0, 0, 0, 0],
        // 4ul
        vec![4, 0, 0, 0, 0, 0, 0, 0],
        // 4ul
        vec![4, 0, 0, 0, 0, 0, 0, 0],
        // 4ul
        vec![4, 0, 0, 0, 0, 0, 0, 0],
        // 18446744073709551611ul
        vec![251, 255, 255, 255, 255, 255, 255, 255],
        // 4ul
        vec![4, 0, 0, 0, 0, 0, 0, 0],
        // 4ul
        vec![4, 0, 0, 0, 0, 0, 0, 0],
        // 4ul
        vec![4, 0, 0, 0, 0, 0, 0, 0],
        // 4
        vec![4, 0, 0, 0],
        // 18446744073709551611ul
        vec![251, 255, 255, 255, 255, 255, 255, 255],
    ];
    kani::concrete_playback_run(concrete_vals, vk_c11_repetition_window);
}

//@playback-end
// failing check: assertion failed: g.is_repeated_position() == want @ src/chess/game.rs:561:5 in function chess::game::verif_kani_c11rep::vk_c11_repetition_window
