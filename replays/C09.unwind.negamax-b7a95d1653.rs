// REPLAY FILE written by /verif/driver/verif.py
// property: C04
// obligation: C09.unwind.negamax
// backend: kani
// harness: engine::search::negamax::verif_kani_c04::vk_c09_unwind_negamax
// contract_file: engine__search__negamax@c04.rs
// functions_under_contract: engine/search/negamax.rs::negamax
// failed: "child searched with an illegal window"
// repo_head: 76dd00f  (working tree may differ)
// replay with: /verif/check replay /verif/replays/C09.unwind.negamax-b7a95d1653.rs
//
// The verifier's counterexample as a concrete playback test (runs the REAL functions natively):
//@playback-begin
/// Test generated for harness `engine::search::negamax::verif_kani_c04::vk_c09_unwind_negamax` 
///
/// Check for `assertion`: ""child searched with an illegal window""

#[test]
fn kani_concrete_playback_vk_c09_unwind_negamax_12233147147581506898() {
    let concrete_vals: Vec<Vec<u8>> = vec![
        // -32606
        vec![162, 128],
        // -32605
        vec![163, 128],
        // 128
        vec![128],
        // 0
        vec![0],
        // 0
        vec![0],
        // 1
        vec![1],
        // 1
        vec![1],
        // 18446744073709551615ul
        vec![255, 255, 255, 255, 255, 255, 255, 255],
        // 18446744073708551614ul
        vec![190, 189, 240, 255, 255, 255, 255, 255],
        // 255
        vec![255],
        // 255
        vec![255],
        // 0
        vec![0],
        // 255
        vec![255],
        // 0
        vec![0],
        // 0
        vec![0],
        // 255
        vec![255],
        // -1
        vec![255, 255],
        // 0
        vec![0],
        // 0
        vec![0],
        // 2
        vec![2],
        // 1
        vec![1],
    ];
    kani::concrete_playback_run(concrete_vals, vk_c09_unwind_negamax);
}

//@playback-end
// failing check: "child searched with an illegal window" @ src/engine/search/negamax.rs:573:9 in function engine::search::negamax::verif_kani_c04::child_contract
