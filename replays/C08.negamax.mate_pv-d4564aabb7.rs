// REPLAY FILE written by /verif/driver/verif.py
// property: C08
// obligation: C08.negamax.mate_pv
// backend: kani
// harness: engine::search::negamax::verif_kani_c04::vk_c08_negamax_mate_pv
// contract_file: engine__search__negamax@c04.rs
// functions_under_contract: engine/search/negamax.rs::negamax
// failed: assertion failed: mate_distance(e.0) >= r.plies as i16
// repo_head: 76dd00f  (working tree may differ)
// replay with: /verif/check replay /verif/replays/C08.negamax.mate_pv-d4564aabb7.rs
//
// The verifier's counterexample as a concrete playback test (runs the REAL functions natively):
//@playback-begin
/// Test generated for harness `engine::search::negamax::verif_kani_c04::vk_c08_negamax_mate_pv` 
///
/// Check for `assertion`: "assertion failed: mate_distance(e.0) >= r.plies as i16"

#[test]
fn kani_concrete_playback_vk_c08_negamax_mate_pv_6916220436697955975() {
    let concrete_vals: Vec<Vec<u8>> = vec![
        // 0
        vec![0],
        // -32766
        vec![2, 128],
        // 32613
        vec![101, 127],
        // 1
        vec![1],
        // 224
        vec![224],
        // 1
        vec![1],
        // 1
        vec![1],
        // 1
        vec![1],
        // 0ul
        vec![0, 0, 0, 0, 0, 0, 0, 0],
        // 0ul
        vec![0, 0, 0, 0, 0, 0, 0, 0],
        // 0
        vec![0],
        // 0
        vec![0],
        // 0
        vec![0],
        // 0
        vec![0],
        // 0
        vec![0],
        // 0
        vec![0],
        // 0
        vec![0],
        // 0
        vec![0],
        // 0
        vec![0],
        // 253
        vec![253],
        // 18446744073709551615ul
        vec![255, 255, 255, 255, 255, 255, 255, 255],
        // 32
        vec![32],
        // -22
        vec![234, 255],
        // 0
        vec![0],
        // 62
        vec![62],
        // 63
        vec![63],
        // 0
        vec![0],
        // 0
        vec![0],
        // 31936
        vec![192, 124],
        // 2
        vec![2],
        // 1
        vec![1],
    ];
    kani::concrete_playback_run(concrete_vals, vk_c08_negamax_mate_pv);
}

//@playback-end
// failing check: assertion failed: mate_distance(e.0) >= r.plies as i16 @ src/engine/search/negamax.rs:1061:13 in function engine::search::negamax::verif_kani_c04::vk_c08_negamax_mate_pv
// failing check: assertion failed: r.pv_len_after as i16 == mate_distance(e.0) - r.plies as i16 @ src/engine/search/negamax.rs:1063:17 in function engine::search::negamax::verif_kani_c04::vk_c08_negamax_mate_pv
