// REPLAY FILE written by /verif/driver/verif.py
// property: C04
// obligation: C04.negamax.body_arith
// backend: kani
// harness: engine::search::negamax::verif_kani_c04::vk_c04_negamax_body_arith
// contract_file: engine__search__negamax@c04.rs
// functions_under_contract: engine/search/negamax.rs::negamax, engine/search/negamax.rs::DepthReduction::reduce_less_if, engine/search/negamax.rs::DepthReduction::value
// failed: attempt to add with overflow
// repo_head: 550f3af  (working tree may differ)
// replay with: /verif/check replay /verif/replays/C04.negamax.body_arith-fc90cf383b.rs
//
// The verifier's counterexample as a concrete playback test (runs the REAL functions natively):
//@playback-begin
/// Test generated for harness `engine::search::negamax::verif_kani_c04::vk_c04_negamax_body_arith` 
///
/// Check for `assertion`: "attempt to add with overflow"

#[test]
fn kani_concrete_playback_vk_c04_negamax_body_arith_9591548311148906877() {
    let concrete_vals: Vec<Vec<u8>> = vec![
        // -24576
        vec![0, 160],
        // -20480
        vec![0, 176],
        // 255
        vec![255],
        // 128
        vec![128],
        // 0
        vec![0],
        // 1
        vec![1],
        // 1
        vec![1],
        // 18446744073709551615ul
        vec![255, 255, 255, 255, 255, 255, 255, 255],
        // 18446744073708551614ul
        vec![190, 189, 240, 255, 255, 255, 255, 255],
        // 255
        vec![255],
        // 255
        vec![255],
        // 0
        vec![0],
        // 255
        vec![255],
        // 0
        vec![0],
        // 0
        vec![0],
        // 0
        vec![0],
        // 0
        vec![0],
        // 1
        vec![1],
    ];
    kani::concrete_playback_run(concrete_vals, vk_c04_negamax_body_arith);
}

//@playback-end
// failing check: attempt to add with overflow @ src/engine/search/negamax.rs:681:9 in function engine::search::negamax::verif_kani_c04::negamax__body
