// REPLAY FILE written by /verif/driver/verif.py
// property: C03
// obligation: C03.hash_additive
// backend: kani
// harness: chess::zobrist::verif_kani_c03::vk_c03_hash_additive
// contract_file: chess__zobrist@c03.rs
// functions_under_contract: chess/zobrist.rs::hash
// failed: rust_dealloc must be called on an object whose allocated size matches its layout
// repo_head: 76dd00f  (working tree may differ)
// replay with: /verif/check replay /verif/replays/C03.hash_additive-0f306600b6.rs
//
// The verifier's counterexample as a concrete playback test (runs the REAL functions natively):
//@playback-begin
/// Test generated for harness `chess::zobrist::verif_kani_c03::vk_c03_hash_additive` 
///
/// Check for `assertion`: "rust_dealloc must be called on an object whose allocated size matches its layout"
///
/// # Warning
///
/// Concrete playback tests combined with stubs or contracts is highly
/// experimental, and subject to change.
///
/// The original harness has stubs which are not applied to this test.
/// This may cause a mismatch of non-deterministic values if the stub
/// creates any non-deterministic value.
/// The execution path may also differ, which can be used to refine the stub
/// logic.

#[test]
fn kani_concrete_playback_vk_c03_hash_additive_10966982505393459310() {
    let concrete_vals: Vec<Vec<u8>> = vec![
        // 0
        vec![0],
        // 0
        vec![0],
        // 0
        vec![0],
        // 63
        vec![63],
        // 1
        vec![1],
        // 0
        vec![0],
        // 0
        vec![0],
        // 0
        vec![0],
        // 0
        vec![0],
        // 0
        vec![0],
        // 0
        vec![0],
        // 0
        vec![0],
        // 0
        vec![0],
        // 0
        vec![0],
        // 0
        vec![0],
        // 0
        vec![0],
        // 0
        vec![0],
        // 0
        vec![0],
        // 0
        vec![0],
        // 0
        vec![0],
        // 0
        vec![0],
        // 0
        vec![0],
        // 0
        vec![0],
        // 0
        vec![0],
        // 0
        vec![0],
        // 0
        vec![0],
        // 0
        vec![0],
        // 0
        vec![0],
        // 0
        vec![0],
        // 0
        vec![0],
        // 0
        vec![0],
        // 0
        vec![0],
        // 0
        vec![0],
        // 0
        vec![0],
        // 0
        vec![0],
        // 0
        vec![0],
        // 0
        vec![0],
        // 0
        vec![0],
        // 0
        vec![0],
        // 0
        vec![0],
        // 0
        vec![0],
        // 0
        vec![0],
        // 0
        vec![0],
        // 0
        vec![0],
        // 0
        vec![0],
        // 0
        vec![0],
        // 0
        vec![0],
        // 0
        vec![0],
        // 0
        vec![0],
        // 0
        vec![0],
        // 0
        vec![0],
        // 0
        vec![0],
        // 0
        vec![0],
        // 0
        vec![0],
        // 0
        vec![0],
        // 0
        vec![0],
        // 0
        vec![0],
        // 0
        vec![0],
        // 0
        vec![0],
        // 0
        vec![0],
        // 0
        vec![0],
        // 0
        vec![0],
        // 0
        vec![0],
        // 0
        vec![0],
        // 0
        vec![0],
        // 0
        vec![0],
        // 0
        vec![0],
        // 0
        vec![0],
        // 0
        vec![0],
        // 2147483647
        vec![255, 255, 255, 127],
        // 2147483647
        vec![255, 255, 255, 127],
        // -12769
        vec![31, 206],
        // -1
        vec![255, 255],
        // 200
        vec![200, 0],
        // 0
        vec![0],
        // 1
        vec![1],
        // 1
        vec![1],
        // 1
        vec![1],
        // 1
        vec![1],
        // 1
        vec![1],
        // 3
        vec![3],
        // 18446744073709551615ul
        vec![255, 255, 255, 255, 255, 255, 255, 255],
    ];
    kani::concrete_playback_run(concrete_vals, vk_c03_hash_additive);
}

//@playback-end
// failing check: rust_dealloc must be called on an object whose allocated size matches its layout @ ../../../../../root/.kani/kani-0.68.0/library/kani/kani_lib.c:85 in function __rust_dealloc
// failing check: free argument must be NULL or valid pointer @ ../../../../../root/.kani/kani-0.68.0/library/kani/kani_lib.c:87 in function __rust_dealloc
// failing check: free argument must be dynamic object @ ../../../../../root/.kani/kani-0.68.0/library/kani/kani_lib.c:87 in function __rust_dealloc
// failing check: free argument has offset zero @ ../../../../../root/.kani/kani-0.68.0/library/kani/kani_lib.c:87 in function __rust_dealloc
