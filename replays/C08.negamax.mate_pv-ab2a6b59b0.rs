// REPLAY FILE written by /verif/driver/verif.py
// property: C08
// obligation: C08.negamax.mate_pv
// backend: kani
// harness: engine::search::negamax::verif_kani_c04::vk_c08_negamax_mate_pv
// contract_file: engine__search__negamax@c04.rs
// functions_under_contract: engine/search/negamax.rs::negamax
// failed: "child line not cleared before the child search"
// repo_head: 76dd00f  (working tree may differ)
// replay with: /verif/check replay /verif/replays/C08.negamax.mate_pv-ab2a6b59b0.rs
//
// The verifier's counterexample as a concrete playback test (runs the REAL functions natively):
//@playback-begin
/// Test generated for harness `engine::search::negamax::verif_kani_c04::vk_c08_negamax_mate_pv` 
///
/// Check for `assertion`: ""child line not cleared before the child search""

#[test]
fn kani_concrete_playback_vk_c08_negamax_mate_pv_8446767373944899767() {
    let concrete_vals: Vec<Vec<u8>> = vec![
        // 0
        vec![0],
        // -31971
        vec![29, 131],
        // 32062
        vec![62, 125],
        // 1
        vec![1],
        // 0
        vec![0],
        // 1
        vec![1],
        // 1
        vec![1],
        // 1
        vec![1],
        // 0ul
        vec![0, 0, 0, 0, 0, 0, 0, 0],
        // 0ul
        vec![0, 0, 0, 0, 0, 0, 0, 0],
        // 0
        vec![0],
        // 0
        vec![0],
        // 1
        vec![1],
        // -31971
        vec![29, 131],
        // 192
        vec![192],
        // 1
        vec![1],
        // 1
        vec![1],
        // 0
        vec![0],
        // 1
        vec![1],
        // 0
        vec![0],
        // 255
        vec![255],
        // 0
        vec![0],
        // 0
        vec![0],
        // 253
        vec![253],
        // 31887
        vec![143, 124],
        // 0
        vec![0],
        // 0
        vec![0],
        // 32
        vec![32],
        // 0
        vec![0],
        // 0
        vec![0],
        // 31985
        vec![241, 124],
        // 127
        vec![127],
        // 0
        vec![0],
        // 0
        vec![0],
        // 32
        vec![32],
        // 0
        vec![0],
        // 0
        vec![0],
        // 8192
        vec![0, 32],
        // 127
        vec![127],
    ];
    kani::concrete_playback_run(concrete_vals, vk_c08_negamax_mate_pv);
}

//@playback-end
// failing check: "child line not cleared before the child search" @ src/engine/search/negamax.rs:601:5 in function engine::search::negamax::verif_kani_c04::negamax
// failing check: assertion failed: mate_distance(e.0) >= r.plies as i16 @ src/engine/search/negamax.rs:1065:13 in function engine::search::negamax::verif_kani_c04::vk_c08_negamax_mate_pv
// failing check: assertion failed: r.pv_len_after as i16 == mate_distance(e.0) - r.plies as i16 @ src/engine/search/negamax.rs:1067:17 in function engine::search::negamax::verif_kani_c04::vk_c08_negamax_mate_pv
