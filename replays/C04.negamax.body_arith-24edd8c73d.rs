// REPLAY FILE written by /verif/driver/verif.py
// property: C04
// obligation: C04.negamax.body_arith
// backend: kani
// harness: engine::search::negamax::verif_kani_c04::vk_c04_negamax_body_arith
// contract_file: engine__search__negamax@c04.rs
// functions_under_contract: engine/search/negamax.rs::negamax, engine/search/negamax.rs::DepthReduction::reduce_less_if, engine/search/negamax.rs::DepthReduction::value
// failed: "child searched with an illegal window"
// repo_head: 76dd00f  (working tree may differ)
// replay with: /verif/check replay /verif/replays/C04.negamax.body_arith-24edd8c73d.rs
//
// The verifier's counterexample as a concrete playback test (runs the REAL functions natively):
//@playback-begin
/// Test generated for harness `engine::search::negamax::verif_kani_c04::vk_c04_negamax_body_arith` 
///
/// Check for `assertion`: ""child searched with an illegal window""

#[test]
fn kani_concrete_playback_vk_c04_negamax_body_arith_6262866810759850265() {
    let concrete_vals: Vec<Vec<u8>> = vec![
        // -32768
        vec![0, 128],
        // -32767
        vec![1, 128],
        // 156
        vec![156],
        // 0
        vec![0],
        // 0
        vec![0],
        // 0
        vec![0],
        // 18446744073709551615ul
        vec![255, 255, 255, 255, 255, 255, 255, 255],
        // 18446744073708551614ul
        vec![190, 189, 240, 255, 255, 255, 255, 255],
        // 255
        vec![255],
        // 255
        vec![255],
        // 0
        vec![0],
        // 255
        vec![255],
        // 0
        vec![0],
        // 0
        vec![0],
        // 255
        vec![255],
        // -31898
        vec![102, 131],
        // 0
        vec![0],
        // 1
        vec![1],
        // 0
        vec![0],
        // 0
        vec![0],
    ];
    kani::concrete_playback_run(concrete_vals, vk_c04_negamax_body_arith);
}

//@playback-end
// failing check: "child searched with an illegal window" @ src/engine/search/negamax.rs:573:9 in function engine::search::negamax::verif_kani_c04::child_contract
