// REPLAY FILE written by /verif/driver/verif.py
// property: C18
// obligation: C18.disambiguation.minimal
// backend: kani
// harness: chess::san::san_writer::verif_kani_c18::vk_c18_disambiguation_minimal
// contract_file: chess__san__san_writer@c18.rs
// functions_under_contract: chess/san/san_writer.rs::required_ambiguity_resolution
// failed: assertion failed: got == want
// repo_head: 76dd00f  (working tree may differ)
// replay with: /verif/check replay /verif/replays/C18.disambiguation.minimal-50b97f890d.rs
//
// The verifier's counterexample as a concrete playback test (runs the REAL functions natively):
//@playback-begin
/// Test generated for harness `chess::san::san_writer::verif_kani_c18::vk_c18_disambiguation_minimal` 
///
/// Check for `assertion`: "assertion failed: got == want"

#[test]
fn kani_concrete_playback_vk_c18_disambiguation_minimal_7757280657872612745() {
    let concrete_vals: Vec<Vec<u8>> = vec![
        // 5
        vec![5],
        // 1
        vec![1],
        // 8
        vec![8],
        // 1
        vec![1],
        // 1
        vec![1],
        // 1
        vec![1],
        // 1
        vec![1],
        // 1
        vec![1],
        // 2
        vec![2],
        // 1
        vec![1],
        // 1
        vec![1],
        // 1
        vec![1],
        // 1
        vec![1],
        // 1
        vec![1],
        // 1
        vec![1],
        // 1
        vec![1],
        // 1
        vec![1],
        // 1
        vec![1],
        // 1
        vec![1],
        // 1
        vec![1],
        // 1
        vec![1],
        // 1
        vec![1],
        // 1
        vec![1],
        // 1
        vec![1],
        // 2
        vec![2],
        // 1
        vec![1],
        // 1
        vec![1],
        // 1
        vec![1],
        // 1
        vec![1],
        // 1
        vec![1],
        // 1
        vec![1],
        // 1
        vec![1],
        // 2
        vec![2],
        // 1
        vec![1],
        // 1
        vec![1],
        // 1
        vec![1],
        // 1
        vec![1],
        // 1
        vec![1],
        // 1
        vec![1],
        // 1
        vec![1],
        // 2
        vec![2],
        // 1
        vec![1],
        // 2
        vec![2],
        // 1
        vec![1],
        // 1
        vec![1],
        // 1
        vec![1],
        // 1
        vec![1],
        // 1
        vec![1],
        // 1
        vec![1],
        // 1
        vec![1],
        // 1
        vec![1],
        // 1
        vec![1],
        // 1
        vec![1],
        // 1
        vec![1],
        // 1
        vec![1],
        // 1
        vec![1],
        // 2
        vec![2],
        // 1
        vec![1],
        // 2
        vec![2],
        // 1
        vec![1],
        // 1
        vec![1],
        // 1
        vec![1],
        // 3
        vec![3],
        // 1
        vec![1],
        // 2ul
        vec![2, 0, 0, 0, 0, 0, 0, 0],
        // 24
        vec![24],
        // 1
        vec![1],
        // 1
        vec![1],
        // 42
        vec![42],
        // 1
        vec![1],
        // 0
        vec![0],
        // 0ul
        vec![0, 0, 0, 0, 0, 0, 0, 0],
    ];
    kani::concrete_playback_run(concrete_vals, vk_c18_disambiguation_minimal);
}

//@playback-end
// failing check: assertion failed: got == want @ src/chess/san/san_writer.rs:435:5 in function chess::san::san_writer::verif_kani_c18::vk_c18_disambiguation_minimal
