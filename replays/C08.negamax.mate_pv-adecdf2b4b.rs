// REPLAY FILE written by /verif/driver/verif.py
// property: C08
// obligation: C08.negamax.mate_pv
// backend: kani
// harness: engine::search::negamax::verif_kani_c04::vk_c08_negamax_mate_pv
// contract_file: engine__search__negamax@c04.rs
// functions_under_contract: engine/search/negamax.rs::negamax
// failed: assertion failed: mate_distance(e.0) >= r.plies as i16
// repo_head: 76dd00f  (working tree may differ)
// replay with: /verif/check replay /verif/replays/C08.negamax.mate_pv-adecdf2b4b.rs
//
// The verifier's counterexample as a concrete playback test (runs the REAL functions natively):
//@playback-begin
/// Test generated for harness `engine::search::negamax::verif_kani_c04::vk_c08_negamax_mate_pv` 
///
/// Check for `assertion`: "assertion failed: mate_distance(e.0) >= r.plies as i16"

#[test]
fn kani_concrete_playback_vk_c08_negamax_mate_pv_15322773178452317177() {
    let concrete_vals: Vec<Vec<u8>> = vec![
        // 0
        vec![0],
        // -32510
        vec![2, 129],
        // 32624
        vec![112, 127],
        // 10
        vec![10],
        // 47
        vec![47],
        // 1
        vec![1],
        // 0
        vec![0],
        // 0ul
        vec![0, 0, 0, 0, 0, 0, 0, 0],
        // 0ul
        vec![0, 0, 0, 0, 0, 0, 0, 0],
        // 0
        vec![0],
        // 0
        vec![0],
        // 0
        vec![0],
        // 0
        vec![0],
        // 0
        vec![0],
        // 0
        vec![0],
        // 0
        vec![0],
        // 0
        vec![0],
        // 0
        vec![0],
        // 1
        vec![1],
        // 65536ul
        vec![0, 0, 1, 0, 0, 0, 0, 0],
        // 0
        vec![0],
        // -31892
        vec![108, 131],
        // 0
        vec![0],
        // 4
        vec![4],
        // 0
        vec![0],
        // 1
        vec![1],
        // 0
        vec![0],
        // 31992
        vec![248, 124],
        // 0
        vec![0],
        // 1
        vec![1],
    ];
    kani::concrete_playback_run(concrete_vals, vk_c08_negamax_mate_pv);
}

//@playback-end
// failing check: assertion failed: mate_distance(e.0) >= r.plies as i16 @ src/engine/search/negamax.rs:1067:13 in function engine::search::negamax::verif_kani_c04::vk_c08_negamax_mate_pv
// failing check: assertion failed: r.pv_len_after as i16 == mate_distance(e.0) - r.plies as i16 @ src/engine/search/negamax.rs:1069:17 in function engine::search::negamax::verif_kani_c04::vk_c08_negamax_mate_pv
