// REPLAY FILE written by /verif/driver/verif.py
// property: C04
// obligation: C04.negamax.plies_bound
// backend: kani
// harness: engine::search::negamax::verif_kani_c04::vk_c04_negamax_plies_bound
// contract_file: engine__search__negamax@c04.rs
// functions_under_contract: engine/search/negamax.rs::negamax
// failed: "child searched with an illegal window"
// repo_head: 76dd00f  (working tree may differ)
// replay with: /verif/check replay /verif/replays/C04.negamax.plies_bound-b2a552987d.rs
//
// The verifier's counterexample as a concrete playback test (runs the REAL functions natively):
//@playback-begin
/// Test generated for harness `engine::search::negamax::verif_kani_c04::vk_c04_negamax_plies_bound` 
///
/// Check for `assertion`: ""child searched with an illegal window""

#[test]
fn kani_concrete_playback_vk_c04_negamax_plies_bound_11581332573328832824() {
    let concrete_vals: Vec<Vec<u8>> = vec![
        // 32480
        vec![224, 126],
        // 32743
        vec![231, 127],
        // 1
        vec![1],
        // 8
        vec![8],
        // 0
        vec![0],
        // 0
        vec![0],
        // 18446744073709551615ul
        vec![255, 255, 255, 255, 255, 255, 255, 255],
        // 18446744073708551614ul
        vec![190, 189, 240, 255, 255, 255, 255, 255],
        // 255
        vec![255],
        // 255
        vec![255],
        // 0
        vec![0],
        // 255
        vec![255],
        // 0
        vec![0],
        // 0
        vec![0],
        // 0
        vec![0],
        // 0
        vec![0],
        // 0
        vec![0],
        // 2
        vec![2],
        // 141287244169216ul
        vec![0, 0, 0, 0, 128, 128, 0, 0],
        // 252
        vec![252],
        // 31872
        vec![128, 124],
        // 0
        vec![0],
        // 1
        vec![1],
        // 0
        vec![0],
        // 0
        vec![0],
        // 0
        vec![0],
        // 31520
        vec![32, 123],
        // 249
        vec![249],
        // 0
        vec![0],
        // 2
        vec![2],
        // 0
        vec![0],
        // 0
        vec![0],
    ];
    kani::concrete_playback_run(concrete_vals, vk_c04_negamax_plies_bound);
}

//@playback-end
// failing check: "child searched with an illegal window" @ src/engine/search/negamax.rs:573:9 in function engine::search::negamax::verif_kani_c04::child_contract
// failing check: attempt to add with overflow @ src/engine/search/negamax.rs:754:17 in function engine::search::negamax::verif_kani_c04::negamax__body
// failing check: "KillersTable has 255 rows: index out of range (read in MovePicker::next)" @ src/engine/search/negamax.rs:504:9 in function engine::search::negamax::verif_kani_c04::MovePicker::next
