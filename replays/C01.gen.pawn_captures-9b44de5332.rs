// REPLAY FILE written by /verif/driver/verif.py
// property: C01
// obligation: C01.gen.pawn_captures
// backend: kani
// harness: chess::movegen::gen::verif_kani_c01::vk_c01_gen_pawn_captures
// contract_file: chess__movegen__gen@c01.rs
// functions_under_contract: chess/movegen/gen.rs::generate_pawn_captures
// failed: "a loop ran that the contract does not foresee"
// repo_head: 76dd00f  (working tree may differ)
// replay with: /verif/check replay /verif/replays/C01.gen.pawn_captures-9b44de5332.rs
//
// The verifier's counterexample as a concrete playback test (runs the REAL functions natively):
//@playback-begin
/// Test generated for harness `chess::movegen::gen::verif_kani_c01::vk_c01_gen_pawn_captures` 
///
/// Check for `assertion`: ""a loop ran that the contract does not foresee""
///
/// # Warning
///
/// Concrete playback tests combined with stubs or contracts is highly
/// experimental, and subject to change.
///
/// The original harness has stubs which are not applied to this test.
/// This may cause a mismatch of non-deterministic values if the stub
/// creates any non-deterministic value.
/// The execution path may also differ, which can be used to refine the stub
/// logic.

#[test]
fn kani_concrete_playback_vk_c01_gen_pawn_captures_6840001508498209144() {
    let concrete_vals: Vec<Vec<u8>> = vec![
        // 0
        vec![0],
        // 4
        vec![4],
        // 0
        vec![0],
        // 10
        vec![10],
        // 11
        vec![11],
        // 1
        vec![1],
        // 9
        vec![9],
        // 8
        vec![8],
        // 7
        vec![7],
        // 7
        vec![7],
        // 7
        vec![7],
        // 7
        vec![7],
        // 7
        vec![7],
        // 7
        vec![7],
        // 7
        vec![7],
        // 7
        vec![7],
        // 0
        vec![0],
        // 7
        vec![7],
        // 2
        vec![2],
        // 0
        vec![0],
        // 10
        vec![10],
        // 0
        vec![0],
        // 1
        vec![1],
        // 0
        vec![0],
        // 0
        vec![0],
        // 1
        vec![1],
        // 1
        vec![1],
        // 1
        vec![1],
        // 0
        vec![0],
        // 1
        vec![1],
        // 1
        vec![1],
        // 8
        vec![8],
        // 1
        vec![1],
        // 1
        vec![1],
        // 9
        vec![9],
        // 1
        vec![1],
        // 1
        vec![1],
        // 1
        vec![1],
        // 7
        vec![7],
        // 7
        vec![7],
        // 0
        vec![0],
        // 0
        vec![0],
        // 0
        vec![0],
        // 4
        vec![4],
        // 1
        vec![1],
        // 1
        vec![1],
        // 4
        vec![4],
        // 10
        vec![10],
        // 1
        vec![1],
        // 10
        vec![10],
        // 11
        vec![11],
        // 7
        vec![7],
        // 1
        vec![1],
        // 1
        vec![1],
        // 1
        vec![1],
        // 1
        vec![1],
        // 10
        vec![10],
        // 7
        vec![7],
        // 7
        vec![7],
        // 1
        vec![1],
        // 4
        vec![4],
        // 10
        vec![10],
        // 0
        vec![0],
        // 6
        vec![6],
        // 0
        vec![0, 0, 0, 0],
        // 0
        vec![0, 0, 0, 0],
        // 0
        vec![0, 0],
        // 0
        vec![0, 0],
        // 0
        vec![0, 0],
        // 1
        vec![1],
        // 0
        vec![0],
        // 0
        vec![0],
        // 0
        vec![0],
        // 0
        vec![0],
        // 0
        vec![0],
        // 0ul
        vec![0, 0, 0, 0, 0, 0, 0, 0],
        // 16120352353314865447ul
        vec![39, 1, 119, 89, 14, 255, 182, 223],
        // 990509893020514592ul
        vec![32, 121, 255, 239, 127, 255, 190, 13],
        // 18395227555901682431ul
        vec![255, 50, 255, 255, 255, 249, 72, 255],
        // 48
        vec![48],
        // 57
        vec![57],
        // 54
        vec![54],
    ];
    kani::concrete_playback_run(concrete_vals, vk_c01_gen_pawn_captures);
}

//@playback-end
// failing check: "a loop ran that the contract does not foresee" @ src/chess/bitboard.rs:602:9 in function chess::bitboard::verif_kani_iter::rec_done
// failing check: "contract expects a non-empty loop that did not run" @ src/chess/bitboard.rs:591:9 in function chess::bitboard::verif_kani_iter::rec_expect
// failing check: "loop iterates a different set than the contract says" @ src/chess/bitboard.rs:592:9 in function chess::bitboard::verif_kani_iter::rec_expect
