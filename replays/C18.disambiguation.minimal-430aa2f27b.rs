// REPLAY FILE written by /verif/driver/verif.py
// property: C18
// obligation: C18.disambiguation.minimal
// backend: kani
// harness: chess::san::san_writer::verif_kani_c18::vk_c18_disambiguation_minimal
// contract_file: chess__san__san_writer@c18.rs
// functions_under_contract: chess/san/san_writer.rs::required_ambiguity_resolution
// failed: rust_dealloc must be called on an object whose allocated size matches its layout
// repo_head: 550f3af  (working tree may differ)
// replay with: /verif/check replay /verif/replays/C18.disambiguation.minimal-430aa2f27b.rs
//
// The verifier's counterexample as a concrete playback test (runs the REAL functions natively):
//@playback-begin
/// Test generated for harness `chess::san::san_writer::verif_kani_c18::vk_c18_disambiguation_minimal` 
///
/// Check for `assertion`: "rust_dealloc must be called on an object whose allocated size matches its layout"

#[test]
fn kani_concrete_playback_vk_c18_disambiguation_minimal_10550009100713215924() {
    let concrete_vals: Vec<Vec<u8>> = vec![
        // 3
        vec![3],
        // 6
        vec![6],
        // 6
        vec![6],
        // 1
        vec![1],
        // 8
        vec![8],
        // 6
        vec![6],
        // 8
        vec![8],
        // 1
        vec![1],
        // 6
        vec![6],
        // 6
        vec![6],
        // 6
        vec![6],
        // 6
        vec![6],
        // 6
        vec![6],
        // 6
        vec![6],
        // 6
        vec![6],
        // 6
        vec![6],
        // 6
        vec![6],
        // 6
        vec![6],
        // 6
        vec![6],
        // 1
        vec![1],
        // 0
        vec![0],
        // 6
        vec![6],
        // 2
        vec![2],
        // 1
        vec![1],
        // 6
        vec![6],
        // 6
        vec![6],
        // 6
        vec![6],
        // 6
        vec![6],
        // 6
        vec![6],
        // 6
        vec![6],
        // 6
        vec![6],
        // 6
        vec![6],
        // 6
        vec![6],
        // 6
        vec![6],
        // 6
        vec![6],
        // 1
        vec![1],
        // 6
        vec![6],
        // 6
        vec![6],
        // 6
        vec![6],
        // 1
        vec![1],
        // 6
        vec![6],
        // 6
        vec![6],
        // 4
        vec![4],
        // 4
        vec![4],
        // 4
        vec![4],
        // 6
        vec![6],
        // 6
        vec![6],
        // 6
        vec![6],
        // 6
        vec![6],
        // 6
        vec![6],
        // 6
        vec![6],
        // 1
        vec![1],
        // 6
        vec![6],
        // 6
        vec![6],
        // 4
        vec![4],
        // 1
        vec![1],
        // 1
        vec![1],
        // 1
        vec![1],
        // 1
        vec![1],
        // 1
        vec![1],
        // 1
        vec![1],
        // 1
        vec![1],
        // 1
        vec![1],
        // 1
        vec![1],
        // 0
        vec![0],
        // 1ul
        vec![1, 0, 0, 0, 0, 0, 0, 0],
        // 4
        vec![4],
        // 0
        vec![0],
        // 0ul
        vec![0, 0, 0, 0, 0, 0, 0, 0],
    ];
    kani::concrete_playback_run(concrete_vals, vk_c18_disambiguation_minimal);
}

//@playback-end
// failing check: rust_dealloc must be called on an object whose allocated size matches its layout @ ../../../../../root/.kani/kani-0.68.0/library/kani/kani_lib.c:85 in function __rust_dealloc
// failing check: free argument must be NULL or valid pointer @ ../../../../../root/.kani/kani-0.68.0/library/kani/kani_lib.c:87 in function __rust_dealloc
// failing check: free argument must be dynamic object @ ../../../../../root/.kani/kani-0.68.0/library/kani/kani_lib.c:87 in function __rust_dealloc
// failing check: free argument has offset zero @ ../../../../../root/.kani/kani-0.68.0/library/kani/kani_lib.c:87 in function __rust_dealloc
