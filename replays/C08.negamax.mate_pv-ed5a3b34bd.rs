// REPLAY FILE written by /verif/driver/verif.py
// property: C08
// obligation: C08.negamax.mate_pv
// backend: kani
// harness: engine::search::negamax::verif_kani_c04::vk_c08_negamax_mate_pv
// contract_file: engine__search__negamax@c04.rs
// functions_under_contract: engine/search/negamax.rs::negamax
// failed: assertion failed: mate_distance(e.0) >= r.plies as i16
// repo_head: 76dd00f  (working tree may differ)
// replay with: /verif/check replay /verif/replays/C08.negamax.mate_pv-ed5a3b34bd.rs
//
// The verifier's counterexample as a concrete playback test (runs the REAL functions natively):
//@playback-begin
/// Test generated for harness `engine::search::negamax::verif_kani_c04::vk_c08_negamax_mate_pv` 
///
/// Check for `assertion`: "assertion failed: mate_distance(e.0) >= r.plies as i16"

#[test]
fn kani_concrete_playback_vk_c08_negamax_mate_pv_16009955482231940091() {
    let concrete_vals: Vec<Vec<u8>> = vec![
        // 0
        vec![0],
        // -31985
        vec![15, 131],
        // -31984
        vec![16, 131],
        // 4
        vec![4],
        // 77
        vec![77],
        // 1
        vec![1],
        // 1
        vec![1],
        // 1
        vec![1],
        // 0ul
        vec![0, 0, 0, 0, 0, 0, 0, 0],
        // 65536ul
        vec![0, 0, 1, 0, 0, 0, 0, 0],
        // 0
        vec![0],
        // 0
        vec![0],
        // 1
        vec![1],
        // 24442
        vec![122, 95],
        // 194
        vec![194],
        // 0
        vec![0],
        // 3
        vec![3],
        // 0
        vec![0],
        // 0
        vec![0],
        // 0
        vec![0],
        // 0
        vec![0],
        // 0
        vec![0],
        // 0
        vec![0],
        // 0
        vec![0],
        // 0
        vec![0],
        // -391
        vec![121, 254],
    ];
    kani::concrete_playback_run(concrete_vals, vk_c08_negamax_mate_pv);
}

//@playback-end
// failing check: assertion failed: mate_distance(e.0) >= r.plies as i16 @ src/engine/search/negamax.rs:1059:13 in function engine::search::negamax::verif_kani_c04::vk_c08_negamax_mate_pv
// failing check: assertion failed: r.pv_len_after as i16 == mate_distance(e.0) - r.plies as i16 @ src/engine/search/negamax.rs:1061:17 in function engine::search::negamax::verif_kani_c04::vk_c08_negamax_mate_pv
// failing check: "child line not cleared before the child search" @ src/engine/search/negamax.rs:598:5 in function engine::search::negamax::verif_kani_c04::negamax
