// REPLAY FILE written by /verif/driver/verif.py
// property: C18
// obligation: C18.disambiguation.minimal
// backend: kani
// harness: chess::san::san_writer::verif_kani_c18::vk_c18_disambiguation_minimal
// contract_file: chess__san__san_writer@c18.rs
// functions_under_contract: chess/san/san_writer.rs::required_ambiguity_resolution
// failed: rust_dealloc must be called on an object whose allocated size matches its layout
// repo_head: 550f3af  (working tree may differ)
// replay with: /verif/check replay /verif/replays/C18.disambiguation.minimal-a6a26cb154.rs
//
// The verifier's counterexample as a concrete playback test (runs the REAL functions natively):
//@playback-begin
/// Test generated for harness `chess::san::san_writer::verif_kani_c18::vk_c18_disambiguation_minimal` 
///
/// Check for `assertion`: "rust_dealloc must be called on an object whose allocated size matches its layout"

#[test]
fn kani_concrete_playback_vk_c18_disambiguation_minimal_18401798255956309227() {
    let concrete_vals: Vec<Vec<u8>> = vec![
        // 7
        vec![7],
        // 7
        vec![7],
        // 3
        vec![3],
        // 7
        vec![7],
        // 7
        vec![7],
        // 7
        vec![7],
        // 7
        vec![7],
        // 7
        vec![7],
        // 7
        vec![7],
        // 7
        vec![7],
        // 7
        vec![7],
        // 7
        vec![7],
        // 7
        vec![7],
        // 7
        vec![7],
        // 7
        vec![7],
        // 7
        vec![7],
        // 3
        vec![3],
        // 3
        vec![3],
        // 3
        vec![3],
        // 9
        vec![9],
        // 7
        vec![7],
        // 7
        vec![7],
        // 7
        vec![7],
        // 7
        vec![7],
        // 7
        vec![7],
        // 7
        vec![7],
        // 7
        vec![7],
        // 7
        vec![7],
        // 7
        vec![7],
        // 7
        vec![7],
        // 7
        vec![7],
        // 12
        vec![12],
        // 7
        vec![7],
        // 7
        vec![7],
        // 7
        vec![7],
        // 9
        vec![9],
        // 7
        vec![7],
        // 7
        vec![7],
        // 7
        vec![7],
        // 7
        vec![7],
        // 7
        vec![7],
        // 7
        vec![7],
        // 0
        vec![0],
        // 9
        vec![9],
        // 7
        vec![7],
        // 7
        vec![7],
        // 7
        vec![7],
        // 12
        vec![12],
        // 0
        vec![0],
        // 0
        vec![0],
        // 0
        vec![0],
        // 0
        vec![0],
        // 0
        vec![0],
        // 0
        vec![0],
        // 0
        vec![0],
        // 0
        vec![0],
        // 7
        vec![7],
        // 7
        vec![7],
        // 8
        vec![8],
        // 11
        vec![11],
        // 7
        vec![7],
        // 7
        vec![7],
        // 7
        vec![7],
        // 7
        vec![7],
        // 0
        vec![0],
        // 2ul
        vec![2, 0, 0, 0, 0, 0, 0, 0],
        // 5
        vec![5],
        // 50
        vec![50],
        // 19
        vec![19],
        // 49
        vec![49],
        // 1ul
        vec![1, 0, 0, 0, 0, 0, 0, 0],
    ];
    kani::concrete_playback_run(concrete_vals, vk_c18_disambiguation_minimal);
}

//@playback-end
// failing check: rust_dealloc must be called on an object whose allocated size matches its layout @ ../../../../../root/.kani/kani-0.68.0/library/kani/kani_lib.c:85 in function __rust_dealloc
// failing check: free argument must be NULL or valid pointer @ ../../../../../root/.kani/kani-0.68.0/library/kani/kani_lib.c:87 in function __rust_dealloc
// failing check: free argument must be dynamic object @ ../../../../../root/.kani/kani-0.68.0/library/kani/kani_lib.c:87 in function __rust_dealloc
// failing check: free argument has offset zero @ ../../../../../root/.kani/kani-0.68.0/library/kani/kani_lib.c:87 in function __rust_dealloc
