// REPLAY FILE written by /verif/driver/verif.py
// property: C14
// obligation: C14.limits.clocks
// backend: kani
// harness: engine::search::time_control::verif_kani_c14::vk_c14_limits_clocks
// contract_file: engine__search__time_control@c14.rs
// functions_under_contract: engine/search/time_control.rs::TimeStrategy::new
// failed: assertion failed: 2 * hard <= remaining - overhead
// repo_head: 76dd00f  (working tree may differ)
// replay with: /verif/check replay /verif/replays/C14.limits.clocks-7e82c52382.rs
//
// The verifier's counterexample as a concrete playback test (runs the REAL functions natively):
//@playback-begin
/// Test generated for harness `engine::search::time_control::verif_kani_c14::vk_c14_limits_clocks` 
///
/// Check for `assertion`: "assertion failed: 2 * hard <= remaining - overhead"

#[test]
fn kani_concrete_playback_vk_c14_limits_clocks_628327331461660119() {
    let concrete_vals: Vec<Vec<u8>> = vec![
        // 2147483647
        vec![255, 255, 255, 127],
        // 2147483647
        vec![255, 255, 255, 127],
        // -12769
        vec![31, 206],
        // -1
        vec![255, 255],
        // 200
        vec![200, 0],
        // 1
        vec![1],
        // 1
        vec![1],
        // 1
        vec![1],
        // 1
        vec![1],
        // 1
        vec![1],
        // 1
        vec![1],
        // 63
        vec![63],
        // 18446744073709551615ul
        vec![255, 255, 255, 255, 255, 255, 255, 255],
        // 1
        vec![1],
        // 1752261958ul
        vec![70, 101, 113, 104, 0, 0, 0, 0],
        // 1
        vec![1],
        // 99999715164159ul
        vec![255, 255, 127, 255, 242, 90, 0, 0],
        // 1
        vec![1],
        // 96750871598415ul
        vec![79, 85, 85, 145, 254, 87, 0, 0],
        // 1
        vec![1],
        // 99999991988223ul
        vec![255, 255, 255, 15, 243, 90, 0, 0],
        // 0
        vec![0],
        // 813ul
        vec![45, 3, 0, 0, 0, 0, 0, 0],
        // 876130979ul
        vec![163, 178, 56, 52, 0, 0, 0, 0],
        // 905969664ul
        vec![0, 0, 0, 54, 0, 0, 0, 0],
        // 48375435799207ul
        vec![167, 170, 170, 72, 255, 43, 0, 0],
        // 876130979ul
        vec![163, 178, 56, 52, 0, 0, 0, 0],
        // 145128823980019ul
        vec![243, 255, 255, 111, 254, 131, 0, 0],
    ];
    kani::concrete_playback_run(concrete_vals, vk_c14_limits_clocks);
}

//@playback-end
// failing check: assertion failed: 2 * hard <= remaining - overhead @ src/engine/search/time_control.rs:434:5 in function engine::search::time_control::verif_kani_c14::vk_c14_limits_clocks
