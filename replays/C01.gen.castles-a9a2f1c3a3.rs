// REPLAY FILE written by /verif/driver/verif.py
// property: C01
// obligation: C01.gen.castles
// backend: kani
// harness: chess::movegen::gen::verif_kani_c01::vk_c01_gen_castles
// contract_file: chess__movegen__gen@c01.rs
// functions_under_contract: chess/movegen/gen.rs::generate_castles, chess/movegen/gen.rs::generate_castle_move_for_side, chess/bitboard.rs::mod bitboards / fn castle_squares
// failed: "attack test on the wrong position"
// repo_head: 76dd00f  (working tree may differ)
// replay with: /verif/check replay /verif/replays/C01.gen.castles-a9a2f1c3a3.rs
//
// The verifier's counterexample as a concrete playback test (runs the REAL functions natively):
//@playback-begin
/// Test generated for harness `chess::movegen::gen::verif_kani_c01::vk_c01_gen_castles` 
///
/// Check for `assertion`: ""attack test on the wrong position""
///
/// # Warning
///
/// Concrete playback tests combined with stubs or contracts is highly
/// experimental, and subject to change.
///
/// The original harness has stubs which are not applied to this test.
/// This may cause a mismatch of non-deterministic values if the stub
/// creates any non-deterministic value.
/// The execution path may also differ, which can be used to refine the stub
/// logic.

#[test]
fn kani_concrete_playback_vk_c01_gen_castles_2469506432104525474() {
    let concrete_vals: Vec<Vec<u8>> = vec![
        // 7
        vec![7],
        // 0
        vec![0],
        // 0
        vec![0],
        // 0
        vec![0],
        // 0
        vec![0],
        // 0
        vec![0],
        // 0
        vec![0],
        // 0
        vec![0],
        // 0
        vec![0],
        // 0
        vec![0],
        // 0
        vec![0],
        // 0
        vec![0],
        // 0
        vec![0],
        // 0
        vec![0],
        // 0
        vec![0],
        // 0
        vec![0],
        // 0
        vec![0],
        // 0
        vec![0],
        // 0
        vec![0],
        // 0
        vec![0],
        // 0
        vec![0],
        // 0
        vec![0],
        // 0
        vec![0],
        // 0
        vec![0],
        // 0
        vec![0],
        // 0
        vec![0],
        // 0
        vec![0],
        // 0
        vec![0],
        // 0
        vec![0],
        // 0
        vec![0],
        // 0
        vec![0],
        // 0
        vec![0],
        // 0
        vec![0],
        // 0
        vec![0],
        // 0
        vec![0],
        // 0
        vec![0],
        // 0
        vec![0],
        // 0
        vec![0],
        // 0
        vec![0],
        // 0
        vec![0],
        // 0
        vec![0],
        // 0
        vec![0],
        // 0
        vec![0],
        // 0
        vec![0],
        // 0
        vec![0],
        // 0
        vec![0],
        // 0
        vec![0],
        // 0
        vec![0],
        // 0
        vec![0],
        // 0
        vec![0],
        // 0
        vec![0],
        // 0
        vec![0],
        // 11
        vec![11],
        // 11
        vec![11],
        // 1
        vec![1],
        // 6
        vec![6],
        // 6
        vec![6],
        // 0
        vec![0],
        // 0
        vec![0],
        // 0
        vec![0],
        // 7
        vec![7],
        // 0
        vec![0],
        // 6
        vec![6],
        // 9
        vec![9],
        // 0
        vec![0, 0, 0, 0],
        // 0
        vec![0, 0, 0, 0],
        // -19999
        vec![225, 177],
        // -1
        vec![255, 255],
        // 0
        vec![0, 0],
        // 1
        vec![1],
        // 1
        vec![1],
        // 1
        vec![1],
        // 1
        vec![1],
        // 1
        vec![1],
        // 0
        vec![0],
        // 0ul
        vec![0, 0, 0, 0, 0, 0, 0, 0],
        // 0ul
        vec![0, 0, 0, 0, 0, 0, 0, 0],
        // 0ul
        vec![0, 0, 0, 0, 0, 0, 0, 0],
        // 0ul
        vec![0, 0, 0, 0, 0, 0, 0, 0],
        // 0ul
        vec![0, 0, 0, 0, 0, 0, 0, 0],
    ];
    kani::concrete_playback_run(concrete_vals, vk_c01_gen_castles);
}

//@playback-end
// failing check: "attack test on the wrong position" @ src/chess/movegen/gen.rs:934:9 in function chess::movegen::gen::verif_kani_c01::att_expect
