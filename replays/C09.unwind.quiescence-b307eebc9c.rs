// REPLAY FILE written by /verif/driver/verif.py
// property: C09
// obligation: C09.unwind.quiescence
// backend: kani
// harness: engine::search::quiescence::verif_kani_c09::vk_c09_unwind_quiescence
// contract_file: engine__search__quiescence@c09.rs
// functions_under_contract: engine/search/quiescence.rs::quiescence
// failed: "a position was examined after the search had been told to stop"
// repo_head: 76dd00f  (working tree may differ)
// replay with: /verif/check replay /verif/replays/C09.unwind.quiescence-b307eebc9c.rs
//
// The verifier's counterexample as a concrete playback test (runs the REAL functions natively):
//@playback-begin
/// Test generated for harness `engine::search::quiescence::verif_kani_c09::vk_c09_unwind_quiescence` 
///
/// Check for `assertion`: ""a position was examined after the search had been told to stop""

#[test]
fn kani_concrete_playback_vk_c09_unwind_quiescence_16530602864073169291() {
    let concrete_vals: Vec<Vec<u8>> = vec![
        // -2
        vec![254, 255],
        // 32767
        vec![255, 127],
        // 254
        vec![254],
        // 1
        vec![1],
        // 1
        vec![1],
        // 1
        vec![1],
        // 18446744073709551615ul
        vec![255, 255, 255, 255, 255, 255, 255, 255],
        // 18446744073708551614ul
        vec![190, 189, 240, 255, 255, 255, 255, 255],
        // 255
        vec![255],
        // 255
        vec![255],
        // 1
        vec![1],
        // -1
        vec![255, 255],
        // 161
        vec![161],
        // 1
        vec![1],
        // 62
        vec![62],
        // 63
        vec![63],
        // 255
        vec![255],
        // 255
        vec![255],
        // 1
        vec![1],
    ];
    kani::concrete_playback_run(concrete_vals, vk_c09_unwind_quiescence);
}

//@playback-end
// failing check: "a position was examined after the search had been told to stop" @ src/engine/search/negamax.rs:347:9 in function engine::search::negamax::verif_kani_c04::live
