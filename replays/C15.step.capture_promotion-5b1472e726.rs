// REPLAY FILE written by /verif/driver/verif.py
// property: C15
// obligation: C15.step.capture_promotion
// backend: kani
// harness: chess::game::verif_kani_c02::vk_c15_step_cap_promo
// contract_file: chess__game@c02.rs
// functions_under_contract: chess/game.rs::Game::make_move
// failed: assertion failed: g.incremental_eval.phase_value - pre.incremental_eval.phase_value == dph
// repo_head: 76dd00f  (working tree may differ)
// replay with: /verif/check replay /verif/replays/C15.step.capture_promotion-5b1472e726.rs
//
// The verifier's counterexample as a concrete playback test (runs the REAL functions natively):
//@playback-begin
/// Test generated for harness `chess::game::verif_kani_c02::vk_c15_step_cap_promo` 
///
/// Check for `assertion`: "assertion failed: g.incremental_eval.phase_value - pre.incremental_eval.phase_value == dph"
///
/// # Warning
///
/// Concrete playback tests combined with stubs or contracts is highly
/// experimental, and subject to change.
///
/// The original harness has stubs which are not applied to this test.
/// This may cause a mismatch of non-deterministic values if the stub
/// creates any non-deterministic value.
/// The execution path may also differ, which can be used to refine the stub
/// logic.

#[test]
fn kani_concrete_playback_vk_c15_step_cap_promo_17943182310264730484() {
    let concrete_vals: Vec<Vec<u8>> = vec![
        // 4
        vec![4],
        // 1
        vec![1],
        // 0
        vec![0],
        // 11
        vec![11],
        // 1
        vec![1],
        // 2
        vec![2],
        // 1
        vec![1],
        // 2
        vec![2],
        // 2
        vec![2],
        // 1
        vec![1],
        // 2
        vec![2],
        // 2
        vec![2],
        // 2
        vec![2],
        // 7
        vec![7],
        // 7
        vec![7],
        // 7
        vec![7],
        // 7
        vec![7],
        // 7
        vec![7],
        // 7
        vec![7],
        // 7
        vec![7],
        // 7
        vec![7],
        // 1
        vec![1],
        // 8
        vec![8],
        // 0
        vec![0],
        // 11
        vec![11],
        // 7
        vec![7],
        // 8
        vec![8],
        // 7
        vec![7],
        // 7
        vec![7],
        // 7
        vec![7],
        // 1
        vec![1],
        // 0
        vec![0],
        // 0
        vec![0],
        // 0
        vec![0],
        // 0
        vec![0],
        // 0
        vec![0],
        // 0
        vec![0],
        // 0
        vec![0],
        // 0
        vec![0],
        // 0
        vec![0],
        // 0
        vec![0],
        // 0
        vec![0],
        // 0
        vec![0],
        // 0
        vec![0],
        // 0
        vec![0],
        // 9
        vec![9],
        // 0
        vec![0],
        // 7
        vec![7],
        // 7
        vec![7],
        // 7
        vec![7],
        // 7
        vec![7],
        // 7
        vec![7],
        // 7
        vec![7],
        // 7
        vec![7],
        // 7
        vec![7],
        // 7
        vec![7],
        // 7
        vec![7],
        // 7
        vec![7],
        // 7
        vec![7],
        // 7
        vec![7],
        // 7
        vec![7],
        // 10
        vec![10],
        // 1
        vec![1],
        // 1
        vec![1],
        // 1
        vec![1],
        // 0
        vec![0],
        // 1
        vec![1],
        // 0
        vec![0],
        // 0
        vec![0],
        // 65537
        vec![1, 0, 1, 0],
        // 2130771969
        vec![1, 0, 1, 127],
        // 0
        vec![0, 0],
        // -8192
        vec![0, 224],
        // 24
        vec![24, 0],
        // 0
        vec![0],
        // 0
        vec![0],
        // 0
        vec![0],
        // 0
        vec![0],
        // 0
        vec![0],
        // 0
        vec![0],
        // 18375248338686705409ul
        vec![1, 255, 1, 255, 1, 255, 1, 255],
        // 11
        vec![11],
        // 2
        vec![2],
        // 254
        vec![254],
    ];
    kani::concrete_playback_run(concrete_vals, vk_c15_step_cap_promo);
}

//@playback-end
// failing check: assertion failed: g.incremental_eval.phase_value - pre.incremental_eval.phase_value == dph @ src/chess/game.rs:779:9 in function chess::game::verif_kani_c02::check_make_undo
