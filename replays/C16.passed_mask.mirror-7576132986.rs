// REPLAY FILE written by /verif/driver/verif.py
// property: C16
// obligation: C16.passed_mask.mirror
// backend: kani
// harness: engine::eval::pawn_structure::verif_kani_c16::vk_c16_passed_mask_mirror
// contract_file: engine__eval__pawn_structure@c16.rs
// functions_under_contract: engine/eval/pawn_structure.rs::generate_passed_pawn_mask
// failed: assertion failed: b == w.flip_vertically()
// repo_head: 550f3af  (working tree may differ)
// replay with: /verif/check replay /verif/replays/C16.passed_mask.mirror-7576132986.rs
//
// The verifier's counterexample as a concrete playback test (runs the REAL functions natively):
//@playback-begin
/// Test generated for harness `engine::eval::pawn_structure::verif_kani_c16::vk_c16_passed_mask_mirror` 
///
/// Check for `assertion`: "assertion failed: b == w.flip_vertically()"

#[test]
fn kani_concrete_playback_vk_c16_passed_mask_mirror_14492577238922438544() {
    let concrete_vals: Vec<Vec<u8>> = vec![
        // 8
        vec![8],
    ];
    kani::concrete_playback_run(concrete_vals, vk_c16_passed_mask_mirror);
}

//@playback-end
// failing check: assertion failed: b == w.flip_vertically() @ src/engine/eval/pawn_structure.rs:251:5 in function engine::eval::pawn_structure::verif_kani_c16::vk_c16_passed_mask_mirror
