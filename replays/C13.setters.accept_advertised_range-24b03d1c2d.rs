// REPLAY FILE written by /verif/driver/verif.py
// property: C13
// obligation: C13.setters.accept_advertised_range
// backend: kani
// harness: engine::uci::options::verif_kani_c13::vk_c13_setters_accept_advertised_range
// contract_file: engine__uci__options@c13.rs
// functions_under_contract: engine/uci/options.rs::HashOption::set, engine/uci/options.rs::ThreadsOption::set, engine/uci/options.rs::MoveOverheadOption::set
// failed: assertion failed: r == Ok(v) && options.hash_size == v
// repo_head: 550f3af  (working tree may differ)
// replay with: /verif/check replay /verif/replays/C13.setters.accept_advertised_range-24b03d1c2d.rs
//
// The verifier's counterexample as a concrete playback test (runs the REAL functions natively):
//@playback-begin
/// Test generated for harness `engine::uci::options::verif_kani_c13::vk_c13_setters_accept_advertised_range` 
///
/// Check for `assertion`: "assertion failed: r == Ok(v) && options.hash_size == v"
///
/// # Warning
///
/// Concrete playback tests combined with stubs or contracts is highly
/// experimental, and subject to change.
///
/// The original harness has stubs which are not applied to this test.
/// This may cause a mismatch of non-deterministic values if the stub
/// creates any non-deterministic value.
/// The execution path may also differ, which can be used to refine the stub
/// logic.

#[test]
fn kani_concrete_playback_vk_c13_setters_accept_advertised_range_1220863960684509138() {
    let concrete_vals: Vec<Vec<u8>> = vec![
        // 4ul
        vec![4, 0, 0, 0, 0, 0, 0, 0],
        // 1
        vec![1],
        // 0
        vec![0],
        // 2
        vec![2],
        // 4
        vec![4],
        // 0
        vec![0],
    ];
    kani::concrete_playback_run(concrete_vals, vk_c13_setters_accept_advertised_range);
}

//@playback-end
// failing check: assertion failed: r == Ok(v) && options.hash_size == v @ src/engine/uci/options.rs:179:13 in function engine::uci::options::verif_kani_c13::vk_c13_setters_accept_advertised_range
