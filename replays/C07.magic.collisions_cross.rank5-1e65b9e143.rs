// REPLAY FILE written by /verif/driver/verif.py
// property: C07
// obligation: C07.magic.collisions_cross.rank5
// backend: kani
// harness: chess::movegen::tables::magics::verif_kani_c07::vk_c07_coll_cross_r4
// contract_file: chess__movegen__tables__magics@c07.rs
// functions_under_contract: chess/movegen/tables/magics.rs::table_index_rook, chess/movegen/tables/magics.rs::table_index_bishop
// failed: assertion failed: i1 != i2 || w1 == w2
// repo_head: 76dd00f  (working tree may differ)
// replay with: /verif/check replay /verif/replays/C07.magic.collisions_cross.rank5-1e65b9e143.rs
//
// The verifier's counterexample as a concrete playback test (runs the REAL functions natively):
//@playback-begin
/// Test generated for harness `chess::movegen::tables::magics::verif_kani_c07::vk_c07_coll_cross_r4` 
///
/// Check for `assertion`: "assertion failed: i1 != i2 || w1 == w2"

#[test]
fn kani_concrete_playback_vk_c07_coll_cross_r4_9634824428992250519() {
    let concrete_vals: Vec<Vec<u8>> = vec![
        // 36
        vec![36],
        // 60
        vec![60],
        // 0
        vec![0],
        // 1
        vec![1],
        // 18359256641606950082ul
        vec![194, 156, 54, 223, 164, 46, 201, 254],
        // 11427494912805690304ul
        vec![192, 219, 93, 230, 19, 158, 150, 158],
    ];
    kani::concrete_playback_run(concrete_vals, vk_c07_coll_cross_r4);
}

//@playback-end
// failing check: assertion failed: i1 != i2 || w1 == w2 @ src/chess/movegen/tables/magics.rs:461:5 in function chess::movegen::tables::magics::verif_kani_c07::collisions
