// REPLAY FILE written by /verif/driver/verif.py
// property: C02
// obligation: C02.make_undo.promotion
// backend: kani
// harness: chess::game::verif_kani_c02::vk_c02_make_undo_promo
// contract_file: chess__game@c02.rs
// functions_under_contract: chess/game.rs::Game::make_move, chess/game.rs::Game::undo_move
// failed: assertion failed: g.halfmove_clock == if c.is_capture_or_pawn { 0 } else
{ pre.halfmove_clock + 1 }
// repo_head: 76dd00f  (working tree may differ)
// replay with: /verif/check replay /verif/replays/C02.make_undo.promotion-8003ba49bc.rs
//
// no-failing-input-found: the verifier gives no model for this obligation; its output follows
// | 0
// |         vec![0],
// |         // 0
// |         vec![0],
// |         // 0
// |         vec![0],
// |         // 0
// |         vec![0],
// |         // 0
// |         vec![0],
// |         // 0
// |         vec![0],
// |         // 0
// |         vec![0],
// |         // 0
// |         vec![0],
// |         // 1
// |         vec![1],
// |         // 0
// |         vec![0],
// |         // 0
// |         vec![0],
// |         // 0
// |         vec![0],
// |         // 0
// |         vec![0],
// |         // 0
// |         vec![0],
// |         // 0
// |         vec![0],
// |         // 0
// |         vec![0],
// |         // 0
// |         vec![0],
// |         // 2147483647
// |         vec![255, 255, 255, 127],
// |         // 2147483647
// |         vec![255, 255, 255, 127],
// |         // -1
// |         vec![255, 255],
// |         // -1
// |         vec![255, 255],
// |         // 127
// |         vec![127, 0],
// |         // 1
// |         vec![1],
// |         // 0
// |         vec![0],
// |         // 0
// |         vec![0],
// |         // 0
// |         vec![0],
// |         // 0
// |         vec![0],
// |         // 1
// |         vec![1],
// |         // 63
// |         vec![63],
// |         // 18446744073709551615ul
// |         vec![255, 255, 255, 255, 255, 255, 255, 255],
// |         // 55
// |         vec![55],
// |         // 63
// |         vec![63],
// |         // 255
// |         vec![255],
// |     ];
// |     kani::concrete_playback_run(concrete_vals, vk_c02_make_undo_promo);
// | }
// | ```
// | INFO: To automatically add the concrete playback unit test(s) to the src code, run Kani with `--concrete-playback=inplace`.
// | Manual Harness Summary:
// | Verification failed for - chess::game::verif_kani_c02::vk_c02_make_undo_promo
// | Complete - 0 successfully verified harnesses, 1 failures, 1 total.
// | 
