// REPLAY FILE written by /verif/driver/verif.py
// property: C15
// obligation: C15.step.castle_kingside
// backend: kani
// harness: chess::game::verif_kani_c02::vk_c15_step_castle_k
// contract_file: chess__game@c02.rs
// functions_under_contract: chess/game.rs::Game::make_move
// failed: assertion failed: g.incremental_eval.phase_value - pre.incremental_eval.phase_value == dph
// repo_head: 76dd00f  (working tree may differ)
// replay with: /verif/check replay /verif/replays/C15.step.castle_kingside-7c293ed7af.rs
//
// The verifier's counterexample as a concrete playback test (runs the REAL functions natively):
//@playback-begin
/// Test generated for harness `chess::game::verif_kani_c02::vk_c15_step_castle_k` 
///
/// Check for `assertion`: "assertion failed: g.incremental_eval.phase_value - pre.incremental_eval.phase_value == dph"
///
/// # Warning
///
/// Concrete playback tests combined with stubs or contracts is highly
/// experimental, and subject to change.
///
/// The original harness has stubs which are not applied to this test.
/// This may cause a mismatch of non-deterministic values if the stub
/// creates any non-deterministic value.
/// The execution path may also differ, which can be used to refine the stub
/// logic.

#[test]
fn kani_concrete_playback_vk_c15_step_castle_k_11255697903170706723() {
    let concrete_vals: Vec<Vec<u8>> = vec![
        // 4
        vec![4],
        // 1
        vec![1],
        // 3
        vec![3],
        // 63
        vec![63],
        // 1
        vec![1],
        // 0
        vec![0],
        // 0
        vec![0],
        // 0
        vec![0],
        // 0
        vec![0],
        // 12
        vec![12],
        // 10
        vec![10],
        // 0
        vec![0],
        // 0
        vec![0],
        // 3
        vec![3],
        // 3
        vec![3],
        // 3
        vec![3],
        // 3
        vec![3],
        // 3
        vec![3],
        // 3
        vec![3],
        // 3
        vec![3],
        // 3
        vec![3],
        // 3
        vec![3],
        // 3
        vec![3],
        // 3
        vec![3],
        // 3
        vec![3],
        // 3
        vec![3],
        // 3
        vec![3],
        // 3
        vec![3],
        // 3
        vec![3],
        // 3
        vec![3],
        // 4
        vec![4],
        // 3
        vec![3],
        // 4
        vec![4],
        // 3
        vec![3],
        // 3
        vec![3],
        // 3
        vec![3],
        // 3
        vec![3],
        // 3
        vec![3],
        // 4
        vec![4],
        // 4
        vec![4],
        // 4
        vec![4],
        // 4
        vec![4],
        // 3
        vec![3],
        // 3
        vec![3],
        // 3
        vec![3],
        // 3
        vec![3],
        // 4
        vec![4],
        // 4
        vec![4],
        // 4
        vec![4],
        // 4
        vec![4],
        // 3
        vec![3],
        // 0
        vec![0],
        // 0
        vec![0],
        // 0
        vec![0],
        // 0
        vec![0],
        // 0
        vec![0],
        // 0
        vec![0],
        // 0
        vec![0],
        // 0
        vec![0],
        // 0
        vec![0],
        // 0
        vec![0],
        // 0
        vec![0],
        // 0
        vec![0],
        // 3
        vec![3],
        // 3
        vec![3],
        // 12
        vec![12],
        // 0
        vec![0],
        // 0
        vec![0],
        // 10
        vec![10],
        // 33620481
        vec![1, 2, 1, 2],
        // 2130772481
        vec![1, 2, 1, 127],
        // 0
        vec![0, 0],
        // -19969
        vec![255, 177],
        // 128
        vec![128, 0],
        // 0
        vec![0],
        // 0
        vec![0],
        // 0
        vec![0],
        // 1
        vec![1],
        // 0
        vec![0],
        // 0
        vec![0],
        // 18375248338686705409ul
        vec![1, 255, 1, 255, 1, 255, 1, 255],
        // 60
        vec![60],
        // 62
        vec![62],
    ];
    kani::concrete_playback_run(concrete_vals, vk_c15_step_castle_k);
}

//@playback-end
// failing check: assertion failed: g.incremental_eval.phase_value - pre.incremental_eval.phase_value == dph @ src/chess/game.rs:779:9 in function chess::game::verif_kani_c02::check_make_undo
