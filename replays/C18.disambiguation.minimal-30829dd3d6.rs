// REPLAY FILE written by /verif/driver/verif.py
// property: C18
// obligation: C18.disambiguation.minimal
// backend: kani
// harness: chess::san::san_writer::verif_kani_c18::vk_c18_disambiguation_minimal
// contract_file: chess__san__san_writer@c18.rs
// functions_under_contract: chess/san/san_writer.rs::required_ambiguity_resolution
// failed: rust_dealloc must be called on an object whose allocated size matches its layout
// repo_head: 550f3af  (working tree may differ)
// replay with: /verif/check replay /verif/replays/C18.disambiguation.minimal-30829dd3d6.rs
//
// The verifier's counterexample as a concrete playback test (runs the REAL functions natively):
//@playback-begin
/// Test generated for harness `chess::san::san_writer::verif_kani_c18::vk_c18_disambiguation_minimal` 
///
/// Check for `assertion`: "rust_dealloc must be called on an object whose allocated size matches its layout"
///
/// # Warning
///
/// Concrete playback tests combined with stubs or contracts is highly
/// experimental, and subject to change.
///
/// The original harness has stubs which are not applied to this test.
/// This may cause a mismatch of non-deterministic values if the stub
/// creates any non-deterministic value.
/// The execution path may also differ, which can be used to refine the stub
/// logic.

#[test]
fn kani_concrete_playback_vk_c18_disambiguation_minimal_9143132717257726713() {
    let concrete_vals: Vec<Vec<u8>> = vec![
        // 0
        vec![0],
        // 1
        vec![1],
        // 12
        vec![12],
        // 1
        vec![1],
        // 1
        vec![1],
        // 6
        vec![6],
        // 1
        vec![1],
        // 3
        vec![3],
        // 1
        vec![1],
        // 3
        vec![3],
        // 8
        vec![8],
        // 7
        vec![7],
        // 7
        vec![7],
        // 7
        vec![7],
        // 7
        vec![7],
        // 7
        vec![7],
        // 7
        vec![7],
        // 7
        vec![7],
        // 8
        vec![8],
        // 7
        vec![7],
        // 7
        vec![7],
        // 7
        vec![7],
        // 7
        vec![7],
        // 7
        vec![7],
        // 7
        vec![7],
        // 7
        vec![7],
        // 8
        vec![8],
        // 7
        vec![7],
        // 7
        vec![7],
        // 7
        vec![7],
        // 7
        vec![7],
        // 7
        vec![7],
        // 8
        vec![8],
        // 7
        vec![7],
        // 8
        vec![8],
        // 8
        vec![8],
        // 7
        vec![7],
        // 7
        vec![7],
        // 7
        vec![7],
        // 7
        vec![7],
        // 7
        vec![7],
        // 7
        vec![7],
        // 8
        vec![8],
        // 7
        vec![7],
        // 7
        vec![7],
        // 7
        vec![7],
        // 7
        vec![7],
        // 7
        vec![7],
        // 8
        vec![8],
        // 7
        vec![7],
        // 8
        vec![8],
        // 7
        vec![7],
        // 11
        vec![11],
        // 7
        vec![7],
        // 8
        vec![8],
        // 8
        vec![8],
        // 11
        vec![11],
        // 7
        vec![7],
        // 11
        vec![11],
        // 7
        vec![7],
        // 7
        vec![7],
        // 0
        vec![0],
        // 11
        vec![11],
        // 7
        vec![7],
        // 0
        vec![0, 0, 0, 0],
        // 0
        vec![0, 0, 0, 0],
        // 0
        vec![0, 0],
        // 0
        vec![0, 0],
        // 0
        vec![0, 0],
        // 0
        vec![0],
        // 0
        vec![0],
        // 0
        vec![0],
        // 0
        vec![0],
        // 0
        vec![0],
        // 0
        vec![0],
        // 0ul
        vec![0, 0, 0, 0, 0, 0, 0, 0],
        // 1ul
        vec![1, 0, 0, 0, 0, 0, 0, 0],
        // 56
        vec![56],
        // 0
        vec![0],
        // 0ul
        vec![0, 0, 0, 0, 0, 0, 0, 0],
    ];
    kani::concrete_playback_run(concrete_vals, vk_c18_disambiguation_minimal);
}

//@playback-end
// failing check: rust_dealloc must be called on an object whose allocated size matches its layout @ ../../../../../root/.kani/kani-0.68.0/library/kani/kani_lib.c:85 in function __rust_dealloc
// failing check: free argument must be NULL or valid pointer @ ../../../../../root/.kani/kani-0.68.0/library/kani/kani_lib.c:87 in function __rust_dealloc
// failing check: free argument must be dynamic object @ ../../../../../root/.kani/kani-0.68.0/library/kani/kani_lib.c:87 in function __rust_dealloc
// failing check: free argument has offset zero @ ../../../../../root/.kani/kani-0.68.0/library/kani/kani_lib.c:87 in function __rust_dealloc
