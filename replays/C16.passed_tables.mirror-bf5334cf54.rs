// REPLAY FILE written by /verif/driver/verif.py
// property: C16
// obligation: C16.passed_tables.mirror
// backend: kani
// harness: engine::eval::pawn_structure::verif_kani_c16::vk_c16_passed_tables_mirror
// contract_file: engine__eval__pawn_structure@c16.rs
// functions_under_contract: engine/eval/pawn_structure.rs::init, engine/eval/pawn_structure.rs::enemy_passed_pawn_mask, engine/eval/pawn_structure.rs::pst_value, engine/eval/pawn_structure.rs::white_pst, engine/eval/pawn_structure.rs::black_pst
// failed: assertion failed: enemy_passed_pawn_mask(Player::Black, flip_sq(s)) ==
enemy_passed_pawn_mask(Player::White, s).flip_vertically()
// repo_head: 76dd00f  (working tree may differ)
// replay with: /verif/check replay /verif/replays/C16.passed_tables.mirror-bf5334cf54.rs
//
// The verifier's counterexample as a concrete playback test (runs the REAL functions natively):
//@playback-begin
/// Test generated for harness `engine::eval::pawn_structure::verif_kani_c16::vk_c16_passed_tables_mirror` 
///
/// Check for `assertion`: "assertion failed: enemy_passed_pawn_mask(Player::Black, flip_sq(s)) ==
enemy_passed_pawn_mask(Player::White, s).flip_vertically()"

#[test]
fn kani_concrete_playback_vk_c16_passed_tables_mirror_8357194005767653184() {
    let concrete_vals: Vec<Vec<u8>> = vec![
        // 63
        vec![63],
    ];
    kani::concrete_playback_run(concrete_vals, vk_c16_passed_tables_mirror);
}

//@playback-end
// failing check: assertion failed: enemy_passed_pawn_mask(Player::Black, flip_sq(s)) ==
enemy_passed_pawn_mask(Player::White, s).flip_vertically() @ src/engine/eval/pawn_structure.rs:266:5 in function engine::eval::pawn_structure::verif_kani_c16::vk_c16_passed_tables_mirror
