// REPLAY FILE written by /verif/driver/verif.py
// property: C18
// obligation: C18.disambiguation.minimal
// backend: kani
// harness: chess::san::san_writer::verif_kani_c18::vk_c18_disambiguation_minimal
// contract_file: chess__san__san_writer@c18.rs
// functions_under_contract: chess/san/san_writer.rs::required_ambiguity_resolution
// failed: assertion failed: got == want
// repo_head: 550f3af  (working tree may differ)
// replay with: /verif/check replay /verif/replays/C18.disambiguation.minimal-2dfead7cc8.rs
//
// The verifier's counterexample as a concrete playback test (runs the REAL functions natively):
//@playback-begin
/// Test generated for harness `chess::san::san_writer::verif_kani_c18::vk_c18_disambiguation_minimal` 
///
/// Check for `assertion`: "assertion failed: got == want"
///
/// # Warning
///
/// Concrete playback tests combined with stubs or contracts is highly
/// experimental, and subject to change.
///
/// The original harness has stubs which are not applied to this test.
/// This may cause a mismatch of non-deterministic values if the stub
/// creates any non-deterministic value.
/// The execution path may also differ, which can be used to refine the stub
/// logic.

#[test]
fn kani_concrete_playback_vk_c18_disambiguation_minimal_7358448607010686139() {
    let concrete_vals: Vec<Vec<u8>> = vec![
        // 8
        vec![8],
        // 8
        vec![8],
        // 8
        vec![8],
        // 8
        vec![8],
        // 8
        vec![8],
        // 8
        vec![8],
        // 8
        vec![8],
        // 8
        vec![8],
        // 8
        vec![8],
        // 8
        vec![8],
        // 8
        vec![8],
        // 8
        vec![8],
        // 8
        vec![8],
        // 8
        vec![8],
        // 8
        vec![8],
        // 8
        vec![8],
        // 8
        vec![8],
        // 8
        vec![8],
        // 8
        vec![8],
        // 8
        vec![8],
        // 8
        vec![8],
        // 8
        vec![8],
        // 8
        vec![8],
        // 8
        vec![8],
        // 0
        vec![0],
        // 8
        vec![8],
        // 8
        vec![8],
        // 8
        vec![8],
        // 8
        vec![8],
        // 8
        vec![8],
        // 8
        vec![8],
        // 8
        vec![8],
        // 8
        vec![8],
        // 8
        vec![8],
        // 8
        vec![8],
        // 8
        vec![8],
        // 8
        vec![8],
        // 8
        vec![8],
        // 8
        vec![8],
        // 8
        vec![8],
        // 8
        vec![8],
        // 8
        vec![8],
        // 8
        vec![8],
        // 8
        vec![8],
        // 8
        vec![8],
        // 8
        vec![8],
        // 8
        vec![8],
        // 8
        vec![8],
        // 8
        vec![8],
        // 8
        vec![8],
        // 8
        vec![8],
        // 8
        vec![8],
        // 8
        vec![8],
        // 8
        vec![8],
        // 8
        vec![8],
        // 8
        vec![8],
        // 8
        vec![8],
        // 8
        vec![8],
        // 8
        vec![8],
        // 8
        vec![8],
        // 8
        vec![8],
        // 8
        vec![8],
        // 8
        vec![8],
        // 8
        vec![8],
        // 0
        vec![0],
        // 1ul
        vec![1, 0, 0, 0, 0, 0, 0, 0],
        // 31
        vec![31],
        // 24
        vec![24],
        // 0ul
        vec![0, 0, 0, 0, 0, 0, 0, 0],
    ];
    kani::concrete_playback_run(concrete_vals, vk_c18_disambiguation_minimal);
}

//@playback-end
// failing check: assertion failed: got == want @ src/chess/san/san_writer.rs:436:5 in function chess::san::san_writer::verif_kani_c18::vk_c18_disambiguation_minimal
