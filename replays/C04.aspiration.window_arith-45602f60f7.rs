// REPLAY FILE written by /verif/driver/verif.py
// property: C04
// obligation: C04.aspiration.window_arith
// backend: kani
// harness: engine::search::aspiration::verif_kani_c04::vk_c04_aspiration_window_arith
// contract_file: engine__search__aspiration@c04.rs
// functions_under_contract: engine/search/aspiration.rs::aspiration_search, engine/search/aspiration.rs::Window::around, engine/search/aspiration.rs::Window::widen_up, engine/search/aspiration.rs::Window::widen_down, engine/search/aspiration.rs::Window::increase_window_widening_rate, engine/search/aspiration.rs::clamp_alpha, engine/search/aspiration.rs::clamp_beta
// failed: attempt to add with overflow
// repo_head: 76dd00f  (working tree may differ)
// replay with: /verif/check replay /verif/replays/C04.aspiration.window_arith-45602f60f7.rs
//
// The verifier's counterexample as a concrete playback test (runs the REAL functions natively):
//@playback-begin
/// Test generated for harness `engine::search::aspiration::verif_kani_c04::vk_c04_aspiration_window_arith` 
///
/// Check for `assertion`: "attempt to add with overflow"

#[test]
fn kani_concrete_playback_vk_c04_aspiration_window_arith_5708328990835911126() {
    let concrete_vals: Vec<Vec<u8>> = vec![
        // 5
        vec![5],
        // 1
        vec![1],
        // -20658
        vec![78, 175],
        // 0
        vec![0],
        // -16385
        vec![255, 191],
        // 0
        vec![0],
        // -20683
        vec![53, 175],
    ];
    kani::concrete_playback_run(concrete_vals, vk_c04_aspiration_window_arith);
}

//@playback-end
// failing check: attempt to add with overflow @ src/engine/eval/player_eval.rs:107:14 in function <engine::eval::player_eval::Eval as std::ops::Add>::add
