// REPLAY FILE written by /verif/driver/verif.py
// property: C18
// obligation: C18.disambiguation.minimal
// backend: kani
// harness: chess::san::san_writer::verif_kani_c18::vk_c18_disambiguation_minimal
// contract_file: chess__san__san_writer@c18.rs
// functions_under_contract: chess/san/san_writer.rs::required_ambiguity_resolution
// failed: assertion failed: got == want
// repo_head: 550f3af  (working tree may differ)
// replay with: /verif/check replay /verif/replays/C18.disambiguation.minimal-385ea8528a.rs
//
// The verifier's counterexample as a concrete playback test (runs the REAL functions natively):
//@playback-begin
/// Test generated for harness `chess::san::san_writer::verif_kani_c18::vk_c18_disambiguation_minimal` 
///
/// Check for `assertion`: "assertion failed: got == want"
///
/// # Warning
///
/// Concrete playback tests combined with stubs or contracts is highly
/// experimental, and subject to change.
///
/// The original harness has stubs which are not applied to this test.
/// This may cause a mismatch of non-deterministic values if the stub
/// creates any non-deterministic value.
/// The execution path may also differ, which can be used to refine the stub
/// logic.

#[test]
fn kani_concrete_playback_vk_c18_disambiguation_minimal_16318177979360182936() {
    let concrete_vals: Vec<Vec<u8>> = vec![
        // 11
        vec![11],
        // 7
        vec![7],
        // 1
        vec![1],
        // 1
        vec![1],
        // 1
        vec![1],
        // 11
        vec![11],
        // 1
        vec![1],
        // 1
        vec![1],
        // 1
        vec![1],
        // 1
        vec![1],
        // 1
        vec![1],
        // 1
        vec![1],
        // 1
        vec![1],
        // 1
        vec![1],
        // 1
        vec![1],
        // 1
        vec![1],
        // 4
        vec![4],
        // 11
        vec![11],
        // 11
        vec![11],
        // 11
        vec![11],
        // 1
        vec![1],
        // 1
        vec![1],
        // 1
        vec![1],
        // 0
        vec![0],
        // 11
        vec![11],
        // 1
        vec![1],
        // 0
        vec![0],
        // 8
        vec![8],
        // 1
        vec![1],
        // 1
        vec![1],
        // 1
        vec![1],
        // 4
        vec![4],
        // 7
        vec![7],
        // 6
        vec![6],
        // 0
        vec![0],
        // 0
        vec![0],
        // 0
        vec![0],
        // 6
        vec![6],
        // 11
        vec![11],
        // 11
        vec![11],
        // 0
        vec![0],
        // 6
        vec![6],
        // 0
        vec![0],
        // 6
        vec![6],
        // 6
        vec![6],
        // 6
        vec![6],
        // 11
        vec![11],
        // 4
        vec![4],
        // 6
        vec![6],
        // 0
        vec![0],
        // 6
        vec![6],
        // 0
        vec![0],
        // 6
        vec![6],
        // 6
        vec![6],
        // 0
        vec![0],
        // 1
        vec![1],
        // 6
        vec![6],
        // 6
        vec![6],
        // 6
        vec![6],
        // 1
        vec![1],
        // 0
        vec![0],
        // 6
        vec![6],
        // 1
        vec![1],
        // 0
        vec![0],
        // 0
        vec![0, 0, 0, 0],
        // 0
        vec![0, 0, 0, 0],
        // 0
        vec![0, 0],
        // 0
        vec![0, 0],
        // 0
        vec![0, 0],
        // 0
        vec![0],
        // 0
        vec![0],
        // 0
        vec![0],
        // 0
        vec![0],
        // 0
        vec![0],
        // 0
        vec![0],
        // 0ul
        vec![0, 0, 0, 0, 0, 0, 0, 0],
        // 5ul
        vec![5, 0, 0, 0, 0, 0, 0, 0],
        // 32
        vec![32],
        // 33
        vec![33],
        // 0
        vec![0],
        // 16
        vec![16],
        // 32
        vec![32],
        // 36
        vec![36],
        // 0
        vec![0],
        // 63
        vec![63],
        // 5
        vec![5],
        // 33
        vec![33],
        // 4ul
        vec![4, 0, 0, 0, 0, 0, 0, 0],
    ];
    kani::concrete_playback_run(concrete_vals, vk_c18_disambiguation_minimal);
}

//@playback-end
// failing check: assertion failed: got == want @ src/chess/san/san_writer.rs:392:5 in function chess::san::san_writer::verif_kani_c18::vk_c18_disambiguation_minimal
