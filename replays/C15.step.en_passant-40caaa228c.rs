// REPLAY FILE written by /verif/driver/verif.py
// property: C15
// obligation: C15.step.en_passant
// backend: kani
// harness: chess::game::verif_kani_c02::vk_c15_step_en_passant
// contract_file: chess__game@c02.rs
// functions_under_contract: chess/game.rs::Game::make_move
// failed: assertion failed: g.incremental_eval.phase_value - pre.incremental_eval.phase_value == dph
// repo_head: 76dd00f  (working tree may differ)
// replay with: /verif/check replay /verif/replays/C15.step.en_passant-40caaa228c.rs
//
// The verifier's counterexample as a concrete playback test (runs the REAL functions natively):
//@playback-begin
/// Test generated for harness `chess::game::verif_kani_c02::vk_c15_step_en_passant` 
///
/// Check for `assertion`: "assertion failed: g.incremental_eval.phase_value - pre.incremental_eval.phase_value == dph"
///
/// # Warning
///
/// Concrete playback tests combined with stubs or contracts is highly
/// experimental, and subject to change.
///
/// The original harness has stubs which are not applied to this test.
/// This may cause a mismatch of non-deterministic values if the stub
/// creates any non-deterministic value.
/// The execution path may also differ, which can be used to refine the stub
/// logic.

#[test]
fn kani_concrete_playback_vk_c15_step_en_passant_11417227189142960727() {
    let concrete_vals: Vec<Vec<u8>> = vec![
        // 4
        vec![4],
        // 0
        vec![0],
        // 0
        vec![0],
        // 37
        vec![37],
        // 1
        vec![1],
        // 7
        vec![7],
        // 1
        vec![1],
        // 1
        vec![1],
        // 1
        vec![1],
        // 7
        vec![7],
        // 7
        vec![7],
        // 7
        vec![7],
        // 7
        vec![7],
        // 0
        vec![0],
        // 7
        vec![7],
        // 7
        vec![7],
        // 7
        vec![7],
        // 7
        vec![7],
        // 7
        vec![7],
        // 7
        vec![7],
        // 7
        vec![7],
        // 0
        vec![0],
        // 0
        vec![0],
        // 1
        vec![1],
        // 7
        vec![7],
        // 0
        vec![0],
        // 7
        vec![7],
        // 0
        vec![0],
        // 0
        vec![0],
        // 1
        vec![1],
        // 1
        vec![1],
        // 1
        vec![1],
        // 1
        vec![1],
        // 1
        vec![1],
        // 1
        vec![1],
        // 7
        vec![7],
        // 1
        vec![1],
        // 1
        vec![1],
        // 8
        vec![8],
        // 1
        vec![1],
        // 1
        vec![1],
        // 7
        vec![7],
        // 1
        vec![1],
        // 7
        vec![7],
        // 1
        vec![1],
        // 7
        vec![7],
        // 7
        vec![7],
        // 7
        vec![7],
        // 7
        vec![7],
        // 0
        vec![0],
        // 7
        vec![7],
        // 0
        vec![0],
        // 0
        vec![0],
        // 7
        vec![7],
        // 7
        vec![7],
        // 7
        vec![7],
        // 7
        vec![7],
        // 7
        vec![7],
        // 7
        vec![7],
        // 7
        vec![7],
        // 0
        vec![0],
        // 1
        vec![1],
        // 7
        vec![7],
        // 7
        vec![7],
        // 7
        vec![7],
        // 7
        vec![7],
        // 7
        vec![7],
        // 7
        vec![7],
        // 7
        vec![7],
        // 16908546
        vec![2, 1, 2, 1],
        // 2130837762
        vec![2, 1, 2, 127],
        // 0
        vec![0, 0],
        // -18432
        vec![0, 184],
        // 200
        vec![200, 0],
        // 1
        vec![1],
        // 0
        vec![0],
        // 0
        vec![0],
        // 0
        vec![0],
        // 0
        vec![0],
        // 1
        vec![1],
        // 44
        vec![44],
        // 18375529817958448898ul
        vec![2, 255, 2, 255, 2, 255, 2, 255],
        // 37
        vec![37],
        // 44
        vec![44],
    ];
    kani::concrete_playback_run(concrete_vals, vk_c15_step_en_passant);
}

//@playback-end
// failing check: assertion failed: g.incremental_eval.phase_value - pre.incremental_eval.phase_value == dph @ src/chess/game.rs:779:9 in function chess::game::verif_kani_c02::check_make_undo
