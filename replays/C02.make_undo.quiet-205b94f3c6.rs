// REPLAY FILE written by /verif/driver/verif.py
// property: C02
// obligation: C02.make_undo.quiet
// backend: kani
// harness: chess::game::verif_kani_c02::vk_c02_make_undo_quiet
// contract_file: chess__game@c02.rs
// functions_under_contract: chess/game.rs::Game::make_move, chess/game.rs::Game::undo_move, chess/game.rs::Game::set_at, chess/game.rs::Game::remove_at, chess/game.rs::Game::try_remove_castle_rights
// failed: assertion failed: g.en_passant_target.map(|s| s.idx()) == ep_after(&c)
// repo_head: 550f3af  (working tree may differ)
// replay with: /verif/check replay /verif/replays/C02.make_undo.quiet-205b94f3c6.rs
//
// The verifier's counterexample as a concrete playback test (runs the REAL functions natively):
//@playback-begin
/// Test generated for harness `chess::game::verif_kani_c02::vk_c02_make_undo_quiet` 
///
/// Check for `assertion`: "assertion failed: g.en_passant_target.map(|s| s.idx()) == ep_after(&c)"
///
/// # Warning
///
/// Concrete playback tests combined with stubs or contracts is highly
/// experimental, and subject to change.
///
/// The original harness has stubs which are not applied to this test.
/// This may cause a mismatch of non-deterministic values if the stub
/// creates any non-deterministic value.
/// The execution path may also differ, which can be used to refine the stub
/// logic.

#[test]
fn kani_concrete_playback_vk_c02_make_undo_quiet_10178768363186441034() {
    let concrete_vals: Vec<Vec<u8>> = vec![
        // 4
        vec![4],
        // 0
        vec![0],
        // 5
        vec![5],
        // 7
        vec![7],
        // 1
        vec![1],
        // 0
        vec![0],
        // 5
        vec![5],
        // 10
        vec![10],
        // 2
        vec![2],
        // 0
        vec![0],
        // 0
        vec![0],
        // 7
        vec![7],
        // 11
        vec![11],
        // 1
        vec![1],
        // 3
        vec![3],
        // 12
        vec![12],
        // 0
        vec![0],
        // 7
        vec![7],
        // 10
        vec![10],
        // 9
        vec![9],
        // 11
        vec![11],
        // 0
        vec![0],
        // 11
        vec![11],
        // 7
        vec![7],
        // 7
        vec![7],
        // 5
        vec![5],
        // 10
        vec![10],
        // 9
        vec![9],
        // 7
        vec![7],
        // 0
        vec![0],
        // 5
        vec![5],
        // 1
        vec![1],
        // 12
        vec![12],
        // 3
        vec![3],
        // 7
        vec![7],
        // 1
        vec![1],
        // 7
        vec![7],
        // 11
        vec![11],
        // 7
        vec![7],
        // 0
        vec![0],
        // 0
        vec![0],
        // 9
        vec![9],
        // 6
        vec![6],
        // 0
        vec![0],
        // 9
        vec![9],
        // 7
        vec![7],
        // 12
        vec![12],
        // 12
        vec![12],
        // 3
        vec![3],
        // 0
        vec![0],
        // 0
        vec![0],
        // 6
        vec![6],
        // 9
        vec![9],
        // 1
        vec![1],
        // 12
        vec![12],
        // 7
        vec![7],
        // 0
        vec![0],
        // 0
        vec![0],
        // 0
        vec![0],
        // 7
        vec![7],
        // 0
        vec![0],
        // 11
        vec![11],
        // 11
        vec![11],
        // 7
        vec![7],
        // 1
        vec![1],
        // 2
        vec![2],
        // 1
        vec![1],
        // 7
        vec![7],
        // 0
        vec![0],
        // 2147483647
        vec![255, 255, 255, 127],
        // 2147483647
        vec![255, 255, 255, 127],
        // -1
        vec![255, 255],
        // -4096
        vec![0, 240],
        // 125
        vec![125, 0],
        // 1
        vec![1],
        // 0
        vec![0],
        // 0
        vec![0],
        // 0
        vec![0],
        // 0
        vec![0],
        // 1
        vec![1],
        // 59
        vec![59],
        // 18157383382357244923ul
        vec![251, 251, 251, 251, 251, 251, 251, 251],
        // 8
        vec![8],
        // 24
        vec![24],
    ];
    kani::concrete_playback_run(concrete_vals, vk_c02_make_undo_quiet);
}

//@playback-end
// failing check: assertion failed: g.en_passant_target.map(|s| s.idx()) == ep_after(&c) @ src/chess/game.rs:755:9 in function chess::game::verif_kani_c02::check_make_undo
