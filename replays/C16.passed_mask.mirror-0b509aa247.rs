// REPLAY FILE written by /verif/driver/verif.py
// property: C16
// obligation: C16.passed_mask.mirror
// backend: kani
// harness: engine::eval::pawn_structure::verif_kani_c16::vk_c16_passed_mask_mirror
// contract_file: engine__eval__pawn_structure@c16.rs
// functions_under_contract: engine/eval/pawn_structure.rs::generate_passed_pawn_mask
// failed: assertion failed: b == w.flip_vertically()
// repo_head: 76dd00f  (working tree may differ)
// replay with: /verif/check replay /verif/replays/C16.passed_mask.mirror-0b509aa247.rs
//
// no-failing-input-found: the verifier gives no model for this obligation; its output follows
// | rc/chess/bitboard.rs:9:21 in function <chess::bitboard::Bitboard as std::cmp::PartialEq>::eq
// | 
// | Check 65: engine::eval::pawn_structure::generate_passed_pawn_mask.unwind.0
// | 	 - Status: SUCCESS
// | 	 - Description: "unwinding assertion loop 0"
// | 	 - Location: src/engine/eval/pawn_structure.rs:60:5 in function engine::eval::pawn_structure::generate_passed_pawn_mask
// | 
// | 
// | SUMMARY:
// |  ** 1 of 64 failed
// | 
// |  ** 1 of 1 cover properties satisfied
// | 
// | Failed Checks: assertion failed: b == w.flip_vertically()
// |  File: "src/engine/eval/pawn_structure.rs", line 251, in engine::eval::pawn_structure::verif_kani_c16::vk_c16_passed_mask_mirror
// | 
// | VERIFICATION:- FAILED
// | Verification Time: 0.72918016s
// | 
// | Concrete playback unit test for `engine::eval::pawn_structure::verif_kani_c16::vk_c16_passed_mask_mirror`:
// | ```
// | /// Test generated for harness `engine::eval::pawn_structure::verif_kani_c16::vk_c16_passed_mask_mirror` 
// | ///
// | /// Check for `cover`: "cover condition: w.any()"
// | 
// | #[test]
// | fn kani_concrete_playback_vk_c16_passed_mask_mirror_14492577238922438544() {
// |     let concrete_vals: Vec<Vec<u8>> = vec![
// |         // 8
// |         vec![8],
// |     ];
// |     kani::concrete_playback_run(concrete_vals, vk_c16_passed_mask_mirror);
// | }
// | ```
// | INFO: To automatically add the concrete playback unit test(s) to the src code, run Kani with `--concrete-playback=inplace`.
// | Manual Harness Summary:
// | Verification failed for - engine::eval::pawn_structure::verif_kani_c16::vk_c16_passed_mask_mirror
// | Complete - 0 successfully verified harnesses, 1 failures, 1 total.
// | 
