// REPLAY FILE written by /verif/driver/verif.py
// property: C01
// obligation: C01.gen.castles
// backend: kani
// harness: chess::movegen::gen::verif_kani_c01::vk_c01_gen_castles
// contract_file: chess__movegen__gen@c01.rs
// functions_under_contract: chess/movegen/gen.rs::generate_castles, chess/movegen/gen.rs::generate_castle_move_for_side, chess/bitboard.rs::mod bitboards / fn castle_squares
// failed: "attack test on the wrong position"
// repo_head: 79b9776  (working tree may differ)
// replay with: /verif/check replay /verif/replays/C01.gen.castles-b59a65ff46.rs
//
// no-failing-input-found: the verifier gives no model for this obligation; its output follows
// | 
// |         vec![0],
// |         // 0
// |         vec![0],
// |         // 0
// |         vec![0],
// |         // 0
// |         vec![0],
// |         // 0
// |         vec![0],
// |         // 0
// |         vec![0],
// |         // 0
// |         vec![0],
// |         // 0
// |         vec![0],
// |         // 0
// |         vec![0],
// |         // 0
// |         vec![0],
// |         // 0
// |         vec![0],
// |         // 0
// |         vec![0],
// |         // 0
// |         vec![0],
// |         // 2147483647
// |         vec![255, 255, 255, 127],
// |         // 2147483647
// |         vec![255, 255, 255, 127],
// |         // -12769
// |         vec![31, 206],
// |         // -16385
// |         vec![255, 191],
// |         // 200
// |         vec![200, 0],
// |         // 0
// |         vec![0],
// |         // 1
// |         vec![1],
// |         // 1
// |         vec![1],
// |         // 1
// |         vec![1],
// |         // 1
// |         vec![1],
// |         // 1
// |         vec![1],
// |         // 63
// |         vec![63],
// |         // 18446744073709551615ul
// |         vec![255, 255, 255, 255, 255, 255, 255, 255],
// |         // 0ul
// |         vec![0, 0, 0, 0, 0, 0, 0, 0],
// |         // 0ul
// |         vec![0, 0, 0, 0, 0, 0, 0, 0],
// |         // 0ul
// |         vec![0, 0, 0, 0, 0, 0, 0, 0],
// |         // 0ul
// |         vec![0, 0, 0, 0, 0, 0, 0, 0],
// |     ];
// |     kani::concrete_playback_run(concrete_vals, vk_c01_gen_castles);
// | }
// | ```
// | INFO: To automatically add the concrete playback unit test(s) to the src code, run Kani with `--concrete-playback=inplace`.
// | Manual Harness Summary:
// | Verification failed for - chess::movegen::gen::verif_kani_c01::vk_c01_gen_castles
// | Complete - 0 successfully verified harnesses, 1 failures, 1 total.
// | 
