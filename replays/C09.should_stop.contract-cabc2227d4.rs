// REPLAY FILE written by /verif/driver/verif.py
// property: C09
// obligation: C09.should_stop.contract
// backend: kani
// harness: engine::search::time_control::verif_kani_c14::vk_c09_should_stop_contract
// contract_file: engine__search__time_control@c14.rs
// functions_under_contract: engine/search/time_control.rs::TimeStrategy::should_stop, engine/search/time_control.rs::TimeStrategy::should_start_new_search, engine/search/time_control.rs::TimeStrategy::is_force_stopped, engine/search/time_control.rs::Control::stop
// failed: assertion failed: ts.should_stop(u64::MAX - params::CHECK_TERMINATION_NODE_FREQUENCY)
// repo_head: 76dd00f  (working tree may differ)
// replay with: /verif/check replay /verif/replays/C09.should_stop.contract-cabc2227d4.rs
//
// The verifier's counterexample as a concrete playback test (runs the REAL functions natively):
//@playback-begin
/// Test generated for harness `engine::search::time_control::verif_kani_c14::vk_c09_should_stop_contract` 
///
/// Check for `assertion`: "assertion failed: ts.should_stop(u64::MAX - params::CHECK_TERMINATION_NODE_FREQUENCY)"
///
/// # Warning
///
/// Concrete playback tests combined with stubs or contracts is highly
/// experimental, and subject to change.
///
/// The original harness has stubs which are not applied to this test.
/// This may cause a mismatch of non-deterministic values if the stub
/// creates any non-deterministic value.
/// The execution path may also differ, which can be used to refine the stub
/// logic.

#[test]
fn kani_concrete_playback_vk_c09_should_stop_contract_7805039529486289095() {
    let concrete_vals: Vec<Vec<u8>> = vec![
        // 192
        vec![192],
        // 256ul
        vec![0, 1, 0, 0, 0, 0, 0, 0],
        // 0ul
        vec![0, 0, 0, 0, 0, 0, 0, 0],
        // 0ul
        vec![0, 0, 0, 0, 0, 0, 0, 0],
        // 0ul
        vec![0, 0, 0, 0, 0, 0, 0, 0],
        // 0
        vec![0],
        // 18446744073709535232ul
        vec![0, 192, 255, 255, 255, 255, 255, 255],
        // 0
        vec![0],
    ];
    kani::concrete_playback_run(concrete_vals, vk_c09_should_stop_contract);
}

//@playback-end
// failing check: assertion failed: ts.should_stop(u64::MAX - params::CHECK_TERMINATION_NODE_FREQUENCY) @ src/engine/search/time_control.rs:341:5 in function engine::search::time_control::verif_kani_c14::vk_c09_should_stop_contract
