// REPLAY FILE written by /verif/driver/verif.py
// property: C08
// obligation: C08.negamax.mate_pv
// backend: kani
// harness: engine::search::negamax::verif_kani_c04::vk_c08_negamax_mate_pv
// contract_file: engine__search__negamax@c04.rs
// functions_under_contract: engine/search/negamax.rs::negamax
// failed: "child line not cleared before the child search"
// repo_head: 76dd00f  (working tree may differ)
// replay with: /verif/check replay /verif/replays/C08.negamax.mate_pv-395f857b67.rs
//
// The verifier's counterexample as a concrete playback test (runs the REAL functions natively):
//@playback-begin
/// Test generated for harness `engine::search::negamax::verif_kani_c04::vk_c08_negamax_mate_pv` 
///
/// Check for `assertion`: ""child line not cleared before the child search""

#[test]
fn kani_concrete_playback_vk_c08_negamax_mate_pv_5345592024031272934() {
    let concrete_vals: Vec<Vec<u8>> = vec![
        // 0
        vec![0],
        // -16385
        vec![255, 191],
        // -15808
        vec![64, 194],
        // 3
        vec![3],
        // 65
        vec![65],
        // 1
        vec![1],
        // 1
        vec![1],
        // 0
        vec![0],
        // 0ul
        vec![0, 0, 0, 0, 0, 0, 0, 0],
        // 0ul
        vec![0, 0, 0, 0, 0, 0, 0, 0],
        // 0
        vec![0],
        // 0
        vec![0],
        // 1
        vec![1],
        // 32000
        vec![0, 125],
        // 193
        vec![193],
        // 0
        vec![0],
        // 3
        vec![3],
        // 0
        vec![0],
        // 0
        vec![0],
        // 0
        vec![0],
        // 0
        vec![0],
        // 0
        vec![0],
        // 0
        vec![0],
        // 0
        vec![0],
        // 47
        vec![47],
        // 16140844851393396957ul
        vec![221, 0, 255, 221, 223, 204, 255, 223],
        // 3
        vec![3],
        // -16384
        vec![0, 192],
        // 0
        vec![0],
        // 0
        vec![0],
        // 2
        vec![2],
        // 0
        vec![0],
        // 0
        vec![0],
        // 16896
        vec![0, 66],
        // 168
        vec![168],
        // 0
        vec![0],
        // 0
        vec![0],
        // 2
        vec![2],
        // 0
        vec![0],
        // 0
        vec![0],
        // 16320
        vec![192, 63],
        // 0
        vec![0],
        // 0
        vec![0],
        // 28608
        vec![192, 111],
        // 5
        vec![5],
        // 0
        vec![0],
        // 1
        vec![1],
        // 0
        vec![0],
        // 0
        vec![0],
        // 0
        vec![0],
        // 0
        vec![0],
        // 15833
        vec![217, 61],
        // 1
        vec![1],
    ];
    kani::concrete_playback_run(concrete_vals, vk_c08_negamax_mate_pv);
}

//@playback-end
// failing check: "child line not cleared before the child search" @ src/engine/search/negamax.rs:598:5 in function engine::search::negamax::verif_kani_c04::negamax
// failing check: assertion failed: mate_distance(e.0) >= r.plies as i16 @ src/engine/search/negamax.rs:1057:13 in function engine::search::negamax::verif_kani_c04::vk_c08_negamax_mate_pv
// failing check: assertion failed: r.pv_len_after as i16 == mate_distance(e.0) - r.plies as i16 @ src/engine/search/negamax.rs:1059:17 in function engine::search::negamax::verif_kani_c04::vk_c08_negamax_mate_pv
