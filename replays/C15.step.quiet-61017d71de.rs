// REPLAY FILE written by /verif/driver/verif.py
// property: C15
// obligation: C15.step.quiet
// backend: kani
// harness: chess::game::verif_kani_c02::vk_c15_step_quiet
// contract_file: chess__game@c02.rs
// functions_under_contract: chess/game.rs::Game::make_move, engine/eval/mod.rs::IncrementalEvalFields::set_at, engine/eval/mod.rs::IncrementalEvalFields::remove_at
// failed: assertion failed: g.incremental_eval.phase_value - pre.incremental_eval.phase_value == dph
// repo_head: 76dd00f  (working tree may differ)
// replay with: /verif/check replay /verif/replays/C15.step.quiet-61017d71de.rs
//
// The verifier's counterexample as a concrete playback test (runs the REAL functions natively):
//@playback-begin
/// Test generated for harness `chess::game::verif_kani_c02::vk_c15_step_quiet` 
///
/// Check for `assertion`: "assertion failed: g.incremental_eval.phase_value - pre.incremental_eval.phase_value == dph"
///
/// # Warning
///
/// Concrete playback tests combined with stubs or contracts is highly
/// experimental, and subject to change.
///
/// The original harness has stubs which are not applied to this test.
/// This may cause a mismatch of non-deterministic values if the stub
/// creates any non-deterministic value.
/// The execution path may also differ, which can be used to refine the stub
/// logic.

#[test]
fn kani_concrete_playback_vk_c15_step_quiet_14048448177947755614() {
    let concrete_vals: Vec<Vec<u8>> = vec![
        // 4
        vec![4],
        // 1
        vec![1],
        // 5
        vec![5],
        // 28
        vec![28],
        // 1
        vec![1],
        // 12
        vec![12],
        // 12
        vec![12],
        // 12
        vec![12],
        // 12
        vec![12],
        // 12
        vec![12],
        // 12
        vec![12],
        // 12
        vec![12],
        // 12
        vec![12],
        // 12
        vec![12],
        // 12
        vec![12],
        // 12
        vec![12],
        // 12
        vec![12],
        // 12
        vec![12],
        // 12
        vec![12],
        // 0
        vec![0],
        // 12
        vec![12],
        // 0
        vec![0],
        // 0
        vec![0],
        // 0
        vec![0],
        // 0
        vec![0],
        // 12
        vec![12],
        // 12
        vec![12],
        // 12
        vec![12],
        // 12
        vec![12],
        // 0
        vec![0],
        // 0
        vec![0],
        // 0
        vec![0],
        // 0
        vec![0],
        // 0
        vec![0],
        // 12
        vec![12],
        // 12
        vec![12],
        // 12
        vec![12],
        // 12
        vec![12],
        // 12
        vec![12],
        // 12
        vec![12],
        // 12
        vec![12],
        // 12
        vec![12],
        // 12
        vec![12],
        // 12
        vec![12],
        // 12
        vec![12],
        // 12
        vec![12],
        // 12
        vec![12],
        // 12
        vec![12],
        // 12
        vec![12],
        // 12
        vec![12],
        // 12
        vec![12],
        // 12
        vec![12],
        // 12
        vec![12],
        // 12
        vec![12],
        // 12
        vec![12],
        // 12
        vec![12],
        // 12
        vec![12],
        // 12
        vec![12],
        // 12
        vec![12],
        // 12
        vec![12],
        // 12
        vec![12],
        // 12
        vec![12],
        // 12
        vec![12],
        // 12
        vec![12],
        // 12
        vec![12],
        // 12
        vec![12],
        // 12
        vec![12],
        // 12
        vec![12],
        // 12
        vec![12],
        // 33620481
        vec![1, 2, 1, 2],
        // 2130772481
        vec![1, 2, 1, 127],
        // 0
        vec![0, 0],
        // -18432
        vec![0, 184],
        // 200
        vec![200, 0],
        // 0
        vec![0],
        // 0
        vec![0],
        // 0
        vec![0],
        // 0
        vec![0],
        // 0
        vec![0],
        // 0
        vec![0],
        // 18375248338686705409ul
        vec![1, 255, 1, 255, 1, 255, 1, 255],
        // 37
        vec![37],
        // 28
        vec![28],
    ];
    kani::concrete_playback_run(concrete_vals, vk_c15_step_quiet);
}

//@playback-end
// failing check: assertion failed: g.incremental_eval.phase_value - pre.incremental_eval.phase_value == dph @ src/chess/game.rs:779:9 in function chess::game::verif_kani_c02::check_make_undo
