// REPLAY FILE written by /verif/driver/verif.py
// property: C18
// obligation: C18.disambiguation.minimal
// backend: kani
// harness: chess::san::san_writer::verif_kani_c18::vk_c18_disambiguation_minimal
// contract_file: chess__san__san_writer@c18.rs
// functions_under_contract: chess/san/san_writer.rs::required_ambiguity_resolution
// failed: assertion failed: got == want
// repo_head: 550f3af  (working tree may differ)
// replay with: /verif/check replay /verif/replays/C18.disambiguation.minimal-a075672723.rs
//
// The verifier's counterexample as a concrete playback test (runs the REAL functions natively):
//@playback-begin
/// Test generated for harness `chess::san::san_writer::verif_kani_c18::vk_c18_disambiguation_minimal` 
///
/// Check for `assertion`: "assertion failed: got == want"

#[test]
fn kani_concrete_playback_vk_c18_disambiguation_minimal_2361622527755538277() {
    let concrete_vals: Vec<Vec<u8>> = vec![
        // 0
        vec![0],
        // 0
        vec![0],
        // 0
        vec![0],
        // 8
        vec![8],
        // 0
        vec![0],
        // 0
        vec![0],
        // 0
        vec![0],
        // 6
        vec![6],
        // 0
        vec![0],
        // 0
        vec![0],
        // 0
        vec![0],
        // 8
        vec![8],
        // 0
        vec![0],
        // 0
        vec![0],
        // 0
        vec![0],
        // 0
        vec![0],
        // 0
        vec![0],
        // 0
        vec![0],
        // 0
        vec![0],
        // 8
        vec![8],
        // 0
        vec![0],
        // 0
        vec![0],
        // 0
        vec![0],
        // 0
        vec![0],
        // 0
        vec![0],
        // 0
        vec![0],
        // 0
        vec![0],
        // 0
        vec![0],
        // 0
        vec![0],
        // 0
        vec![0],
        // 0
        vec![0],
        // 10
        vec![10],
        // 0
        vec![0],
        // 0
        vec![0],
        // 0
        vec![0],
        // 0
        vec![0],
        // 0
        vec![0],
        // 0
        vec![0],
        // 0
        vec![0],
        // 0
        vec![0],
        // 0
        vec![0],
        // 0
        vec![0],
        // 0
        vec![0],
        // 0
        vec![0],
        // 0
        vec![0],
        // 0
        vec![0],
        // 0
        vec![0],
        // 12
        vec![12],
        // 0
        vec![0],
        // 0
        vec![0],
        // 0
        vec![0],
        // 12
        vec![12],
        // 0
        vec![0],
        // 0
        vec![0],
        // 0
        vec![0],
        // 0
        vec![0],
        // 0
        vec![0],
        // 0
        vec![0],
        // 0
        vec![0],
        // 1
        vec![1],
        // 0
        vec![0],
        // 0
        vec![0],
        // 0
        vec![0],
        // 10
        vec![10],
        // 0
        vec![0],
        // 5ul
        vec![5, 0, 0, 0, 0, 0, 0, 0],
        // 47
        vec![47],
        // 39
        vec![39],
        // 51
        vec![51],
        // 15
        vec![15],
        // 31
        vec![31],
        // 39
        vec![39],
        // 63
        vec![63],
        // 7
        vec![7],
        // 31
        vec![31],
        // 7
        vec![7],
        // 3ul
        vec![3, 0, 0, 0, 0, 0, 0, 0],
    ];
    kani::concrete_playback_run(concrete_vals, vk_c18_disambiguation_minimal);
}

//@playback-end
// failing check: assertion failed: got == want @ src/chess/san/san_writer.rs:430:5 in function chess::san::san_writer::verif_kani_c18::vk_c18_disambiguation_minimal
// failing check: Rust intrinsic assumption failed @ ../../../../../home/runner/.rustup/toolchains/nightly-2026-08-21-x86_64-unknown-linux-gnu/lib/rustlib/src/rust/library/core/src/slice/index.rs:218:13 in function <usize as std::slice::SliceIndex<[chess::bitboard::Bitboard]>>::get_unchecked
