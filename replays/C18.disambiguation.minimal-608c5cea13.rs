// REPLAY FILE written by /verif/driver/verif.py
// property: C18
// obligation: C18.disambiguation.minimal
// backend: kani
// harness: chess::san::san_writer::verif_kani_c18::vk_c18_disambiguation_minimal
// contract_file: chess__san__san_writer@c18.rs
// functions_under_contract: chess/san/san_writer.rs::required_ambiguity_resolution
// failed: rust_dealloc must be called on an object whose allocated size matches its layout
// repo_head: 550f3af  (working tree may differ)
// replay with: /verif/check replay /verif/replays/C18.disambiguation.minimal-608c5cea13.rs
//
// The verifier's counterexample as a concrete playback test (runs the REAL functions natively):
//@playback-begin
/// Test generated for harness `chess::san::san_writer::verif_kani_c18::vk_c18_disambiguation_minimal` 
///
/// Check for `assertion`: "rust_dealloc must be called on an object whose allocated size matches its layout"
///
/// # Warning
///
/// Concrete playback tests combined with stubs or contracts is highly
/// experimental, and subject to change.
///
/// The original harness has stubs which are not applied to this test.
/// This may cause a mismatch of non-deterministic values if the stub
/// creates any non-deterministic value.
/// The execution path may also differ, which can be used to refine the stub
/// logic.

#[test]
fn kani_concrete_playback_vk_c18_disambiguation_minimal_3028915409581919032() {
    let concrete_vals: Vec<Vec<u8>> = vec![
        // 0
        vec![0],
        // 0
        vec![0],
        // 0
        vec![0],
        // 0
        vec![0],
        // 0
        vec![0],
        // 0
        vec![0],
        // 0
        vec![0],
        // 0
        vec![0],
        // 0
        vec![0],
        // 0
        vec![0],
        // 0
        vec![0],
        // 0
        vec![0],
        // 0
        vec![0],
        // 0
        vec![0],
        // 0
        vec![0],
        // 0
        vec![0],
        // 0
        vec![0],
        // 0
        vec![0],
        // 0
        vec![0],
        // 0
        vec![0],
        // 0
        vec![0],
        // 0
        vec![0],
        // 0
        vec![0],
        // 0
        vec![0],
        // 0
        vec![0],
        // 0
        vec![0],
        // 0
        vec![0],
        // 0
        vec![0],
        // 0
        vec![0],
        // 0
        vec![0],
        // 0
        vec![0],
        // 0
        vec![0],
        // 0
        vec![0],
        // 0
        vec![0],
        // 0
        vec![0],
        // 0
        vec![0],
        // 0
        vec![0],
        // 0
        vec![0],
        // 0
        vec![0],
        // 0
        vec![0],
        // 0
        vec![0],
        // 0
        vec![0],
        // 0
        vec![0],
        // 0
        vec![0],
        // 0
        vec![0],
        // 0
        vec![0],
        // 0
        vec![0],
        // 0
        vec![0],
        // 0
        vec![0],
        // 0
        vec![0],
        // 0
        vec![0],
        // 0
        vec![0],
        // 0
        vec![0],
        // 0
        vec![0],
        // 0
        vec![0],
        // 0
        vec![0],
        // 0
        vec![0],
        // 0
        vec![0],
        // 0
        vec![0],
        // 0
        vec![0],
        // 0
        vec![0],
        // 0
        vec![0],
        // 0
        vec![0],
        // 8
        vec![8],
        // 0
        vec![0],
        // 5ul
        vec![5, 0, 0, 0, 0, 0, 0, 0],
        // 63
        vec![63],
        // 31
        vec![31],
        // 63
        vec![63],
        // 22
        vec![22],
        // 63
        vec![63],
        // 14
        vec![14],
        // 63
        vec![63],
        // 60
        vec![60],
        // 63
        vec![63],
        // 6
        vec![6],
        // 4ul
        vec![4, 0, 0, 0, 0, 0, 0, 0],
    ];
    kani::concrete_playback_run(concrete_vals, vk_c18_disambiguation_minimal);
}

//@playback-end
// failing check: rust_dealloc must be called on an object whose allocated size matches its layout @ ../../../../../root/.kani/kani-0.68.0/library/kani/kani_lib.c:85 in function __rust_dealloc
// failing check: free argument must be NULL or valid pointer @ ../../../../../root/.kani/kani-0.68.0/library/kani/kani_lib.c:87 in function __rust_dealloc
// failing check: free argument must be dynamic object @ ../../../../../root/.kani/kani-0.68.0/library/kani/kani_lib.c:87 in function __rust_dealloc
// failing check: free argument has offset zero @ ../../../../../root/.kani/kani-0.68.0/library/kani/kani_lib.c:87 in function __rust_dealloc
