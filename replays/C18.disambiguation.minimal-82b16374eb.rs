// REPLAY FILE written by /verif/driver/verif.py
// property: C18
// obligation: C18.disambiguation.minimal
// backend: kani
// harness: chess::san::san_writer::verif_kani_c18::vk_c18_disambiguation_minimal
// contract_file: chess__san__san_writer@c18.rs
// functions_under_contract: chess/san/san_writer.rs::required_ambiguity_resolution
// failed: Rust intrinsic assumption failed
// repo_head: 550f3af  (working tree may differ)
// replay with: /verif/check replay /verif/replays/C18.disambiguation.minimal-82b16374eb.rs
//
// The verifier's counterexample as a concrete playback test (runs the REAL functions natively):
//@playback-begin
/// Test generated for harness `chess::san::san_writer::verif_kani_c18::vk_c18_disambiguation_minimal` 
///
/// Check for `assume`: "Rust intrinsic assumption failed"

#[test]
fn kani_concrete_playback_vk_c18_disambiguation_minimal_5930920543414070979() {
    let concrete_vals: Vec<Vec<u8>> = vec![
        // 0
        vec![0],
        // 0
        vec![0],
        // 0
        vec![0],
        // 0
        vec![0],
        // 0
        vec![0],
        // 3
        vec![3],
        // 5
        vec![5],
        // 3
        vec![3],
        // 5
        vec![5],
        // 1
        vec![1],
        // 0
        vec![0],
        // 0
        vec![0],
        // 11
        vec![11],
        // 1
        vec![1],
        // 1
        vec![1],
        // 0
        vec![0],
        // 3
        vec![3],
        // 1
        vec![1],
        // 0
        vec![0],
        // 0
        vec![0],
        // 0
        vec![0],
        // 1
        vec![1],
        // 1
        vec![1],
        // 1
        vec![1],
        // 0
        vec![0],
        // 0
        vec![0],
        // 1
        vec![1],
        // 2
        vec![2],
        // 0
        vec![0],
        // 0
        vec![0],
        // 1
        vec![1],
        // 8
        vec![8],
        // 0
        vec![0],
        // 1
        vec![1],
        // 1
        vec![1],
        // 2
        vec![2],
        // 0
        vec![0],
        // 0
        vec![0],
        // 5
        vec![5],
        // 0
        vec![0],
        // 0
        vec![0],
        // 2
        vec![2],
        // 1
        vec![1],
        // 0
        vec![0],
        // 0
        vec![0],
        // 0
        vec![0],
        // 0
        vec![0],
        // 0
        vec![0],
        // 0
        vec![0],
        // 6
        vec![6],
        // 4
        vec![4],
        // 0
        vec![0],
        // 0
        vec![0],
        // 4
        vec![4],
        // 0
        vec![0],
        // 0
        vec![0],
        // 0
        vec![0],
        // 10
        vec![10],
        // 0
        vec![0],
        // 0
        vec![0],
        // 0
        vec![0],
        // 8
        vec![8],
        // 2
        vec![2],
        // 0
        vec![0],
        // 1ul
        vec![1, 0, 0, 0, 0, 0, 0, 0],
        // 5
        vec![5],
        // 14
        vec![14],
        // 0
        vec![0],
        // 0
        vec![0],
        // 0ul
        vec![0, 0, 0, 0, 0, 0, 0, 0],
    ];
    kani::concrete_playback_run(concrete_vals, vk_c18_disambiguation_minimal);
}

//@playback-end
// failing check: Rust intrinsic assumption failed @ ../../../../../home/runner/.rustup/toolchains/nightly-2026-08-21-x86_64-unknown-linux-gnu/lib/rustlib/src/rust/library/core/src/slice/index.rs:218:13 in function <usize as std::slice::SliceIndex<[chess::bitboard::Bitboard]>>::get_unchecked
// failing check: assertion failed: got == want @ src/chess/san/san_writer.rs:419:5 in function chess::san::san_writer::verif_kani_c18::vk_c18_disambiguation_minimal
