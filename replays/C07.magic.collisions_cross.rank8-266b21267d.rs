// REPLAY FILE written by /verif/driver/verif.py
// property: C07
// obligation: C07.magic.collisions_cross.rank8
// backend: kani
// harness: chess::movegen::tables::magics::verif_kani_c07::vk_c07_coll_cross_r7
// contract_file: chess__movegen__tables__magics@c07.rs
// functions_under_contract: chess/movegen/tables/magics.rs::table_index_rook, chess/movegen/tables/magics.rs::table_index_bishop
// failed: assertion failed: i1 != i2 || w1 == w2
// repo_head: 76dd00f  (working tree may differ)
// replay with: /verif/check replay /verif/replays/C07.magic.collisions_cross.rank8-266b21267d.rs
//
// The verifier's counterexample as a concrete playback test (runs the REAL functions natively):
//@playback-begin
/// Test generated for harness `chess::movegen::tables::magics::verif_kani_c07::vk_c07_coll_cross_r7` 
///
/// Check for `assertion`: "assertion failed: i1 != i2 || w1 == w2"

#[test]
fn kani_concrete_playback_vk_c07_coll_cross_r7_11187525110031405140() {
    let concrete_vals: Vec<Vec<u8>> = vec![
        // 60
        vec![60],
        // 36
        vec![36],
        // 1
        vec![1],
        // 0
        vec![0],
        // 1024590974180408550ul
        vec![230, 60, 24, 0, 16, 20, 56, 14],
        // 5790073278777631588ul
        vec![100, 163, 5, 77, 248, 120, 90, 80],
    ];
    kani::concrete_playback_run(concrete_vals, vk_c07_coll_cross_r7);
}

//@playback-end
// failing check: assertion failed: i1 != i2 || w1 == w2 @ src/chess/movegen/tables/magics.rs:461:5 in function chess::movegen::tables::magics::verif_kani_c07::collisions
