// REPLAY FILE written by /verif/driver/verif.py
// property: C19
// obligation: C19.policy.should_overwrite
// backend: verus
// harness: should_overwrite_with
// contract_file: tt.vspec
// functions_under_contract: engine/search/transposition.rs::impl TTOverwriteable for SearchTranspositionTableData / fn should_overwrite_with
// failed: error: postcondition not satisfied
// repo_head: 76dd00f  (working tree may differ)
// replay with: /verif/check replay /verif/replays/C19.policy.should_overwrite-b7047bdade.rs
//
// no-failing-input-found: the verifier gives no model for this obligation; its output follows
// | error: postcondition not satisfied
// |    --> /var/tmp/tcheran-verif/C19-6025/verus/tt.rs:49:70
// |     |
// |  49 |     fn should_overwrite_with(&self, new: &Self) -> (r: bool) ensures r == self.should_overwrite_spec(new);
// |     |                                                                      ^^^^^^^^^^^^^^^^^^^^^^^^^^^^^^^^^^^^ failed this postcondition
// | ...
// | 319 |             return true;
// |     |             ----------- at this exit
// | 
