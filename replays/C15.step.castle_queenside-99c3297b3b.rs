// REPLAY FILE written by /verif/driver/verif.py
// property: C15
// obligation: C15.step.castle_queenside
// backend: kani
// harness: chess::game::verif_kani_c02::vk_c15_step_castle_q
// contract_file: chess__game@c02.rs
// functions_under_contract: chess/game.rs::Game::make_move
// failed: assertion failed: g.incremental_eval.phase_value - pre.incremental_eval.phase_value == dph
// repo_head: 76dd00f  (working tree may differ)
// replay with: /verif/check replay /verif/replays/C15.step.castle_queenside-99c3297b3b.rs
//
// no-failing-input-found: the verifier gives no model for this obligation; its output follows
// |    // 0
// |         vec![0],
// |         // 0
// |         vec![0],
// |         // 0
// |         vec![0],
// |         // 0
// |         vec![0],
// |         // 0
// |         vec![0],
// |         // 0
// |         vec![0],
// |         // 0
// |         vec![0],
// |         // 0
// |         vec![0],
// |         // 0
// |         vec![0],
// |         // 0
// |         vec![0],
// |         // 0
// |         vec![0],
// |         // 4
// |         vec![4],
// |         // 0
// |         vec![0],
// |         // 0
// |         vec![0],
// |         // 3
// |         vec![3],
// |         // 12
// |         vec![12],
// |         // 3
// |         vec![3],
// |         // 3
// |         vec![3],
// |         // 0
// |         vec![0],
// |         // 33554944
// |         vec![0, 2, 0, 2],
// |         // 2130706944
// |         vec![0, 2, 0, 127],
// |         // -1
// |         vec![255, 255],
// |         // 18432
// |         vec![0, 72],
// |         // 49
// |         vec![49, 0],
// |         // 1
// |         vec![1],
// |         // 1
// |         vec![1],
// |         // 1
// |         vec![1],
// |         // 0
// |         vec![0],
// |         // 0
// |         vec![0],
// |         // 1
// |         vec![1],
// |         // 63
// |         vec![63],
// |         // 18374966859414961920ul
// |         vec![0, 255, 0, 255, 0, 255, 0, 255],
// |         // 4
// |         vec![4],
// |         // 2
// |         vec![2],
// |     ];
// |     kani::concrete_playback_run(concrete_vals, vk_c15_step_castle_q);
// | }
// | ```
// | INFO: To automatically add the concrete playback unit test(s) to the src code, run Kani with `--concrete-playback=inplace`.
// | Manual Harness Summary:
// | Verification failed for - chess::game::verif_kani_c02::vk_c15_step_castle_q
// | Complete - 0 successfully verified harnesses, 1 failures, 1 total.
// | 
