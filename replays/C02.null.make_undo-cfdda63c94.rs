// REPLAY FILE written by /verif/driver/verif.py
// property: C03
// obligation: C02.null.make_undo
// backend: kani
// harness: chess::game::verif_kani_c02::vk_c02_null_make_undo
// contract_file: chess__game@c02.rs
// functions_under_contract: chess/game.rs::Game::make_null_move, chess/game.rs::Game::undo_null_move
// failed: assertion failed: g.zobrist.0 ^ pre.zobrist.0 == before ^ after
// repo_head: 76dd00f  (working tree may differ)
// replay with: /verif/check replay /verif/replays/C02.null.make_undo-cfdda63c94.rs
//
// The verifier's counterexample as a concrete playback test (runs the REAL functions natively):
//@playback-begin
/// Test generated for harness `chess::game::verif_kani_c02::vk_c02_null_make_undo` 
///
/// Check for `assertion`: "assertion failed: g.zobrist.0 ^ pre.zobrist.0 == before ^ after"
///
/// # Warning
///
/// Concrete playback tests combined with stubs or contracts is highly
/// experimental, and subject to change.
///
/// The original harness has stubs which are not applied to this test.
/// This may cause a mismatch of non-deterministic values if the stub
/// creates any non-deterministic value.
/// The execution path may also differ, which can be used to refine the stub
/// logic.

#[test]
fn kani_concrete_playback_vk_c02_null_make_undo_5708351620002031181() {
    let concrete_vals: Vec<Vec<u8>> = vec![
        // 3
        vec![3],
        // 1
        vec![1],
        // 3
        vec![3],
        // 63
        vec![63],
        // 1
        vec![1],
        // 0
        vec![0],
        // 0
        vec![0],
        // 0
        vec![0],
        // 0
        vec![0],
        // 0
        vec![0],
        // 0
        vec![0],
        // 0
        vec![0],
        // 0
        vec![0],
        // 0
        vec![0],
        // 0
        vec![0],
        // 0
        vec![0],
        // 0
        vec![0],
        // 0
        vec![0],
        // 0
        vec![0],
        // 0
        vec![0],
        // 0
        vec![0],
        // 0
        vec![0],
        // 0
        vec![0],
        // 0
        vec![0],
        // 0
        vec![0],
        // 0
        vec![0],
        // 0
        vec![0],
        // 0
        vec![0],
        // 0
        vec![0],
        // 0
        vec![0],
        // 0
        vec![0],
        // 0
        vec![0],
        // 0
        vec![0],
        // 0
        vec![0],
        // 0
        vec![0],
        // 0
        vec![0],
        // 0
        vec![0],
        // 0
        vec![0],
        // 0
        vec![0],
        // 0
        vec![0],
        // 0
        vec![0],
        // 0
        vec![0],
        // 0
        vec![0],
        // 0
        vec![0],
        // 0
        vec![0],
        // 0
        vec![0],
        // 0
        vec![0],
        // 0
        vec![0],
        // 0
        vec![0],
        // 0
        vec![0],
        // 0
        vec![0],
        // 0
        vec![0],
        // 0
        vec![0],
        // 0
        vec![0],
        // 0
        vec![0],
        // 0
        vec![0],
        // 0
        vec![0],
        // 0
        vec![0],
        // 0
        vec![0],
        // 0
        vec![0],
        // 0
        vec![0],
        // 0
        vec![0],
        // 0
        vec![0],
        // 0
        vec![0],
        // 0
        vec![0],
        // 0
        vec![0],
        // 0
        vec![0],
        // 0
        vec![0],
        // 10
        vec![10],
        // 2147483647
        vec![255, 255, 255, 127],
        // 2147483633
        vec![241, 255, 255, 127],
        // -12769
        vec![31, 206],
        // -1
        vec![255, 255],
        // 200
        vec![200, 0],
        // 0
        vec![0],
        // 1
        vec![1],
        // 1
        vec![1],
        // 1
        vec![1],
        // 1
        vec![1],
        // 1
        vec![1],
        // 63
        vec![63],
        // 18446744073709551615ul
        vec![255, 255, 255, 255, 255, 255, 255, 255],
    ];
    kani::concrete_playback_run(concrete_vals, vk_c02_null_make_undo);
}

//@playback-end
// failing check: assertion failed: g.zobrist.0 ^ pre.zobrist.0 == before ^ after @ src/chess/game.rs:1007:5 in function chess::game::verif_kani_c02::vk_c02_null_make_undo
