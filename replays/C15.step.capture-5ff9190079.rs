// REPLAY FILE written by /verif/driver/verif.py
// property: C15
// obligation: C15.step.capture
// backend: kani
// harness: chess::game::verif_kani_c02::vk_c15_step_capture
// contract_file: chess__game@c02.rs
// functions_under_contract: chess/game.rs::Game::make_move
// failed: assertion failed: g.incremental_eval.phase_value - pre.incremental_eval.phase_value == dph
// repo_head: 76dd00f  (working tree may differ)
// replay with: /verif/check replay /verif/replays/C15.step.capture-5ff9190079.rs
//
// no-failing-input-found: the verifier gives no model for this obligation; its output follows
// |      // 0
// |         vec![0],
// |         // 0
// |         vec![0],
// |         // 0
// |         vec![0],
// |         // 0
// |         vec![0],
// |         // 0
// |         vec![0],
// |         // 0
// |         vec![0],
// |         // 0
// |         vec![0],
// |         // 0
// |         vec![0],
// |         // 0
// |         vec![0],
// |         // 0
// |         vec![0],
// |         // 0
// |         vec![0],
// |         // 0
// |         vec![0],
// |         // 0
// |         vec![0],
// |         // 0
// |         vec![0],
// |         // 0
// |         vec![0],
// |         // 0
// |         vec![0],
// |         // 12
// |         vec![12],
// |         // 4
// |         vec![4],
// |         // 2147483647
// |         vec![255, 255, 255, 127],
// |         // 2147483647
// |         vec![255, 255, 255, 127],
// |         // -1
// |         vec![255, 255],
// |         // -1
// |         vec![255, 255],
// |         // 127
// |         vec![127, 0],
// |         // 0
// |         vec![0],
// |         // 0
// |         vec![0],
// |         // 0
// |         vec![0],
// |         // 0
// |         vec![0],
// |         // 0
// |         vec![0],
// |         // 1
// |         vec![1],
// |         // 63
// |         vec![63],
// |         // 18446744073709551615ul
// |         vec![255, 255, 255, 255, 255, 255, 255, 255],
// |         // 62
// |         vec![62],
// |         // 63
// |         vec![63],
// |     ];
// |     kani::concrete_playback_run(concrete_vals, vk_c15_step_capture);
// | }
// | ```
// | INFO: To automatically add the concrete playback unit test(s) to the src code, run Kani with `--concrete-playback=inplace`.
// | Manual Harness Summary:
// | Verification failed for - chess::game::verif_kani_c02::vk_c15_step_capture
// | Complete - 0 successfully verified harnesses, 1 failures, 1 total.
// | 
