// REPLAY FILE written by /verif/driver/verif.py
// property: C01
// obligation: C01.gen.pawn_captures
// backend: kani
// harness: chess::movegen::gen::verif_kani_c01::vk_c01_gen_pawn_captures
// contract_file: chess__movegen__gen@c01.rs
// functions_under_contract: chess/movegen/gen.rs::generate_pawn_captures
// failed: "an attack test is missing"
// repo_head: 550f3af  (working tree may differ)
// replay with: /verif/check replay /verif/replays/C01.gen.pawn_captures-4c15583c4d.rs
//
// The verifier's counterexample as a concrete playback test (runs the REAL functions natively):
//@playback-begin
/// Test generated for harness `chess::movegen::gen::verif_kani_c01::vk_c01_gen_pawn_captures` 
///
/// Check for `assertion`: ""an attack test is missing""
///
/// # Warning
///
/// Concrete playback tests combined with stubs or contracts is highly
/// experimental, and subject to change.
///
/// The original harness has stubs which are not applied to this test.
/// This may cause a mismatch of non-deterministic values if the stub
/// creates any non-deterministic value.
/// The execution path may also differ, which can be used to refine the stub
/// logic.

#[test]
fn kani_concrete_playback_vk_c01_gen_pawn_captures_258695550421705520() {
    let concrete_vals: Vec<Vec<u8>> = vec![
        // 4
        vec![4],
        // 10
        vec![10],
        // 7
        vec![7],
        // 2
        vec![2],
        // 2
        vec![2],
        // 8
        vec![8],
        // 11
        vec![11],
        // 1
        vec![1],
        // 1
        vec![1],
        // 1
        vec![1],
        // 2
        vec![2],
        // 2
        vec![2],
        // 10
        vec![10],
        // 12
        vec![12],
        // 12
        vec![12],
        // 2
        vec![2],
        // 8
        vec![8],
        // 2
        vec![2],
        // 10
        vec![10],
        // 4
        vec![4],
        // 3
        vec![3],
        // 2
        vec![2],
        // 4
        vec![4],
        // 0
        vec![0],
        // 7
        vec![7],
        // 1
        vec![1],
        // 1
        vec![1],
        // 6
        vec![6],
        // 1
        vec![1],
        // 12
        vec![12],
        // 2
        vec![2],
        // 1
        vec![1],
        // 1
        vec![1],
        // 7
        vec![7],
        // 7
        vec![7],
        // 5
        vec![5],
        // 3
        vec![3],
        // 2
        vec![2],
        // 3
        vec![3],
        // 2
        vec![2],
        // 1
        vec![1],
        // 0
        vec![0],
        // 0
        vec![0],
        // 1
        vec![1],
        // 7
        vec![7],
        // 0
        vec![0],
        // 7
        vec![7],
        // 0
        vec![0],
        // 1
        vec![1],
        // 7
        vec![7],
        // 1
        vec![1],
        // 1
        vec![1],
        // 1
        vec![1],
        // 1
        vec![1],
        // 7
        vec![7],
        // 1
        vec![1],
        // 3
        vec![3],
        // 7
        vec![7],
        // 9
        vec![9],
        // 0
        vec![0],
        // 10
        vec![10],
        // 12
        vec![12],
        // 4
        vec![4],
        // 7
        vec![7],
        // 2147483647
        vec![255, 255, 255, 127],
        // 2147483647
        vec![255, 255, 255, 127],
        // -12769
        vec![31, 206],
        // -1
        vec![255, 255],
        // 200
        vec![200, 0],
        // 1
        vec![1],
        // 1
        vec![1],
        // 1
        vec![1],
        // 1
        vec![1],
        // 1
        vec![1],
        // 1
        vec![1],
        // 41
        vec![41],
        // 18446744073709551615ul
        vec![255, 255, 255, 255, 255, 255, 255, 255],
        // 4731335575985943513ul
        vec![217, 115, 207, 127, 163, 20, 169, 65],
        // 9367233240261262080ul
        vec![0, 251, 0, 150, 0, 25, 255, 129],
        // 7061686295396352019ul
        vec![19, 0, 88, 112, 69, 38, 0, 98],
        // 7
        vec![7],
        // 14
        vec![14],
        // 32
        vec![32],
    ];
    kani::concrete_playback_run(concrete_vals, vk_c01_gen_pawn_captures);
}

//@playback-end
// failing check: "an attack test is missing" @ src/chess/movegen/gen.rs:952:9 in function chess::movegen::gen::verif_kani_c01::att_expect
