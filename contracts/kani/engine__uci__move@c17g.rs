//@@ module: engine/uci/move.rs
//@@ tag: c17g
//@@ noglob: String / format! / UciMove / Square are bound by scope to ghost stand-ins (support/gtext.rs)
// The printed long-algebraic form: body of UciMove::notation (verbatim from /repo on every run) and of Square::notation
// (support/gtext.rs, gsq) compiled against the ghost text library.  `Display` / `Debug` for UciMove write notation()
// (reviewed: both bodies are `write!(f, "{}", self.notation())`).
use crate::chess::piece::PromotionPieceKind;
use crate::verif_support::geo;

macro_rules! format { ($($t:tt)*) => { $crate::gtext_format!($($t)*) } }

pub mod g {
    #![no_implicit_prelude]
    use ::core::prelude::rust_2021::*;
    use crate::chess::piece::PromotionPieceKind;
    pub use crate::verif_support::gsq::Square;
    pub use crate::verif_support::gtext::{String, ToString};

    #[derive(Clone, Copy)]
    pub struct UciMove {
        pub src: Square,
        pub dst: Square,
        pub promotion: Option<PromotionPieceKind>,
    }
    impl UciMove {
        //@@ body: engine/uci/move.rs :: impl UciMove / fn notation => notation
    }
}

//@ obligation: C17.uci_move.text
//@ property: C17
//@ domain: complete
//@ functions: engine/uci/move.rs::UciMove::notation, chess/square.rs::Square::notation
//@ timeout: 300
//@ note: for every from-square, to-square and promotion piece the printed move is exactly <from file letter><from rank digit><to file letter><to rank digit> followed by the LOWER-CASE promotion letter n / b / r / q (nothing for a non-promotion) -- four or five bytes, no separators, no upper case
//@ assumes: ghost text library (support/gtext.rs) stands for alloc's String / format!: concatenation of Display renderings in order; Display for File / Rank writes notation(); Display / Debug for UciMove write notation()
#[kani::proof]
#[kani::unwind(8)]
fn vk_c17_uci_move_text() {
    let (s, d) = (geo::any_square(), geo::any_square());
    let promo = match kani::any::<u8>() % 5 {
        0 => Some(PromotionPieceKind::Knight),
        1 => Some(PromotionPieceKind::Bishop),
        2 => Some(PromotionPieceKind::Rook),
        3 => Some(PromotionPieceKind::Queen),
        _ => None,
    };
    let t = g::UciMove { src: g::Square(s), dst: g::Square(d), promotion: promo }.notation();
    kani::cover!(promo.is_none());
    kani::cover!(promo == Some(PromotionPieceKind::Knight));
    assert!(t.len() == if promo.is_some() { 5 } else { 4 });
    assert!(t.byte(0) == b'a' + s.idx() % 8 && t.byte(1) == b'1' + s.idx() / 8);
    assert!(t.byte(2) == b'a' + d.idx() % 8 && t.byte(3) == b'1' + d.idx() / 8);
    if let Some(p) = promo {
        assert!(t.byte(4) == match p {
            PromotionPieceKind::Knight => b'n',
            PromotionPieceKind::Bishop => b'b',
            PromotionPieceKind::Rook => b'r',
            PromotionPieceKind::Queen => b'q',
        });
    }
}

//@ obligation: C17.canary.uci_move_text
//@ property: C17
//@ canary: true
//@ timeout: 300
#[kani::proof]
#[kani::unwind(8)]
fn vk_c17_canary_uci_move_text() {
    let (s, d) = (geo::any_square(), geo::any_square());
    let t = g::UciMove { src: g::Square(s), dst: g::Square(d), promotion: None }.notation();
    assert!(t.byte(0) != b'h'); // must FAIL
}
