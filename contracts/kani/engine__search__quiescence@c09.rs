//@@ module: engine/search/quiescence.rs
//@@ tag: c09
//@@ noglob: names are bound to the ghost environment of the negamax contract file
//@@ needs: engine__search__negamax@c04.rs
// Body of `quiescence` (verbatim from /repo on every run) against the same callee contracts as negamax.
use crate::engine::eval::Eval;
use crate::engine::search::MAX_SEARCH_DEPTH;
use crate::engine::search::negamax::verif_kani_c04 as env;
use crate::engine::search::negamax::verif_kani_c04::{Game, MovePicker, SearchContext};

mod eval {
    pub use crate::engine::search::negamax::verif_kani_c04::eval_contract as eval;
}
/// the recursive call: one ply further, legal window, Err (stop) or a score in +-32000
pub fn quiescence(_g: &mut Game, alpha: Eval, beta: Eval, plies: u8, _ctx: &mut SearchContext<'_>) -> Result<Eval, ()> {
    let r = env::child_contract(alpha, beta, plies);
    if let Ok(e) = r {
        kani::assume(-31900 < e.0 && e.0 < 31900); // contract of quiescence: no mate scores
    }
    r
}

//@@ body: engine/search/quiescence.rs :: fn quiescence => quiescence__body

fn run_once() -> Result<Eval, ()> {
    let alpha = Eval(kani::any());
    let beta = Eval(kani::any());
    let plies: u8 = kani::any();
    kani::assume(env::window_ok(alpha, beta, plies));
    let (mut game, mut ctx) = env::any_game_ctx();
    env::reset(plies);
    quiescence__body(&mut game, alpha, beta, plies, &mut ctx)
}

//@ obligation: C04.quiescence.body_arith
//@ property: C04 C08
//@ domain: bounded(<= 3 moves handed out per node)
//@ functions: engine/search/quiescence.rs::quiescence
//@ timeout: 1800
//@ mem_gb: 8
//@ note: one invocation of the quiescence body for every legal window, EVERY distance from the root (0..=255: the body stops at 255 before `plies + 1` can overflow and before the 255-row killer table is read), every evaluation and every callee behaviour within contract: no overflow, children searched one ply further with legal windows, result strictly inside the non-mate band +-31900 (quiescence never produces mate scores), position restored on Ok
//@ assumes: callee contracts listed in engine__search__negamax@c04.rs; at most 3 moves per node (bound)
#[kani::proof]
#[kani::unwind(5)]
fn vk_c04_quiescence_body_arith() {
    let r = run_once();
    kani::cover!(r.is_ok() && unsafe { env::CHILD_CALLS } >= 3);
    if let Ok(e) = r {
        assert!(-31900 < e.0 && e.0 < 31900, "quiescence must not produce mate scores");
        assert!(unsafe { env::MADE } == 0, "the position is not restored on an Ok return");
    }
}

//@ obligation: C09.unwind.quiescence
//@ property: C09 C04
//@ domain: bounded(<= 3 moves handed out per node)
//@ functions: engine/search/quiescence.rs::quiescence
//@ timeout: 1800
//@ mem_gb: 8
//@ note: whichever poll or child first reports "stop", the quiescence body examines nothing further and returns Err; Err is only returned after a stop (a stop is never swallowed into an ordinary score)
//@ assumes: callee contracts listed in engine__search__negamax@c04.rs; at most 3 moves per node (bound)
#[kani::proof]
#[kani::unwind(5)]
fn vk_c09_unwind_quiescence() {
    let r = run_once();
    kani::cover!(r.is_err() && unsafe { env::CHILD_CALLS } >= 1);
    kani::cover!(r.is_ok());
    assert!(r.is_err() == unsafe { env::ABORTED });
}
