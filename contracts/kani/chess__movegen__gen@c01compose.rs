//@@ module: chess/movegen/gen.rs
//@@ tag: c01compose
// LEMMA OVER CONTRACTS (no engine code runs here): on every legal position with at most 5 men, a candidate move is
// FIDE-legal iff it lies in the union of the sets the generator contracts prescribe (C01.gen.*, C01.orchestrate.*,
// C01.pins.*, evaluated with the specification-level cache).  Together with those contracts: the generated list is the
// FIDE legal-move set.  Both sides are written in support/compose.rs.
use crate::chess::piece::{Piece, PieceKind};
use crate::chess::player::Player;
use crate::verif_support::compose::{self, Cand, Class, Pos, MEN};
use crate::verif_support::geo;

fn any_kind_promo() -> PieceKind {
    match kani::any::<u8>() % 4 {
        0 => PieceKind::Knight,
        1 => PieceKind::Bishop,
        2 => PieceKind::Rook,
        _ => PieceKind::Queen,
    }
}
fn any_piece() -> Piece {
    let k: usize = kani::any();
    kani::assume(k < 6);
    Piece::new(geo::any_player(), PieceKind::ALL[k])
}
fn any_pos() -> Pos {
    let mut p = Pos {
        sq: [0; MEN],
        pc: [None; MEN],
        side: geo::any_player(),
        rights: [[kani::any(), kani::any()], [kani::any(), kani::any()]],
        ep: if kani::any() { Some(geo::any_square().idx()) } else { None },
    };
    let mut i = 0;
    while i < MEN {
        p.sq[i] = geo::any_square().idx();
        p.pc[i] = if i == 0 {
            Some(Piece::WHITE_KING)
        } else if i == 1 {
            Some(Piece::BLACK_KING)
        } else if kani::any() {
            Some(any_piece())
        } else {
            None
        };
        i += 1;
    }
    kani::assume(compose::legal_position(&p));
    p
}
fn any_cand() -> Cand {
    let class = match kani::any::<u8>() % 6 {
        0 => Class::Quiet,
        1 => Class::Capture,
        2 => Class::EnPassant,
        3 => Class::Castle,
        4 => Class::Promo(any_kind_promo()),
        _ => Class::CapPromo(any_kind_promo()),
    };
    Cand { src: geo::any_square().idx(), dst: geo::any_square().idx(), class }
}

//@ obligation: C01.compose.legal_iff_generated
//@ property: C01
//@ tier: thorough
//@ domain: bounded(<= 5 men: both kings + 3 arbitrary men)
//@ functions: chess/movegen/gen.rs::generate_legal_moves
//@ timeout: 7200
//@ mem_gb: 16
//@ note: lemma over contracts: for every legal position (both kings once, side not to move not in check, no pawns on back ranks, rights and ep target consistent) with at most 5 men and every candidate (from, to, quiet | capture | en passant | castle | promotion(p) | capturing promotion(p)): the candidate is legal under the FIDE rules (pseudo-legal for its class and own king not attacked afterwards) IFF it belongs to the union of the generator contract sets computed with the specification-level cache (checkers, check mask = between + checker, pin rays, double check => king moves only).  Covers ep + pins on ranks and diagonals, double check, castling through attack, pinned sliders/pawns along the ray, promotions in check -- each involves at most 5-6 men
//@ assumes: the bound of 5 men
#[kani::proof]
#[kani::unwind(10)]
fn vk_c01_compose_legal_iff_generated() {
    let p = any_pos();
    let c = any_cand();
    let a = compose::fide_legal(&p, &c);
    let b = compose::in_generator_sets(&p, &c);
    kani::cover!(a && matches!(c.class, Class::EnPassant));
    kani::cover!(a && matches!(c.class, Class::Castle));
    kani::cover!(!a && matches!(c.class, Class::Capture));
    assert!(a == b);
}
