//@@ module: chess/movegen/tables/between.rs
//@@ tag: c07bb
//@@ needs: chess__bitboard@iter.rs
// BLACK-BOX obligation on the squares-between TABLE through its public surface only (init() and between()): it names neither
// the generator function nor its signature, so it keeps deciding when the way a cell is computed is rewritten (the
// function-level obligations C07.walk.between / C07.tables.between_init_writes name generate_squares_between and lose their
// anchor then).  MEASURED: executing the whole real init() (4096 cells) in CBMC is too slow (10 of 64 rows in 1000 s), so the
// two `for .. in Bitboard::FULL` loops run in one-shot form (each yields ONE arbitrary square: C07.bitboard.square_iterator),
// i.e. the obligation is about the arbitrary cell [s1][s2] that init() fills.
use crate::verif_support::geo;
use crate::chess::bitboard::verif_kani_iter as iter;
use crate::chess::bitboard::verif_kani_iter::one_shot_square_next;

//@ obligation: C07.between.table_blackbox
//@ domain: complete
//@ functions: chess/movegen/tables/between.rs::init, chess/movegen/tables/between.rs::between
//@ timeout: 1800
//@ mem_gb: 8
//@ note: for the arbitrary pair (s1, s2) that the real init() visits (its two loops in one-shot form), whatever code computes the cell: afterwards between(s1, s2) is the open segment between s1 and s2 when they share a rank, file or diagonal, and empty otherwise -- in particular for s1 == s2
//@ assumes: loop iterations of `init` are independent (by inspection: the loop bodies declare all their locals); one-shot iterator contract (C07.bitboard.square_iterator)
#[kani::proof]
#[kani::unwind(10)]
#[kani::stub(<crate::chess::bitboard::SquareIterator as std::iter::Iterator>::next, one_shot_square_next)]
fn vk_c07_between_table_blackbox() {
    iter::rec_reset();
    init();
    let (a, b) = (iter::yielded(0), iter::yielded(1));
    assert!(iter::calls() == 2);
    let want = geo::between(a.idx(), b.idx()).unwrap_or(0);
    kani::cover!(a == b);
    kani::cover!(want.count_ones() == 6);
    assert!(between(a, b).as_u64() == want, "squares-between table differs from the geometric definition");
}
