//@@ module: engine/search/move_picker.rs
//@@ tag: c10bb
//@@ noglob: the picker's own items are re-declared here, so the parent module is not glob-imported
// BLACK-BOX STREAM FORM of C10 (second line of defence next to the per-call inductive form of @c10.rs, whose structural
// invariant names the picker's private cursors and therefore loses its anchor when the picker's state is refactored):
// this file touches ONLY MovePicker::new / new_loud / next, so it keeps deciding after such a refactor -- at the price of a
// small list bound (the whole stream is unrolled in one query).
// MEASURED: does NOT fit -- 2 captures + 1 quiet: 10 GB exceeded after 170 s; 1 capture + 1 quiet: > 7 GB and growing after
// 5 min (each call of next unrolls the 11-stage loop around the selection loops).  Kept *experimental*; a refactor of the
// picker's private state therefore still ends as ANCHOR-LOST (exit 2), not as a decided violation (seed C10c).
// The whole MovePicker (struct, stage enum, impl block -- whatever items it consists of -- text copied verbatim from
// /repo on every run) is verified against the CONTRACTS of its callees, which are rebound by scope in this module:
//   movegen::generate_captures / generate_quiets  -> append an ARBITRARY duplicate-free list of capture-class /
//        quiet-class moves (exactly what C01 proves about the real generators: no duplicates, classes disjoint);
//   score_tactical / score_quiet                  -> ARBITRARY i32 scores;
//   ctx.killer_moves / ctx.countermove_table      -> ARBITRARY remembered moves (present in the list or not);
//   game.history.last()                           -> arbitrary previous move or none.
use crate::verif_support::geo;
use crate::chess::player::Player;
use crate::chess::piece::PromotionPieceKind;
use crate::chess::square::Square;
use crate::chess::moves::Move;
use crate::engine::search::move_ordering;

pub const NC: usize = 1; // bound on the number of generated captures
pub const NQ: usize = 1; // bound on the number of generated quiets

// ---- ghost stand-ins for the types the body only reads through the callees below ----
pub struct GhostEntry {
    pub mv: Option<Move>,
}
pub struct GhostHistory(pub Option<GhostEntry>);
impl GhostHistory {
    pub fn last(&self) -> Option<&GhostEntry> {
        self.0.as_ref()
    }
}
pub struct Game {
    pub player: Player,
    pub history: GhostHistory,
}
pub struct GhostKillers(pub Option<Move>, pub Option<Move>);
impl GhostKillers {
    pub fn get_0(&self, _plies: u8) -> Option<Move> {
        self.0
    }
    pub fn get_1(&self, _plies: u8) -> Option<Move> {
        self.1
    }
}
pub struct GhostCounter(pub Option<Move>);
impl GhostCounter {
    pub fn get(&self, _player: Player, _previous: Move) -> Option<Move> {
        self.0
    }
}
pub struct GhostHist;
pub struct SearchContext<'a> {
    pub killer_moves: GhostKillers,
    pub countermove_table: GhostCounter,
    pub history_table: &'a GhostHist,
}

pub static mut CAPS: [Option<Move>; NC] = [None; NC];
pub static mut QUIETS: [Option<Move>; NQ] = [None; NQ];
pub static mut GEN_CAPTURES_CALLS: u8 = 0;
pub static mut GEN_QUIETS_CALLS: u8 = 0;

mod movegen {
    use super::*;
    pub fn generate_captures(_game: &Game, moves: &mut MoveList, _cache: &mut MovegenCache) {
        unsafe {
            GEN_CAPTURES_CALLS += 1;
            let mut i = 0;
            while i < NC {
                if let Some(m) = CAPS[i] {
                    moves.push(m);
                }
                i += 1;
            }
        }
    }
    pub fn generate_quiets(_game: &Game, moves: &mut MoveList, _cache: &MovegenCache) {
        unsafe {
            GEN_QUIETS_CALLS += 1;
            let mut i = 0;
            while i < NQ {
                if let Some(m) = QUIETS[i] {
                    moves.push(m);
                }
                i += 1;
            }
        }
    }
}
fn score_tactical(_game: &Game, _mv: Move) -> i32 {
    kani::any()
}
fn score_quiet(_game: &Game, _mv: Move, _h: &GhostHist) -> i32 {
    kani::any()
}

// ---- the picker itself: struct, stage enum and the whole impl block are copied VERBATIM from /repo on every run.
// In this module the names MoveList / MovegenCache / MAX_MOVES are bound to small stand-ins, so the picker's list is a
// bounded vector of capacity 6 (ASSUMED: ArrayVec<Move, 218> behaves as a bounded vector -- len/get/push/swap -- and the
// real capacity 218 <= MAX_MOVES = 255 score slots, checked by C10.capacity).
pub const LIST_CAP: usize = 2;
const MAX_MOVES: usize = LIST_CAP;
pub struct MovegenCache;
impl MovegenCache {
    pub fn new() -> Self {
        MovegenCache
    }
}
const DUMMY: Move = Move::quiet(Square::from_index(0), Square::from_index(1));
pub struct MoveList {
    items: [Move; LIST_CAP],
    n: usize,
}
impl MoveList {
    pub fn new() -> Self {
        MoveList { items: [DUMMY; LIST_CAP], n: 0 }
    }
    pub fn len(&self) -> usize {
        self.n
    }
    pub fn get(&self, i: usize) -> Option<&Move> {
        if i < self.n { Some(&self.items[i]) } else { None }
    }
    pub fn push(&mut self, m: Move) {
        assert!(self.n < LIST_CAP);
        self.items[self.n] = m;
        self.n += 1;
    }
    /// slice::swap semantics: panics when an index is out of range
    pub fn swap(&mut self, a: usize, b: usize) {
        assert!(a < self.n && b < self.n, "swap index out of range");
        let t = self.items[a];
        self.items[a] = self.items[b];
        self.items[b] = t;
    }
}
//@@ item: engine/search/move_picker.rs :: enum GenStage
//@@ item: engine/search/move_picker.rs :: struct MovePicker
//@@ item: engine/search/move_picker.rs :: impl MovePicker

fn any_promo() -> PromotionPieceKind {
    match kani::any::<u8>() % 4 {
        0 => PromotionPieceKind::Knight,
        1 => PromotionPieceKind::Bishop,
        2 => PromotionPieceKind::Rook,
        _ => PromotionPieceKind::Queen,
    }
}
/// a move of the kind generate_captures produces: capture, en passant, capturing promotion or queen push-promotion
fn any_capture_class() -> Move {
    let (s, d) = (geo::any_square(), geo::any_square());
    kani::assume(s != d);
    match kani::any::<u8>() % 4 {
        0 => Move::capture(s, d),
        1 => Move::en_passant(s, d),
        2 => Move::capture_promotion(s, d, any_promo()),
        _ => Move::quiet_promotion(s, d, PromotionPieceKind::Queen),
    }
}
/// a move of the kind generate_quiets produces: quiet, castling or under-promotion by pushing
fn any_quiet_class() -> Move {
    let (s, d) = (geo::any_square(), geo::any_square());
    kani::assume(s != d);
    match kani::any::<u8>() % 3 {
        0 => Move::quiet(s, d),
        1 => Move::castles(s, d),
        _ => {
            let p = any_promo();
            kani::assume(p != PromotionPieceKind::Queen);
            Move::quiet_promotion(s, d, p)
        }
    }
}
fn any_move() -> Move {
    if kani::any() { any_capture_class() } else { any_quiet_class() }
}
fn any_move_opt() -> Option<Move> {
    if kani::any() { Some(any_move()) } else { None }
}

/// fills CAPS / QUIETS with arbitrary duplicate-free lists (prefix-closed); returns (nc, nq)
fn any_lists() -> (usize, usize) {
    let nc: usize = kani::any();
    let nq: usize = kani::any();
    kani::assume(nc <= NC && nq <= NQ);
    unsafe {
        let mut i = 0;
        while i < NC {
            CAPS[i] = if i < nc { Some(any_capture_class()) } else { None };
            let mut j = 0;
            while j < i {
                kani::assume(CAPS[i].is_none() || CAPS[i] != CAPS[j]);
                j += 1;
            }
            i += 1;
        }
        let mut i = 0;
        while i < NQ {
            QUIETS[i] = if i < nq { Some(any_quiet_class()) } else { None };
            let mut j = 0;
            while j < i {
                kani::assume(QUIETS[i].is_none() || QUIETS[i] != QUIETS[j]);
                j += 1;
            }
            i += 1;
        }
    }
    (nc, nq)
}
fn in_caps(m: Move) -> bool {
    unsafe {
        let mut r = false;
        let mut i = 0;
        while i < NC {
            r = r || CAPS[i] == Some(m);
            i += 1;
        }
        r
    }
}
fn in_quiets(m: Move) -> bool {
    unsafe {
        let mut r = false;
        let mut i = 0;
        while i < NQ {
            r = r || QUIETS[i] == Some(m);
            i += 1;
        }
        r
    }
}

fn stream(loud: bool) {
    let (nc, nq) = any_lists();
    let hash = if loud { None } else { any_move_opt() };
    // the property's precondition: the hash move is a legal move of the position, or there is none
    if let Some(h) = hash {
        kani::assume(in_caps(h) || in_quiets(h));
    }
    let game = Game { player: geo::any_player(), history: GhostHistory(if kani::any() { Some(GhostEntry { mv: any_move_opt() }) } else { None }) };
    let hist = GhostHist;
    // remembered moves: arbitrary, legal here or not
    let ctx = SearchContext { killer_moves: GhostKillers(any_move_opt(), any_move_opt()), countermove_table: GhostCounter(any_move_opt()), history_table: &hist };
    let plies: u8 = kani::any();
    let mut picker = if loud { MovePicker::new_loud() } else { MovePicker::new(hash) };
    let total = if loud { nc } else { nc + nq };
    let mut out: [Option<Move>; NC + NQ + 1] = [None; NC + NQ + 1];
    let mut k = 0;
    while k < NC + NQ + 1 {
        out[k] = picker.next(&game, &ctx, plies);
        k += 1;
    }
    kani::cover!(total == NC + NQ && hash.is_some());
    kani::cover!(nc == NC);
    // exactly `total` moves, then None for good
    let mut k = 0;
    while k < NC + NQ + 1 {
        assert!(out[k].is_some() == (k < total));
        if let Some(m) = out[k] {
            // every yielded move is one of the generated (legal) moves ...
            assert!(in_caps(m) || (!loud && in_quiets(m)));
            // ... and was not yielded before
            let mut j = 0;
            while j < k {
                assert!(out[j] != Some(m));
                j += 1;
            }
        }
        k += 1;
    }
    // the generators ran at most once each
    unsafe {
        assert!(GEN_CAPTURES_CALLS <= 1 && GEN_QUIETS_CALLS <= 1);
    }
}

//@ obligation: C10.blackbox.stream_full
//@ status: experimental
//@ domain: bounded(<= 1 capture + <= 1 quiet)
//@ functions: engine/search/move_picker.rs::MovePicker::next, engine/search/move_picker.rs::MovePicker::new
//@ timeout: 1500
//@ mem_gb: 12
//@ note: public API only: for every duplicate-free capture list (<= 1) and quiet list (<= 1), every score assignment, every hash move (in the lists or none), ARBITRARY killer pair / counter move / previous move (in the lists or not, equal to each other or not): calling next until it is exhausted yields every generated move exactly once and then None
//@ assumes: callee contracts of generate_captures / generate_quiets (C01: duplicate-free, classes disjoint); list length bound 1+1
#[kani::proof]
#[kani::unwind(6)]
fn vk_c10_blackbox_stream_full() {
    stream(false);
}

//@ obligation: C10.blackbox.stream_loud
//@ status: experimental
//@ domain: bounded(<= 1 capture)
//@ functions: engine/search/move_picker.rs::MovePicker::next, engine/search/move_picker.rs::MovePicker::new_loud
//@ timeout: 1500
//@ mem_gb: 12
//@ note: public API only, captures-only variant: yields exactly the generated capture-class moves, each once, then None, never calls the quiet generator
#[kani::proof]
#[kani::unwind(6)]
fn vk_c10_blackbox_stream_loud() {
    stream(true);
    assert!(unsafe { GEN_QUIETS_CALLS } == 0);
}

//@ obligation: C10.canary.blackbox
//@ status: experimental
//@ canary: true
//@ timeout: 1500
//@ mem_gb: 12
#[kani::proof]
#[kani::unwind(6)]
fn vk_c10_canary_blackbox() {
    let (nc, nq) = any_lists();
    let game = Game { player: geo::any_player(), history: GhostHistory(None) };
    let hist = GhostHist;
    let ctx = SearchContext { killer_moves: GhostKillers(None, None), countermove_table: GhostCounter(None), history_table: &hist };
    let mut picker = MovePicker::new(None);
    let first = picker.next(&game, &ctx, 0);
    assert!(first.is_none()); // must FAIL: a non-empty list yields a move
}
