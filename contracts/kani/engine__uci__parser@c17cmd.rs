//@@ module: engine/uci/parser.rs
//@@ tag: c17cmd
//@@ noglob: nom / Vec / String and the command types are bound by scope to ghost stand-ins (support/gnom.rs, support/gtext.rs)
//@@ needs: engine__uci__parser@c17p.rs
// THE `position` AND `setoption` COMMAND LINES UNDER CONTRACT: bodies of cmd_position (with its nested position_arg /
// moves_arg) and cmd_setoption, copied verbatim from /repo on every run into a #![no_implicit_prelude] scope where `nom::...`
// resolves to the ghost parser-combinator library and String / Vec to bounded ghost containers; the command enums
// (Position, UciCommand, GoCmdArguments, DebugCommand) are /repo's own item texts compiled in that scope.
// Callee contracts: uci_moves -> tagging contract (one-letter move tokens; what a move list really is: C17.uci_moves.list,
// C17.uci_move.parse); command_with_argument(cmd, arg, f) -> `cmd` space1 arg, mapped by f (its three-line generic text over
// nom's Parser / ParseError traits is NOT copied: reviewed).
use crate::verif_support::geo;

pub mod g {
    #![no_implicit_prelude]
    use ::core::prelude::rust_2021::*;
    use crate::verif_support::gnom as nom;
    use crate::verif_support::gnom::{
        branch::alt,
        bytes::complete::{tag, take_until},
        character::complete::{space0, space1},
        combinator::{map, opt, rest, value},
        sequence::{pair, preceded},
        IResult,
    };
    pub use crate::verif_support::gnom::Vec;
    pub use crate::verif_support::gtext::{String, ToString};
    use crate::chess::square::Square;
    pub use crate::engine::uci::UciMove;
    use ::std::time::Duration;

    //@@ item: engine/uci/commands.rs :: enum Position
    //@@ item: engine/uci/commands.rs :: struct GoCmdArguments
    //@@ item: engine/uci/commands.rs :: enum DebugCommand
    //@@ item: engine/uci/commands.rs :: enum UciCommand

    /// CONTRACT of command_with_argument: the keyword, one or more spaces/tabs, the argument; the argument's value mapped
    pub fn command_with_argument<'a, F, G, OInner, O>(cmd: &'static str, argument_combinator: F, map_argument_fn: G) -> impl FnMut(&'a str) -> IResult<&'a str, O>
    where
        F: FnMut(&'a str) -> IResult<&'a str, OInner>,
        G: FnMut(OInner) -> O,
    {
        map(preceded(pair(tag(cmd), space1), argument_combinator), map_argument_fn)
    }
    /// CONTRACT of uci_moves (C17.uci_moves.list over C17.uci_move.parse), with one-letter move tokens a..z:
    /// token (space+ token)*, a dangling separator is left unconsumed
    pub fn uci_moves(input: &str) -> IResult<&str, Vec<UciMove>> {
        let b = input.as_bytes();
        let tok = |c: u8| c >= b'a' && c <= b'z';
        let sp = |c: u8| c == b' ' || c == b'\t';
        if !(b.len() > 0 && tok(b[0])) {
            return Err(nom::Err::Error(nom::error::Error::new(input, nom::error::ErrorKind::OneOf)));
        }
        let mk = |c: u8| UciMove { src: Square::from_index(c - b'a'), dst: Square::from_index(63), promotion: None };
        let mut v = Vec::new();
        v.push(mk(b[0]));
        let mut end = 1;
        let mut stop = false;
        let mut it = 0;
        while it < 3 {
            if !stop {
                let mut q = end;
                let mut c = 0;
                while c < 4 {
                    if q < b.len() && sp(b[q]) {
                        q += 1;
                    }
                    c += 1;
                }
                // (longer space runs / more than four moves: outside the bound of the obligations below)
                if q > end && q < b.len() && tok(b[q]) {
                    v.push(mk(b[q]));
                    end = q + 1;
                } else {
                    stop = true;
                }
            }
            it += 1;
        }
        Ok((&input[end..], v))
    }
    //@@ body: engine/uci/parser.rs :: fn cmd_position => cmd_position pub
    //@@ body: engine/uci/parser.rs :: fn cmd_setoption => cmd_setoption pub
}

const N: usize = 30;
fn sp(c: u8) -> bool {
    c == b' ' || c == b'\t'
}
fn starts(b: &[u8; N], n: usize, at: usize, lit: &[u8]) -> bool {
    if at + lit.len() > n {
        return false;
    }
    let mut ok = true;
    let mut i = 0;
    while i < lit.len() {
        if b[at + i] != lit[i] {
            ok = false;
        }
        i += 1;
    }
    ok
}
/// skip a run of spaces/tabs (at most 4 -- the obligations keep runs that short)
fn skip(b: &[u8; N], n: usize, mut j: usize) -> usize {
    let mut c = 0;
    while c < 4 {
        if j < n && sp(b[j]) {
            j += 1;
        }
        c += 1;
    }
    j
}

/// fills buf with: `head` (concrete), then symbolic ASCII bytes up to a symbolic total length n <= N
fn template(buf: &mut [u8; N], head: &[u8]) -> usize {
    let n: usize = kani::any();
    kani::assume(n <= N);
    let mut i = 0;
    while i < N {
        if i < head.len() {
            buf[i] = head[i];
        } else {
            buf[i] = kani::any();
            kani::assume(buf[i] < 128);
        }
        i += 1;
    }
    n
}

fn check_position(head: &[u8]) {
    let mut buf = [0u8; N];
    let n = template(&mut buf, head);
    let s = unsafe { core::str::from_utf8_unchecked(&buf[..n]) };
    let r = g::cmd_position(s);
    // ---------------- independent recogniser ----------------
    let b = &buf;
    let mut ok = starts(b, n, 0, b"position");
    let mut j = 8;
    if ok {
        let k = skip(b, n, j);
        // (space runs longer than 4: outside the bound)
        kani::assume(!(k < n && sp(b[k])));
        ok = k > j;
        j = k;
    }
    let mut is_fen = false;
    let (mut fen_lo, mut fen_hi) = (0usize, 0usize);
    if ok {
        if starts(b, n, j, b"startpos") {
            j += 8;
        } else if starts(b, n, j, b"fen") {
            let k = skip(b, n, j + 3);
            kani::assume(!(k < n && sp(b[k])));
            if k > j + 3 {
                is_fen = true;
                fen_lo = k;
                // the FEN text runs to the first " moves" or to the end
                let mut found = n + 1;
                let mut q = 0;
                while q < N {
                    if q >= k && found > n && starts(b, n, q, b" moves") {
                        found = q;
                    }
                    q += 1;
                }
                fen_hi = if found <= n { found } else { n };
                j = fen_hi;
            } else {
                ok = false;
            }
        } else {
            ok = false;
        }
    }
    // optional spaces, then optionally: moves <space+> <move list>
    let mut want = [0u8; 4];
    let mut nm = 0usize;
    let mut j_tok = j; // end of the last meaningful token (separating / trailing spaces may or may not be consumed)
    if ok {
        let k = skip(b, n, j);
        kani::assume(!(k < n && sp(b[k])));
        j = k;
        if starts(b, n, j, b"moves") {
            let k2 = skip(b, n, j + 5);
            kani::assume(!(k2 < n && sp(b[k2])));
            if k2 > j + 5 && k2 < n && b[k2] >= b'a' && b[k2] <= b'z' {
                want[0] = b[k2];
                nm = 1;
                let mut end = k2 + 1;
                let mut stop = false;
                let mut it = 0;
                while it < 3 {
                    if !stop {
                        let q = skip(b, n, end);
                        kani::assume(!(q < n && sp(b[q])));
                        if q > end && q < n && b[q] >= b'a' && b[q] <= b'z' {
                            want[nm] = b[q];
                            nm += 1;
                            end = q + 1;
                        } else {
                            stop = true;
                        }
                    }
                    it += 1;
                }
                // (a fifth move: outside the bound)
                if !stop {
                    let q = skip(b, n, end);
                    kani::assume(!(q > end && q < n && b[q] >= b'a' && b[q] <= b'z'));
                }
                j = end;
                j_tok = end;
            }
        }
    }
    let j_sp = if ok { skip(b, n, j_tok) } else { j_tok };
    kani::cover!(ok && nm == 2);
    kani::cover!(ok && is_fen && fen_hi < n);
    kani::cover!(ok && nm == 0 && j < n);
    match r {
        Ok((rest, cmd)) => {
            assert!(ok, "a line that is not a position command was accepted");
            // whether the spaces after the last token are consumed is immaterial (the caller strips them): anything between
            // "up to the last token" and "plus the spaces that follow it" is right
            let consumed = n - rest.len();
            assert!(j_tok <= consumed && consumed <= j_sp, "position command: wrong amount of input consumed");
            match cmd {
                g::UciCommand::Position { position, moves } => {
                    match position {
                        g::Position::StartPos => assert!(!is_fen, "fen given but startpos returned"),
                        g::Position::Fen(t) => {
                            assert!(is_fen, "startpos given but a fen returned");
                            assert!(t.len() == fen_hi - fen_lo, "FEN text cut at the wrong place");
                            let mut i = 0;
                            while i < N {
                                if i < t.len() {
                                    assert!(t.byte(i) == b[fen_lo + i], "FEN text altered");
                                }
                                i += 1;
                            }
                        }
                    }
                    assert!(moves.len() == nm, "wrong number of moves read");
                    let mut i = 0;
                    while i < 4 {
                        if i < nm {
                            assert!(moves[i].src.idx() == want[i] - b'a', "moves read out of order, skipped or repeated");
                        }
                        i += 1;
                    }
                }
                _ => assert!(false, "position command parsed as another command"),
            }
        }
        Err(_) => assert!(!ok, "a well-formed position command was rejected"),
    }
}

//@ obligation: C17.position_cmd.startpos
//@ property: C17
//@ domain: bounded(line = 'position' + <= 22 further ASCII bytes; space runs <= 4; <= 4 one-letter move tokens)
//@ functions: engine/uci/parser.rs::cmd_position
//@ timeout: 2400
//@ mem_gb: 10
//@ note: cmd_position against callee contracts, on every line that starts with 'position' and goes on with arbitrary ASCII: it is total; accepts exactly: spaces, then 'startpos' or 'fen' + spaces + the FEN text (which runs up to the first ' moves' or to the end of the line, unaltered), then optional spaces, then optionally 'moves' + spaces + a move list; returns StartPos / Fen(text) and the moves of the list in order (no list = no moves), and the unconsumed rest (the spaces after the last token may or may not be consumed)
//@ assumes: ghost nom library; ghost String / Vec; callee contracts uci_moves (C17.uci_moves.list) and command_with_argument (reviewed)
#[kani::proof]
#[kani::unwind(32)]
fn vk_c17_position_cmd_startpos() {
    check_position(b"position");
}

//@ obligation: C17.position_cmd.fen
//@ property: C17
//@ domain: bounded(line = 'position fen ' + <= 17 further ASCII bytes; space runs <= 4; <= 4 one-letter move tokens)
//@ functions: engine/uci/parser.rs::cmd_position
//@ timeout: 2400
//@ mem_gb: 10
//@ note: as C17.position_cmd.startpos with the concrete prefix 'position fen ' (so that more of the symbolic budget goes into the FEN text / ' moves' boundary / move list)
//@ assumes: as C17.position_cmd.startpos
#[kani::proof]
#[kani::unwind(32)]
fn vk_c17_position_cmd_fen() {
    check_position(b"position fen ");
}

//@ obligation: C13.setoption_cmd.name_value
//@ property: C13
//@ domain: bounded(line = 'setoption name ' + <= 15 further ASCII bytes; space runs <= 4)
//@ functions: engine/uci/parser.rs::cmd_setoption
//@ timeout: 2400
//@ mem_gb: 10
//@ note: cmd_setoption against callee contracts, on every line that starts with 'setoption name ' and goes on with arbitrary ASCII: it is total; accepts exactly: a name (the text up to the first ' value', which may contain spaces -- 'Move Overhead'), spaces, 'value', spaces, and the value = the WHOLE rest of the line; returns name and value unaltered
//@ assumes: ghost nom library; ghost String; callee contract command_with_argument (reviewed)
#[kani::proof]
#[kani::unwind(32)]
fn vk_c13_setoption_cmd_name_value() {
    let mut buf = [0u8; N];
    let n = template(&mut buf, b"setoption name ");
    let s = unsafe { core::str::from_utf8_unchecked(&buf[..n]) };
    let r = g::cmd_setoption(s);
    let b = &buf;
    // recogniser: "setoption" sp+ "name" sp+ NAME(" value" first occurrence) sp+ "value" sp+ REST
    let mut ok = n >= 15;
    let mut j = 15;
    if ok {
        let k = skip(b, n, j);
        kani::assume(!(k < n && sp(b[k])));
        j = k;
    }
    let (mut name_lo, mut name_hi, mut val_lo) = (0usize, 0usize, 0usize);
    if ok {
        name_lo = j;
        let mut found = n + 1;
        let mut q = 0;
        while q < N {
            if q >= j && found > n && starts(b, n, q, b" value") {
                found = q;
            }
            q += 1;
        }
        if found <= n {
            name_hi = found;
            // space1, "value", space1
            let k = skip(b, n, found);
            kani::assume(!(k < n && sp(b[k])));
            if starts(b, n, k, b"value") {
                let k2 = skip(b, n, k + 5);
                kani::assume(!(k2 < n && sp(b[k2])));
                if k2 > k + 5 {
                    val_lo = k2;
                } else {
                    ok = false;
                }
            } else {
                ok = false;
            }
        } else {
            ok = false;
        }
    }
    kani::cover!(ok && name_hi > name_lo + 3);
    kani::cover!(!ok && n > 20);
    match r {
        Ok((rest, cmd)) => {
            assert!(ok, "a line that is not a setoption command was accepted");
            assert!(rest.len() == 0);
            match cmd {
                g::UciCommand::SetOption { name, value } => {
                    assert!(name.len() == name_hi - name_lo && value.len() == n - val_lo, "option name / value cut at the wrong place");
                    let mut i = 0;
                    while i < N {
                        if i < name.len() {
                            assert!(name.byte(i) == b[name_lo + i]);
                        }
                        if i < value.len() {
                            assert!(value.byte(i) == b[val_lo + i]);
                        }
                        i += 1;
                    }
                }
                _ => assert!(false, "setoption parsed as another command"),
            }
        }
        Err(_) => assert!(!ok, "a well-formed setoption command was rejected"),
    }
}

//@ obligation: C17.canary.position_cmd
//@ property: C17
//@ canary: true
//@ timeout: 2400
//@ mem_gb: 10
#[kani::proof]
#[kani::unwind(32)]
fn vk_c17_canary_position_cmd() {
    let mut buf = [0u8; N];
    let n = template(&mut buf, b"position startpos");
    let s = unsafe { core::str::from_utf8_unchecked(&buf[..n]) };
    assert!(g::cmd_position(s).is_err()); // must FAIL
}
