//@@ module: engine/search/move_picker.rs
//@@ tag: c10
//@@ noglob: the picker's own items are re-declared here, so the parent module is not glob-imported
// The whole MovePicker (struct, stage enum, impl block: new, new_loud, next, next_best_move -- text copied verbatim from
// /repo on every run) is verified against the CONTRACTS of its callees, which are rebound by scope in this module:
//   movegen::generate_captures / generate_quiets  -> append an ARBITRARY duplicate-free list of capture-class /
//        quiet-class moves (exactly what C01 proves about the real generators: no duplicates, classes disjoint);
//   score_tactical / score_quiet                  -> ARBITRARY i32 scores;
//   ctx.killer_moves / ctx.countermove_table      -> ARBITRARY remembered moves (present in the list or not);
//   game.history.last()                           -> arbitrary previous move or none.
use crate::verif_support::geo;
use crate::chess::player::Player;
use crate::chess::piece::PromotionPieceKind;
use crate::chess::square::Square;
use crate::chess::moves::Move;
use crate::engine::search::move_ordering;

pub const NC: usize = 3; // bound on the number of generated captures
pub const NQ: usize = 3; // bound on the number of generated quiets

// ---- ghost stand-ins for the types the body only reads through the callees below ----
pub struct GhostEntry {
    pub mv: Option<Move>,
}
pub struct GhostHistory(pub Option<GhostEntry>);
impl GhostHistory {
    pub fn last(&self) -> Option<&GhostEntry> {
        self.0.as_ref()
    }
}
/// ghost board: the two occupancies (arbitrary, but CONSISTENT with the generated lists -- see consistent_with_lists) and
/// what stands on a square; enough for a plausibility filter on remembered moves to be compiled here and judged
pub struct GhostBoard {
    pub ours: crate::chess::bitboard::Bitboard,
    pub theirs: crate::chess::bitboard::Bitboard,
    pub player: Player,
}
impl GhostBoard {
    pub fn occupancy_for(&self, p: Player) -> crate::chess::bitboard::Bitboard {
        if p == self.player { self.ours } else { self.theirs }
    }
    pub fn occupancy(&self) -> crate::chess::bitboard::Bitboard {
        self.ours | self.theirs
    }
    pub fn piece_at(&self, s: Square) -> Option<crate::chess::piece::Piece> {
        if self.ours.contains(s) {
            Some(crate::chess::piece::Piece::new(self.player, crate::chess::piece::PieceKind::ALL[(kani::any::<u8>() % 6) as usize]))
        } else if self.theirs.contains(s) {
            Some(crate::chess::piece::Piece::new(self.player.other(), crate::chess::piece::PieceKind::ALL[(kani::any::<u8>() % 5) as usize]))
        } else {
            None
        }
    }
}
pub struct Game {
    pub player: Player,
    pub history: GhostHistory,
    pub board: GhostBoard,
}
/// an arbitrary position for the side `player`, consistent with a LEGAL move m (what C01 establishes for every generated
/// move): the mover's square is ours, the destination is not ours, and an enemy piece stands on the destination exactly for
/// captures and capturing promotions (en passant lands on an EMPTY square)
pub fn fits(b: &GhostBoard, m: Move) -> bool {
    b.ours.contains(m.src())
        && !b.ours.contains(m.dst())
        && b.theirs.contains(m.dst()) == (m.is_capture() && !m.is_en_passant())
}
pub fn any_board_for_lists(player: Player) -> GhostBoard {
    let b = GhostBoard { ours: crate::chess::bitboard::Bitboard::new(kani::any()), theirs: crate::chess::bitboard::Bitboard::new(kani::any()), player };
    kani::assume((b.ours & b.theirs).is_empty());
    unsafe {
        let mut i = 0;
        while i < NC {
            if let Some(m) = CAPS[i] {
                kani::assume(fits(&b, m));
            }
            i += 1;
        }
        let mut i = 0;
        while i < NQ {
            if let Some(m) = QUIETS[i] {
                kani::assume(fits(&b, m));
            }
            i += 1;
        }
    }
    b
}
pub struct GhostKillers(pub Option<Move>, pub Option<Move>);
impl GhostKillers {
    pub fn get_0(&self, _plies: u8) -> Option<Move> {
        self.0
    }
    pub fn get_1(&self, _plies: u8) -> Option<Move> {
        self.1
    }
}
pub struct GhostCounter(pub Option<Move>);
impl GhostCounter {
    pub fn get(&self, _player: Player, _previous: Move) -> Option<Move> {
        self.0
    }
}
pub struct GhostHist;
pub struct SearchContext<'a> {
    pub killer_moves: GhostKillers,
    pub countermove_table: GhostCounter,
    pub history_table: &'a GhostHist,
}

pub static mut CAPS: [Option<Move>; NC] = [None; NC];
pub static mut QUIETS: [Option<Move>; NQ] = [None; NQ];
pub static mut GEN_CAPTURES_CALLS: u8 = 0;
pub static mut GEN_QUIETS_CALLS: u8 = 0;

mod movegen {
    use super::*;
    pub fn generate_captures(_game: &Game, moves: &mut MoveList, _cache: &mut MovegenCache) {
        unsafe {
            GEN_CAPTURES_CALLS += 1;
            let mut i = 0;
            while i < NC {
                if let Some(m) = CAPS[i] {
                    moves.push(m);
                }
                i += 1;
            }
        }
    }
    pub fn generate_quiets(_game: &Game, moves: &mut MoveList, _cache: &MovegenCache) {
        unsafe {
            GEN_QUIETS_CALLS += 1;
            let mut i = 0;
            while i < NQ {
                if let Some(m) = QUIETS[i] {
                    moves.push(m);
                }
                i += 1;
            }
        }
    }
}
fn score_tactical(_game: &Game, _mv: Move) -> i32 {
    kani::any()
}
fn score_quiet(_game: &Game, _mv: Move, _h: &GhostHist) -> i32 {
    kani::any()
}

// ---- the picker itself: struct, stage enum and the whole impl block are copied VERBATIM from /repo on every run.
// In this module the names MoveList / MovegenCache / MAX_MOVES are bound to small stand-ins, so the picker's list is a
// bounded vector of capacity 6 (ASSUMED: ArrayVec<Move, 218> behaves as a bounded vector -- len/get/push/swap -- and the
// real capacity 218 <= MAX_MOVES = 255 score slots, checked by C10.capacity).
pub const LIST_CAP: usize = 6;
const MAX_MOVES: usize = LIST_CAP;
pub struct MovegenCache;
impl MovegenCache {
    pub fn new() -> Self {
        MovegenCache
    }
}
const DUMMY: Move = Move::quiet(Square::from_index(0), Square::from_index(1));
pub struct MoveList {
    items: [Move; LIST_CAP],
    n: usize,
}
impl MoveList {
    pub fn new() -> Self {
        MoveList { items: [DUMMY; LIST_CAP], n: 0 }
    }
    pub fn len(&self) -> usize {
        self.n
    }
    pub fn get(&self, i: usize) -> Option<&Move> {
        if i < self.n { Some(&self.items[i]) } else { None }
    }
    pub fn push(&mut self, m: Move) {
        assert!(self.n < LIST_CAP);
        self.items[self.n] = m;
        self.n += 1;
    }
    /// slice::swap semantics: panics when an index is out of range
    pub fn swap(&mut self, a: usize, b: usize) {
        assert!(a < self.n && b < self.n, "swap index out of range");
        let t = self.items[a];
        self.items[a] = self.items[b];
        self.items[b] = t;
    }
}
//@@ item: engine/search/move_picker.rs :: enum GenStage
//@@ item: engine/search/move_picker.rs :: struct MovePicker
//@@ item: engine/search/move_picker.rs :: impl MovePicker
// free helper functions of the module other than the ones rebound above (none on the pinned tree)
//@@ fns-except: engine/search/move_picker.rs :: score_tactical, score_quiet

fn any_promo() -> PromotionPieceKind {
    match kani::any::<u8>() % 4 {
        0 => PromotionPieceKind::Knight,
        1 => PromotionPieceKind::Bishop,
        2 => PromotionPieceKind::Rook,
        _ => PromotionPieceKind::Queen,
    }
}
/// a move of the kind generate_captures produces: capture, en passant, capturing promotion or queen push-promotion
fn any_capture_class() -> Move {
    let (s, d) = (geo::any_square(), geo::any_square());
    kani::assume(s != d);
    match kani::any::<u8>() % 4 {
        0 => Move::capture(s, d),
        1 => Move::en_passant(s, d),
        2 => Move::capture_promotion(s, d, any_promo()),
        _ => Move::quiet_promotion(s, d, PromotionPieceKind::Queen),
    }
}
/// a move of the kind generate_quiets produces: quiet, castling or under-promotion by pushing
fn any_quiet_class() -> Move {
    let (s, d) = (geo::any_square(), geo::any_square());
    kani::assume(s != d);
    match kani::any::<u8>() % 3 {
        0 => Move::quiet(s, d),
        1 => Move::castles(s, d),
        _ => {
            let p = any_promo();
            kani::assume(p != PromotionPieceKind::Queen);
            Move::quiet_promotion(s, d, p)
        }
    }
}
fn any_move() -> Move {
    if kani::any() { any_capture_class() } else { any_quiet_class() }
}
fn any_move_opt() -> Option<Move> {
    if kani::any() { Some(any_move()) } else { None }
}

/// fills CAPS / QUIETS with arbitrary duplicate-free lists (prefix-closed); returns (nc, nq)
fn any_lists() -> (usize, usize) {
    let nc: usize = kani::any();
    let nq: usize = kani::any();
    kani::assume(nc <= NC && nq <= NQ);
    unsafe {
        let mut i = 0;
        while i < NC {
            CAPS[i] = if i < nc { Some(any_capture_class()) } else { None };
            let mut j = 0;
            while j < i {
                kani::assume(CAPS[i].is_none() || CAPS[i] != CAPS[j]);
                j += 1;
            }
            i += 1;
        }
        let mut i = 0;
        while i < NQ {
            QUIETS[i] = if i < nq { Some(any_quiet_class()) } else { None };
            let mut j = 0;
            while j < i {
                kani::assume(QUIETS[i].is_none() || QUIETS[i] != QUIETS[j]);
                j += 1;
            }
            i += 1;
        }
    }
    (nc, nq)
}
fn in_caps(m: Move) -> bool {
    unsafe {
        let mut r = false;
        let mut i = 0;
        while i < NC {
            r = r || CAPS[i] == Some(m);
            i += 1;
        }
        r
    }
}
fn in_quiets(m: Move) -> bool {
    unsafe {
        let mut r = false;
        let mut i = 0;
        while i < NQ {
            r = r || QUIETS[i] == Some(m);
            i += 1;
        }
        r
    }
}

fn stream(loud: bool) {
    let (nc, nq) = any_lists();
    let hash = if loud { None } else { any_move_opt() };
    // the property's precondition: the hash move is a legal move of the position, or there is none
    if let Some(h) = hash {
        kani::assume(in_caps(h) || in_quiets(h));
    }
    let side = geo::any_player();
    let game = Game { player: side, history: GhostHistory(if kani::any() { Some(GhostEntry { mv: any_move_opt() }) } else { None }), board: any_board_for_lists(side) };
    let hist = GhostHist;
    // remembered moves: arbitrary, legal here or not
    let ctx = SearchContext { killer_moves: GhostKillers(any_move_opt(), any_move_opt()), countermove_table: GhostCounter(any_move_opt()), history_table: &hist };
    let plies: u8 = kani::any();
    let mut picker = if loud { MovePicker::new_loud() } else { MovePicker::new(hash) };
    let total = if loud { nc } else { nc + nq };
    let mut out: [Option<Move>; NC + NQ + 1] = [None; NC + NQ + 1];
    let mut k = 0;
    while k < NC + NQ + 1 {
        out[k] = picker.next(&game, &ctx, plies);
        k += 1;
    }
    kani::cover!(total == NC + NQ && hash.is_some());
    kani::cover!(nc == NC && picker.first_bad_capture.is_some());
    // exactly `total` moves, then None for good
    let mut k = 0;
    while k < NC + NQ + 1 {
        assert!(out[k].is_some() == (k < total));
        if let Some(m) = out[k] {
            // every yielded move is one of the generated (legal) moves ...
            assert!(in_caps(m) || (!loud && in_quiets(m)));
            // ... and was not yielded before
            let mut j = 0;
            while j < k {
                assert!(out[j] != Some(m));
                j += 1;
            }
        }
        k += 1;
    }
    // the generators ran at most once each
    unsafe {
        assert!(GEN_CAPTURES_CALLS <= 1 && GEN_QUIETS_CALLS <= 1);
    }
}

//@ obligation: C10.stream.full
//@ status: experimental
//@ domain: bounded(<= 2 captures + <= 2 quiets)
//@ functions: engine/search/move_picker.rs::MovePicker::next, engine/search/move_picker.rs::MovePicker::next_best_move, engine/search/move_picker.rs::MovePicker::new
//@ timeout: 1500
//@ mem_gb: 14
//@ note: for every duplicate-free capture list (<= 2) and quiet list (<= 2), every score assignment, every hash move (in the lists or none), ARBITRARY killer pair / counter move / previous move (in the lists or not, equal to each other or not): calling next until it is exhausted yields every generated move exactly once and then None; unreachable!() is unreachable; no index out of range
//@ assumes: callee contracts of generate_captures / generate_quiets (C01: duplicate-free, classes disjoint); the list length bound 2+2 (the state machine has 2 killers + counter + hash + good/bad split, all inside the bound)
#[kani::proof]
#[kani::unwind(6)]
fn vk_c10_stream_full() {
    stream(false);
}

//@ obligation: C10.stream.loud
//@ status: experimental
//@ domain: bounded(<= 2 captures)
//@ functions: engine/search/move_picker.rs::MovePicker::next, engine/search/move_picker.rs::MovePicker::next_best_move, engine/search/move_picker.rs::MovePicker::new_loud
//@ timeout: 1500
//@ mem_gb: 14
//@ note: captures-only variant: yields exactly the generated capture-class moves (captures, en passant, queen promotions), each once, then None, never calls the quiet generator
#[kani::proof]
#[kani::unwind(6)]
fn vk_c10_stream_loud() {
    stream(true);
    assert!(unsafe { GEN_QUIETS_CALLS } == 0);
}

// ---------------------------------------------------------------------------------------------------------------
// PER-CALL INDUCTIVE FORM (DESIGN C10): instead of running the stream to exhaustion in one query, ONE call of `next` is
// verified from an ARBITRARY picker state that satisfies the structural invariant S, for every stage of the machine:
//   Some(m):  m is a generated move that had NOT been yielded, exactly m becomes yielded, S holds again
//   None:     every generated move had been yielded, the machine is Done
// "yielded" is a function of the state (cursor positions + the hash-move rule), so no history is needed.  S holds in the
// initial state with nothing yielded; each Some-call yields exactly one new move; None only when all are yielded =>
// by induction the stream is every generated move exactly once, for lists of any order and ANY number of calls.
// ---------------------------------------------------------------------------------------------------------------
fn stage_no(s: &GenStage) -> u8 {
    match s {
        GenStage::BestMove => 0,
        GenStage::GenCaptures => 1,
        GenStage::GoodCaptures => 2,
        GenStage::GenQuiets => 3,
        GenStage::Killer1 => 4,
        GenStage::Killer2 => 5,
        GenStage::CounterMove => 6,
        GenStage::BadCaptures => 7,
        GenStage::ScoreQuiets => 8,
        GenStage::Quiets => 9,
        GenStage::Done => 10,
    }
}
fn any_stage() -> GenStage {
    match kani::any::<u8>() % 11 {
        0 => GenStage::BestMove,
        1 => GenStage::GenCaptures,
        2 => GenStage::GoodCaptures,
        3 => GenStage::GenQuiets,
        4 => GenStage::Killer1,
        5 => GenStage::Killer2,
        6 => GenStage::CounterMove,
        7 => GenStage::BadCaptures,
        8 => GenStage::ScoreQuiets,
        9 => GenStage::Quiets,
        _ => GenStage::Done,
    }
}
/// position of x in the picker's list, LIST_CAP if absent
fn pos(p: &MovePicker, x: Move) -> usize {
    let mut r = LIST_CAP;
    let mut j = 0;
    while j < LIST_CAP {
        if j < p.moves.n && p.moves.items[j] == x && r == LIST_CAP {
            r = j;
        }
        j += 1;
    }
    r
}
/// has x been handed out before, according to the state alone?
fn yielded(p: &MovePicker, x: Move) -> bool {
    let st = stage_no(&p.stage);
    if p.previous_best_move == Some(x) && st != 0 {
        return true;
    }
    let j = pos(p, x);
    if j == LIST_CAP {
        return false;
    }
    let ce = p.captures_end;
    if j < ce {
        match st {
            2 | 7 => j < p.idx,
            3 | 4 | 5 | 6 => j < p.first_bad_capture.unwrap_or(ce),
            8 | 9 | 10 => true,
            _ => false,
        }
    } else {
        match st {
            5 | 6 | 7 | 8 => j < p.first_quiet,
            9 => j < p.idx,
            10 => true,
            _ => false,
        }
    }
}
/// structural invariant of the picker state w.r.t. the generated lists (nc captures, nq quiets)
fn structural(p: &MovePicker, nc: usize, nq: usize) -> bool {
    let st = stage_no(&p.stage);
    let n = p.moves.n;
    let ce = p.captures_end;
    let loud = p.only_captures;
    let mut ok = true;
    if loud {
        ok = ok && p.previous_best_move.is_none() && (st <= 2 || st == 7 || st == 10);
    }
    if st <= 1 {
        // before generation the cursors still hold their constructor values (GenCaptures does not reset idx)
        return ok && n == 0 && p.idx == 0 && p.first_bad_capture.is_none();
    }
    let quiets_present = !loud && (st >= 4);
    ok = ok && ce == nc && n == (if quiets_present { nc + nq } else { nc });
    // the list regions are permutations of the generated lists (same length + every generated move present)
    unsafe {
        let mut i = 0;
        while i < NC {
            if i < nc {
                let j = pos(p, CAPS[i].unwrap());
                ok = ok && j < ce;
            }
            i += 1;
        }
        if quiets_present {
            let mut i = 0;
            while i < NQ {
                if i < nq {
                    let j = pos(p, QUIETS[i].unwrap());
                    ok = ok && ce <= j && j < n;
                }
                i += 1;
            }
        }
    }
    let fbc_ok = match p.first_bad_capture {
        None => true,
        Some(b) => b < ce,
    };
    ok = ok && fbc_ok;
    let (idx, fq) = (p.idx, p.first_quiet);
    ok && match st {
        2 => idx <= ce && p.first_bad_capture.is_none() && fq == ce,
        3 | 4 => idx == ce && fq == ce,
        5 | 6 => idx == ce && ce <= fq && fq <= n,
        7 => p.first_bad_capture.is_some() && p.first_bad_capture.unwrap() <= idx && idx <= ce && ((loud && fq == ce) || (!loud && ce <= fq && fq <= n)),
        8 => ce <= fq && fq <= n,
        9 => ce <= fq && fq <= idx && idx <= n,
        _ => (loud && fq == ce) || (!loud && ce <= fq && fq <= n),
    }
}

pub static mut STEP_ST0: u8 = 0;
pub static mut STEP_SOME: bool = false;

fn step(loud: bool) {
    step_from(loud, None)
}

fn step_from(loud: bool, fixed_stage: Option<u8>) {
    let (nc, nq) = any_lists();
    let hash = if loud { None } else { any_move_opt() };
    if let Some(h) = hash {
        kani::assume(in_caps(h) || in_quiets(h)); // the property's precondition on the hash move
    }
    // an arbitrary picker state
    let mut p = if loud { MovePicker::new_loud() } else { MovePicker::new(hash) };
    p.stage = any_stage();
    if let Some(f) = fixed_stage {
        kani::assume(stage_no(&p.stage) == f);
    }
    p.idx = kani::any();
    p.captures_end = kani::any();
    p.first_quiet = kani::any();
    p.first_bad_capture = if kani::any() { Some(kani::any()) } else { None };
    p.moves.n = kani::any();
    kani::assume(p.moves.n <= LIST_CAP);
    let mut j = 0;
    while j < LIST_CAP {
        if j < p.moves.n {
            p.moves.items[j] = any_move();
        }
        p.scores[j] = kani::any();
        j += 1;
    }
    kani::assume(structural(&p, nc, nq));
    let side = geo::any_player();
    let game = Game { player: side, history: GhostHistory(if kani::any() { Some(GhostEntry { mv: any_move_opt() }) } else { None }), board: any_board_for_lists(side) };
    let hist = GhostHist;
    let ctx = SearchContext { killer_moves: GhostKillers(any_move_opt(), any_move_opt()), countermove_table: GhostCounter(any_move_opt()), history_table: &hist };
    // an arbitrary generated move x, to state "exactly the returned move becomes yielded" for all moves at once
    let x = {
        let from_caps: bool = kani::any();
        let i: usize = kani::any();
        unsafe {
            if from_caps {
                kani::assume(i < nc);
                CAPS[i].unwrap()
            } else {
                kani::assume(i < nq && !loud);
                QUIETS[i].unwrap()
            }
        }
    };
    let st0 = stage_no(&p.stage);
    let x_before = yielded(&p, x);
    unsafe {
        GEN_CAPTURES_CALLS = 0;
        GEN_QUIETS_CALLS = 0;
    }
    let r = p.next(&game, &ctx, kani::any());
    unsafe {
        STEP_ST0 = st0;
        STEP_SOME = r.is_some();
    }
    assert!(structural(&p, nc, nq));
    match r {
        Some(m) => {
            assert!(in_caps(m) || (!loud && in_quiets(m)));
            assert!(yielded(&p, x) == (x_before || x == m));
            // m itself was not yielded before: instantiate the line above with x == m
            if x == m {
                assert!(!x_before);
            }
        }
        None => {
            assert!(stage_no(&p.stage) == 10);
            assert!(x_before && yielded(&p, x));
        }
    }
    // generators run only in their own stage
    unsafe {
        assert!(GEN_CAPTURES_CALLS <= 1 && (GEN_CAPTURES_CALLS == 0 || st0 <= 1));
        assert!(GEN_QUIETS_CALLS <= 1 && (GEN_QUIETS_CALLS == 0 || (!loud && st0 <= 3)));
    }
}

macro_rules! step_stage {
    ($name:ident, $st:expr, $some:expr) => {
        #[kani::proof]
        #[kani::unwind(8)]
        fn $name() {
            step_from(false, Some($st));
            unsafe {
                kani::cover!(STEP_SOME == $some);
            }
        }
    };
}
//@ obligation: C10.step.full.BestMove
//@ domain: bounded(<= 3 captures + <= 3 quiets per node; unbounded in the number of calls)
//@ harness: vk_c10_step_full_s0
//@ functions: engine/search/move_picker.rs::MovePicker::next, engine/search/move_picker.rs::MovePicker::next_best_move
//@ timeout: 3000
//@ mem_gb: 6.5
//@ note: inductive step of 'the stream is exactly the generated moves, each once', for a call that STARTS in stage BestMove: from ANY picker state of that stage satisfying the structural invariant (any cursor positions, list order, scores), any hash move (in the lists or none), ARBITRARY killers / counter move / previous move: next either hands out a generated move that had not been handed out and marks exactly that move, or returns None with every generated move handed out; the invariant is re-established; unreachable!() and out-of-range indices are unreachable.  The eleven stage obligations together are the step for every state.
//@ assumes: callee contracts of generate_captures / generate_quiets (C01: duplicate-free lists, classes disjoint); ArrayVec modelled as a bounded vector of capacity 6; base case C10.step.initial
step_stage!(vk_c10_step_full_s0, 0, true);
//@ obligation: C10.step.full.GenCaptures
//@ tier: thorough
//@ domain: bounded(<= 3 captures + <= 3 quiets per node; unbounded in the number of calls)
//@ harness: vk_c10_step_full_s1
//@ functions: engine/search/move_picker.rs::MovePicker::next, engine/search/move_picker.rs::MovePicker::next_best_move
//@ timeout: 3000
//@ mem_gb: 6.5
//@ note: inductive step of 'the stream is exactly the generated moves, each once', for a call that STARTS in stage GenCaptures: from ANY picker state of that stage satisfying the structural invariant (any cursor positions, list order, scores), any hash move (in the lists or none), ARBITRARY killers / counter move / previous move: next either hands out a generated move that had not been handed out and marks exactly that move, or returns None with every generated move handed out; the invariant is re-established; unreachable!() and out-of-range indices are unreachable.  The eleven stage obligations together are the step for every state.
//@ assumes: callee contracts of generate_captures / generate_quiets (C01: duplicate-free lists, classes disjoint); ArrayVec modelled as a bounded vector of capacity 6; base case C10.step.initial
step_stage!(vk_c10_step_full_s1, 1, true);
//@ obligation: C10.step.full.GoodCaptures
//@ tier: thorough
//@ domain: bounded(<= 3 captures + <= 3 quiets per node; unbounded in the number of calls)
//@ harness: vk_c10_step_full_s2
//@ functions: engine/search/move_picker.rs::MovePicker::next, engine/search/move_picker.rs::MovePicker::next_best_move
//@ timeout: 3000
//@ mem_gb: 6.5
//@ note: inductive step of 'the stream is exactly the generated moves, each once', for a call that STARTS in stage GoodCaptures: from ANY picker state of that stage satisfying the structural invariant (any cursor positions, list order, scores), any hash move (in the lists or none), ARBITRARY killers / counter move / previous move: next either hands out a generated move that had not been handed out and marks exactly that move, or returns None with every generated move handed out; the invariant is re-established; unreachable!() and out-of-range indices are unreachable.  The eleven stage obligations together are the step for every state.
//@ assumes: callee contracts of generate_captures / generate_quiets (C01: duplicate-free lists, classes disjoint); ArrayVec modelled as a bounded vector of capacity 6; base case C10.step.initial
step_stage!(vk_c10_step_full_s2, 2, true);
//@ obligation: C10.step.full.GenQuiets
//@ tier: thorough
//@ domain: bounded(<= 3 captures + <= 3 quiets per node; unbounded in the number of calls)
//@ harness: vk_c10_step_full_s3
//@ functions: engine/search/move_picker.rs::MovePicker::next, engine/search/move_picker.rs::MovePicker::next_best_move
//@ timeout: 3000
//@ mem_gb: 6.5
//@ note: inductive step of 'the stream is exactly the generated moves, each once', for a call that STARTS in stage GenQuiets: from ANY picker state of that stage satisfying the structural invariant (any cursor positions, list order, scores), any hash move (in the lists or none), ARBITRARY killers / counter move / previous move: next either hands out a generated move that had not been handed out and marks exactly that move, or returns None with every generated move handed out; the invariant is re-established; unreachable!() and out-of-range indices are unreachable.  The eleven stage obligations together are the step for every state.
//@ assumes: callee contracts of generate_captures / generate_quiets (C01: duplicate-free lists, classes disjoint); ArrayVec modelled as a bounded vector of capacity 6; base case C10.step.initial
step_stage!(vk_c10_step_full_s3, 3, true);
//@ obligation: C10.step.full.Killer1
//@ tier: thorough
//@ domain: bounded(<= 3 captures + <= 3 quiets per node; unbounded in the number of calls)
//@ harness: vk_c10_step_full_s4
//@ functions: engine/search/move_picker.rs::MovePicker::next, engine/search/move_picker.rs::MovePicker::next_best_move
//@ timeout: 3000
//@ mem_gb: 6.5
//@ note: inductive step of 'the stream is exactly the generated moves, each once', for a call that STARTS in stage Killer1: from ANY picker state of that stage satisfying the structural invariant (any cursor positions, list order, scores), any hash move (in the lists or none), ARBITRARY killers / counter move / previous move: next either hands out a generated move that had not been handed out and marks exactly that move, or returns None with every generated move handed out; the invariant is re-established; unreachable!() and out-of-range indices are unreachable.  The eleven stage obligations together are the step for every state.
//@ assumes: callee contracts of generate_captures / generate_quiets (C01: duplicate-free lists, classes disjoint); ArrayVec modelled as a bounded vector of capacity 6; base case C10.step.initial
step_stage!(vk_c10_step_full_s4, 4, true);
//@ obligation: C10.step.full.Killer2
//@ tier: thorough
//@ domain: bounded(<= 3 captures + <= 3 quiets per node; unbounded in the number of calls)
//@ harness: vk_c10_step_full_s5
//@ functions: engine/search/move_picker.rs::MovePicker::next, engine/search/move_picker.rs::MovePicker::next_best_move
//@ timeout: 3000
//@ mem_gb: 6.5
//@ note: inductive step of 'the stream is exactly the generated moves, each once', for a call that STARTS in stage Killer2: from ANY picker state of that stage satisfying the structural invariant (any cursor positions, list order, scores), any hash move (in the lists or none), ARBITRARY killers / counter move / previous move: next either hands out a generated move that had not been handed out and marks exactly that move, or returns None with every generated move handed out; the invariant is re-established; unreachable!() and out-of-range indices are unreachable.  The eleven stage obligations together are the step for every state.
//@ assumes: callee contracts of generate_captures / generate_quiets (C01: duplicate-free lists, classes disjoint); ArrayVec modelled as a bounded vector of capacity 6; base case C10.step.initial
step_stage!(vk_c10_step_full_s5, 5, true);
//@ obligation: C10.step.full.CounterMove
//@ domain: bounded(<= 3 captures + <= 3 quiets per node; unbounded in the number of calls)
//@ harness: vk_c10_step_full_s6
//@ functions: engine/search/move_picker.rs::MovePicker::next, engine/search/move_picker.rs::MovePicker::next_best_move
//@ timeout: 3000
//@ mem_gb: 6.5
//@ note: inductive step of 'the stream is exactly the generated moves, each once', for a call that STARTS in stage CounterMove: from ANY picker state of that stage satisfying the structural invariant (any cursor positions, list order, scores), any hash move (in the lists or none), ARBITRARY killers / counter move / previous move: next either hands out a generated move that had not been handed out and marks exactly that move, or returns None with every generated move handed out; the invariant is re-established; unreachable!() and out-of-range indices are unreachable.  The eleven stage obligations together are the step for every state.
//@ assumes: callee contracts of generate_captures / generate_quiets (C01: duplicate-free lists, classes disjoint); ArrayVec modelled as a bounded vector of capacity 6; base case C10.step.initial
step_stage!(vk_c10_step_full_s6, 6, true);
//@ obligation: C10.step.full.BadCaptures
//@ domain: bounded(<= 3 captures + <= 3 quiets per node; unbounded in the number of calls)
//@ harness: vk_c10_step_full_s7
//@ functions: engine/search/move_picker.rs::MovePicker::next, engine/search/move_picker.rs::MovePicker::next_best_move
//@ timeout: 3000
//@ mem_gb: 6.5
//@ note: inductive step of 'the stream is exactly the generated moves, each once', for a call that STARTS in stage BadCaptures: from ANY picker state of that stage satisfying the structural invariant (any cursor positions, list order, scores), any hash move (in the lists or none), ARBITRARY killers / counter move / previous move: next either hands out a generated move that had not been handed out and marks exactly that move, or returns None with every generated move handed out; the invariant is re-established; unreachable!() and out-of-range indices are unreachable.  The eleven stage obligations together are the step for every state.
//@ assumes: callee contracts of generate_captures / generate_quiets (C01: duplicate-free lists, classes disjoint); ArrayVec modelled as a bounded vector of capacity 6; base case C10.step.initial
step_stage!(vk_c10_step_full_s7, 7, true);
//@ obligation: C10.step.full.ScoreQuiets
//@ domain: bounded(<= 3 captures + <= 3 quiets per node; unbounded in the number of calls)
//@ harness: vk_c10_step_full_s8
//@ functions: engine/search/move_picker.rs::MovePicker::next, engine/search/move_picker.rs::MovePicker::next_best_move
//@ timeout: 3000
//@ mem_gb: 6.5
//@ note: inductive step of 'the stream is exactly the generated moves, each once', for a call that STARTS in stage ScoreQuiets: from ANY picker state of that stage satisfying the structural invariant (any cursor positions, list order, scores), any hash move (in the lists or none), ARBITRARY killers / counter move / previous move: next either hands out a generated move that had not been handed out and marks exactly that move, or returns None with every generated move handed out; the invariant is re-established; unreachable!() and out-of-range indices are unreachable.  The eleven stage obligations together are the step for every state.
//@ assumes: callee contracts of generate_captures / generate_quiets (C01: duplicate-free lists, classes disjoint); ArrayVec modelled as a bounded vector of capacity 6; base case C10.step.initial
step_stage!(vk_c10_step_full_s8, 8, true);
//@ obligation: C10.step.full.Quiets
//@ domain: bounded(<= 3 captures + <= 3 quiets per node; unbounded in the number of calls)
//@ harness: vk_c10_step_full_s9
//@ functions: engine/search/move_picker.rs::MovePicker::next, engine/search/move_picker.rs::MovePicker::next_best_move
//@ timeout: 3000
//@ mem_gb: 6.5
//@ note: inductive step of 'the stream is exactly the generated moves, each once', for a call that STARTS in stage Quiets: from ANY picker state of that stage satisfying the structural invariant (any cursor positions, list order, scores), any hash move (in the lists or none), ARBITRARY killers / counter move / previous move: next either hands out a generated move that had not been handed out and marks exactly that move, or returns None with every generated move handed out; the invariant is re-established; unreachable!() and out-of-range indices are unreachable.  The eleven stage obligations together are the step for every state.
//@ assumes: callee contracts of generate_captures / generate_quiets (C01: duplicate-free lists, classes disjoint); ArrayVec modelled as a bounded vector of capacity 6; base case C10.step.initial
step_stage!(vk_c10_step_full_s9, 9, true);
//@ obligation: C10.step.full.Done
//@ domain: bounded(<= 3 captures + <= 3 quiets per node; unbounded in the number of calls)
//@ harness: vk_c10_step_full_s10
//@ functions: engine/search/move_picker.rs::MovePicker::next, engine/search/move_picker.rs::MovePicker::next_best_move
//@ timeout: 3000
//@ mem_gb: 6.5
//@ note: inductive step of 'the stream is exactly the generated moves, each once', for a call that STARTS in stage Done: from ANY picker state of that stage satisfying the structural invariant (any cursor positions, list order, scores), any hash move (in the lists or none), ARBITRARY killers / counter move / previous move: next either hands out a generated move that had not been handed out and marks exactly that move, or returns None with every generated move handed out; the invariant is re-established; unreachable!() and out-of-range indices are unreachable.  The eleven stage obligations together are the step for every state.
//@ assumes: callee contracts of generate_captures / generate_quiets (C01: duplicate-free lists, classes disjoint); ArrayVec modelled as a bounded vector of capacity 6; base case C10.step.initial
step_stage!(vk_c10_step_full_s10, 10, false);

//@ obligation: C10.step.loud
//@ domain: bounded(<= 3 captures per node; unbounded in the number of calls)
//@ functions: engine/search/move_picker.rs::MovePicker::next, engine/search/move_picker.rs::MovePicker::new_loud
//@ timeout: 3000
//@ mem_gb: 8
//@ note: the same inductive step for the captures-only variant: exactly the generated capture-class moves, each once; the quiet generator is never called
#[kani::proof]
#[kani::unwind(8)]
fn vk_c10_step_loud() {
    step(true);
    unsafe {
        kani::cover!(STEP_ST0 == 7 && STEP_SOME);
        kani::cover!(STEP_ST0 == 2 && !STEP_SOME);
    }
}

//@ obligation: C10.step.initial
//@ domain: complete
//@ functions: engine/search/move_picker.rs::MovePicker::new, engine/search/move_picker.rs::MovePicker::new_loud
//@ timeout: 900
//@ mem_gb: 2
//@ note: base case: a fresh picker (either constructor) satisfies the structural invariant and has yielded nothing
#[kani::proof]
#[kani::unwind(8)]
fn vk_c10_step_initial() {
    let (nc, nq) = any_lists();
    let loud: bool = kani::any();
    let hash = if loud { None } else { any_move_opt() };
    let p = if loud { MovePicker::new_loud() } else { MovePicker::new(hash) };
    let x = any_move();
    kani::cover!(true);
    assert!(structural(&p, nc, nq));
    assert!(!yielded(&p, x));
}

//@ obligation: C10.canary.stream
//@ canary: true
//@ timeout: 1500
//@ mem_gb: 4
#[kani::proof]
#[kani::unwind(6)]
fn vk_c10_canary_stream() {
    let (nc, nq) = any_lists();
    let game = Game { player: Player::White, history: GhostHistory(None), board: any_board_for_lists(Player::White) };
    let hist = GhostHist;
    let ctx = SearchContext { killer_moves: GhostKillers(None, None), countermove_table: GhostCounter(None), history_table: &hist };
    let mut picker = MovePicker::new(None);
    let first = picker.next(&game, &ctx, 0);
    assert!(first.is_none()); // must FAIL when a move was generated
}
