//@@ module: chess/movegen/attackers.rs
//@@ tag: c01
//@@ needs: chess__board@sym.rs
use crate::chess::board::verif_kani_sym as sym;
use crate::verif_support::{geo, rules};
use crate::chess::piece::{Piece, PieceKind};

//@ obligation: C01.attackers.exact
//@ property: C01 C20
//@ domain: complete
//@ functions: chess/movegen/attackers.rs::generate_attackers_of
//@ timeout: 1500
//@ mem_gb: 8
//@ note: fully symbolic board (13^64 placements, legal or not) x any target square x any colour x any candidate attacker square a: bit a of the result is set iff the piece on a belongs to the opponent and attacks the target under the rules (pawn direction, knight/king steps, slider rays with blockers)
//@ assumes: table lookups == coordinate geometry (C07)
#[kani::proof]
#[kani::unwind(10)]
//@@stubs-tables
fn vk_c01_attackers_exact() {
    let mb = sym::any_mailbox();
    let board = sym::board_of(&mb);
    let player = geo::any_player();
    let target = geo::any_square();
    let a = geo::any_square();
    let got = generate_attackers_of(&board, player, target).contains(a);
    let want = match mb[a.array_idx()] {
        Some(p) => p.player != player && rules::piece_attacks(&mb, p, a.idx(), target.idx()),
        None => false,
    };
    kani::cover!(got && matches!(mb[a.array_idx()], Some(p) if p.kind == PieceKind::Bishop));
    kani::cover!(got && matches!(mb[a.array_idx()], Some(p) if p.kind == PieceKind::Pawn));
    assert!(got == want);
}

//@ obligation: C01.attackers.all_exact
//@ property: C20
//@ domain: complete
//@ functions: chess/movegen/attackers.rs::all_attackers_of
//@ timeout: 1500
//@ mem_gb: 8
//@ note: as C01.attackers.exact for the both-colours variant used by SEE, with an arbitrary `occupied` mask: bit a set iff a piece stands on a (in the board's own views) whose kind attacks the target given the blockers in `occupied`
#[kani::proof]
#[kani::unwind(10)]
//@@stubs-tables
fn vk_c01_attackers_all_exact() {
    let mb = sym::any_mailbox();
    let board = sym::board_of(&mb);
    let target = geo::any_square();
    let a = geo::any_square();
    let occ: u64 = kani::any();
    let got = all_attackers_of(&board, target, Bitboard::new(occ)).contains(a);
    // blockers are taken from `occupied`, not from the board: evaluate the rule on a mailbox that has a (dummy) piece
    // exactly on the squares of `occ`, plus the candidate attacker itself
    let want = match mb[a.array_idx()] {
        Some(p) => a != target && {
            let (df, dr) = (geo::file(target.idx()) - geo::file(a.idx()), geo::rank(target.idx()) - geo::rank(a.idx()));
            let adf = if df < 0 { -df } else { df };
            let adr = if dr < 0 { -dr } else { dr };
            let clear = geo::between(a.idx(), target.idx()).map_or(false, |b| b & occ == 0);
            match p.kind {
                PieceKind::Pawn => adf == 1 && dr == (if p.player == Player::White { 1 } else { -1 }),
                PieceKind::Knight => (adf == 1 && adr == 2) || (adf == 2 && adr == 1),
                PieceKind::King => adf <= 1 && adr <= 1,
                PieceKind::Bishop => adf == adr && clear,
                PieceKind::Rook => (df == 0 || dr == 0) && clear,
                PieceKind::Queen => clear,
            }
        },
        None => false,
    };
    kani::cover!(got);
    assert!(got == want);
}

//@ obligation: C01.canary.attackers
//@ canary: true
//@ timeout: 1500
//@ mem_gb: 8
#[kani::proof]
#[kani::unwind(10)]
//@@stubs-tables
fn vk_c01_canary_attackers() {
    let mb = sym::any_mailbox();
    let board = sym::board_of(&mb);
    let target = geo::any_square();
    assert!(generate_attackers_of(&board, Player::White, target).is_empty()); // must FAIL
}
