//@@ module: chess/fen/fen_writer.rs
//@@ tag: c06w
//@@ noglob: Game is re-declared as a ghost carrying only the fields the field writers read
// The small field writers of the FEN writer (side to move, castling rights, en-passant target), verbatim from /repo on
// every run, on a ghost `Game` with exactly the fields they read.  Their String machinery (one format! each) is the
// real library code.  The board field and the counters go through iterator adapters / integer formatting and are not
// under contract.
// MEASURED: even ONE real format! call does not fit CBMC here (castling field: time-out after 1500 s at 4 GB;
// side/en-passant fields: 10 GB exceeded after 220 s) => all three are *experimental*; the FEN writer stays unchecked.
use crate::chess::player::{ByPlayer, Player};
use crate::chess::game::CastleRights;
use crate::chess::square::Square;
use crate::verif_support::geo;

pub struct Game {
    pub player: Player,
    pub castle_rights: ByPlayer<CastleRights>,
    pub en_passant_target: Option<Square>,
}

//@@ body: chess/fen/fen_writer.rs :: fn format_castle_rights => format_castle_rights__body
//@@ body: chess/fen/fen_writer.rs :: fn format_current_player => format_current_player__body
//@@ body: chess/fen/fen_writer.rs :: fn format_en_passant_target => format_en_passant_target__body

fn any_game() -> Game {
    Game {
        player: geo::any_player(),
        castle_rights: ByPlayer::new(
            CastleRights { king_side: kani::any(), queen_side: kani::any() },
            CastleRights { king_side: kani::any(), queen_side: kani::any() },
        ),
        en_passant_target: if kani::any() { Some(geo::any_square()) } else { None },
    }
}

//@ obligation: C06.writer.castling_field
//@ status: experimental
//@ domain: complete
//@ functions: chess/fen/fen_writer.rs::format_castle_rights
//@ timeout: 1500
//@ mem_gb: 10
//@ note: for all 16 combinations of castling rights the field written is exactly the letters K, Q, k, q of the rights held, in that order, or '-' when none is held (so the reader's 'letter present <=> right held' recovers the rights: lossless)
//@ assumes: real String/format! machinery as compiled by Kani
#[kani::proof]
#[kani::unwind(8)]
fn vk_c06_writer_castling_field() {
    let g = any_game();
    let got = format_castle_rights__body(&g);
    let w = g.castle_rights.white();
    let b = g.castle_rights.black();
    let mut t = [0u8; 4];
    let mut n = 0;
    if w.king_side { t[n] = b'K'; n += 1; }
    if w.queen_side { t[n] = b'Q'; n += 1; }
    if b.king_side { t[n] = b'k'; n += 1; }
    if b.queen_side { t[n] = b'q'; n += 1; }
    if n == 0 { t[0] = b'-'; n = 1; }
    kani::cover!(n == 4);
    kani::cover!(b.queen_side && !b.king_side && !w.king_side && !w.queen_side);
    let bytes = got.as_bytes();
    assert!(bytes.len() == n);
    let mut i = 0;
    while i < 4 {
        if i < n {
            assert!(bytes[i] == t[i]);
        }
        i += 1;
    }
}

//@ obligation: C06.writer.side_and_ep_fields
//@ status: experimental
//@ domain: complete
//@ functions: chess/fen/fen_writer.rs::format_current_player, chess/fen/fen_writer.rs::format_en_passant_target
//@ timeout: 1500
//@ mem_gb: 10
//@ note: side to move is written 'w' / 'b'; the en-passant field is '-' or the target square's file letter and rank digit, for all 64 squares
//@ assumes: real String/format! machinery as compiled by Kani
#[kani::proof]
#[kani::unwind(8)]
fn vk_c06_writer_side_and_ep_fields() {
    let g = any_game();
    let side = format_current_player__body(&g);
    assert!(side.as_bytes().len() == 1 && side.as_bytes()[0] == if g.player == Player::White { b'w' } else { b'b' });
    let ep = format_en_passant_target__body(&g);
    let bytes = ep.as_bytes();
    kani::cover!(g.en_passant_target.is_some());
    match g.en_passant_target {
        None => assert!(bytes.len() == 1 && bytes[0] == b'-'),
        Some(s) => assert!(bytes.len() == 2 && bytes[0] == b'a' + s.idx() % 8 && bytes[1] == b'1' + s.idx() / 8),
    }
}

//@ obligation: C06.canary.writer
//@ status: experimental
//@ canary: true
//@ timeout: 1500
//@ mem_gb: 10
#[kani::proof]
#[kani::unwind(8)]
fn vk_c06_canary_writer() {
    let g = any_game();
    let got = format_castle_rights__body(&g);
    assert!(got.as_bytes().len() < 4); // must FAIL: all four rights give "KQkq"
}
