//@@ module: chess/fen/fen_writer.rs
//@@ tag: c06w
//@@ noglob: String / Vec / ToString / format! / Game / Board / Square are bound by scope to ghost stand-ins (see support/gtext.rs)
// THE FEN WRITER UNDER CONTRACT.  Every function of src/chess/fen/fen_writer.rs (and Square::notation, Game::turn) is
// copied VERBATIM from /repo on every run into the module `g` below, which is compiled with #![no_implicit_prelude]:
// there the names String, Vec, ToString and the macro format! resolve to the ghost text library (fixed-capacity byte
// text, no heap, no fmt machinery), and Game / Board / Square to thin ghost carriers with exactly the fields and methods
// the writer reads.  History: with the REAL String machinery even one format! call did not fit CBMC (castling field:
// time-out after 1500 s; side/ep fields: 10 GB) -- see DESIGN 9.2.
use crate::chess::game::CastleRights;
use crate::chess::piece::Piece;
use crate::chess::player::{ByPlayer, Player};
use crate::verif_support::geo;
use crate::verif_support::gtext;

macro_rules! format { ($($t:tt)*) => { $crate::gtext_format!($($t)*) } }

pub mod g {
    #![no_implicit_prelude]
    use ::core::prelude::rust_2021::*;
    use crate::chess::game::CastleRights;
    use crate::chess::piece::Piece;
    use crate::chess::player::ByPlayer;
    use crate::chess::square::{File, Rank, FILES, RANKS};
    pub use crate::verif_support::gtext::{String, ToString, Vec};

    pub use crate::verif_support::gsq::Square;

    /// ghost carrier: the by-square view of the board (that the three views agree is C02's invariant)
    pub struct Board {
        pub sq: [Option<Piece>; 64],
    }
    impl Board {
        pub fn piece_at(&self, s: Square) -> Option<Piece> {
            self.sq[s.0.idx() as usize]
        }
    }

    /// ghost carrier: exactly the fields the writer reads
    pub struct Game {
        pub player: crate::chess::player::Player,
        pub board: Board,
        pub castle_rights: ByPlayer<CastleRights>,
        pub en_passant_target: Option<Square>,
        pub halfmove_clock: u32,
        pub plies: u32,
    }
    impl Game {
        //@@ body: chess/game.rs :: impl Game / fn turn => turn
    }

    //@@ body: chess/fen/fen_writer.rs :: fn format_piece => format_piece pub
    //@@ body: chess/fen/fen_writer.rs :: fn format_rank => format_rank pub
    //@@ body: chess/fen/fen_writer.rs :: fn format_board => format_board pub
    //@@ body: chess/fen/fen_writer.rs :: fn format_current_player => format_current_player pub
    //@@ body: chess/fen/fen_writer.rs :: fn format_castle_rights => format_castle_rights pub
    //@@ body: chess/fen/fen_writer.rs :: fn format_en_passant_target => format_en_passant_target pub
    //@@ body: chess/fen/fen_writer.rs :: fn format_halfmove_clock => format_halfmove_clock pub
    //@@ body: chess/fen/fen_writer.rs :: fn format_fullmove_number => format_fullmove_number pub
    //@@ body: chess/fen/fen_writer.rs :: fn write => write pub
}

// ---------------------------------------------------------------------------------------------------------------------
// independent specification: FEN letters, written from the FEN standard, not from the code
// ---------------------------------------------------------------------------------------------------------------------
fn spec_letter(p: Piece) -> u8 {
    use crate::chess::piece::PieceKind::*;
    let c = match p.kind {
        Pawn => b'p',
        Knight => b'n',
        Bishop => b'b',
        Rook => b'r',
        Queen => b'q',
        King => b'k',
    };
    if p.player == Player::White {
        c - 32
    } else {
        c
    }
}

pub fn any_piece_opt() -> Option<Piece> {
    use crate::chess::piece::PieceKind::*;
    let k: u8 = kani::any();
    kani::assume(k < 13);
    if k == 12 {
        return None;
    }
    let kind = match k % 6 {
        0 => Pawn,
        1 => Knight,
        2 => Bishop,
        3 => Rook,
        4 => Queen,
        _ => King,
    };
    Some(Piece::new(if k < 6 { Player::White } else { Player::Black }, kind))
}

/// spec of one rank's text: squares a..h; a maximal run of k empty squares is the digit k, a piece is its letter
fn spec_rank(rank: &[Option<Piece>; 8], out: &mut gtext::String) {
    let mut run = 0u8;
    let mut f = 0;
    while f < 8 {
        match rank[f] {
            None => run += 1,
            Some(p) => {
                if run > 0 {
                    out.push_byte(b'0' + run);
                    run = 0;
                }
                out.push_byte(spec_letter(p));
            }
        }
        f += 1;
    }
    if run > 0 {
        out.push_byte(b'0' + run);
    }
}

//@ obligation: C06.writer.rank_text
//@ domain: complete
//@ functions: chess/fen/fen_writer.rs::format_rank, chess/fen/fen_writer.rs::format_piece
//@ timeout: 900
//@ mem_gb: 6
//@ note: for every content of a rank (13^8) the text written DECODES back to exactly that rank (digit d = d empty squares, letter = that piece, by the FEN standard's letters), describes exactly eight squares, and is canonical: no two digits are adjacent (runs of empty squares are merged) and every digit is 1..8
//@ assumes: ghost text library (support/gtext.rs) stands for alloc's String / format! / ToString: concatenation of Display renderings in order
#[kani::proof]
#[kani::unwind(10)]
fn vk_c06_writer_rank_text() {
    let mut rank: [Option<Piece>; 8] = [None; 8];
    let mut i = 0;
    while i < 8 {
        rank[i] = any_piece_opt();
        i += 1;
    }
    let t = g::format_rank(&rank);
    kani::cover!(t.len() == 8);
    kani::cover!(t.len() == 1);
    kani::cover!(t.len() == 3);
    assert!(t.len() >= 1 && t.len() <= 8);
    // decode
    let mut pos: usize = 0;
    let mut prev_digit = false;
    let mut ok = true;
    let mut k = 0;
    while k < 8 {
        if k < t.len() {
            let c = t.byte(k);
            if c >= b'1' && c <= b'8' {
                let d = (c - b'0') as usize;
                if prev_digit {
                    ok = false; // not canonical
                }
                let mut j = 0;
                while j < 8 {
                    if j >= pos && j < pos + d && rank[j].is_some() {
                        ok = false;
                    }
                    j += 1;
                }
                pos += d;
                prev_digit = true;
            } else {
                if pos >= 8 {
                    ok = false;
                } else {
                    match rank[pos] {
                        Some(p) => {
                            if spec_letter(p) != c {
                                ok = false;
                            }
                        }
                        None => ok = false,
                    }
                }
                pos += 1;
                prev_digit = false;
            }
        }
        k += 1;
    }
    assert!(ok, "the rank text does not decode to the rank (or is not canonical)");
    assert!(pos == 8, "the rank text does not describe exactly eight squares");
}

fn any_game() -> g::Game {
    let mut sq: [Option<Piece>; 64] = [None; 64];
    let mut i = 0;
    while i < 64 {
        sq[i] = any_piece_opt();
        i += 1;
    }
    g::Game {
        player: geo::any_player(),
        board: g::Board { sq },
        castle_rights: ByPlayer::new(
            CastleRights { king_side: kani::any(), queen_side: kani::any() },
            CastleRights { king_side: kani::any(), queen_side: kani::any() },
        ),
        en_passant_target: if kani::any() { Some(g::Square(geo::any_square())) } else { None },
        halfmove_clock: kani::any(),
        plies: kani::any(),
    }
}

pub fn any_fields_game() -> g::Game {
    g::Game {
        player: geo::any_player(),
        board: g::Board { sq: [None; 64] },
        castle_rights: ByPlayer::new(
            CastleRights { king_side: kani::any(), queen_side: kani::any() },
            CastleRights { king_side: kani::any(), queen_side: kani::any() },
        ),
        en_passant_target: if kani::any() { Some(g::Square(geo::any_square())) } else { None },
        halfmove_clock: kani::any(),
        plies: kani::any(),
    }
}

//@ obligation: C06.writer.castling_field
//@ domain: complete
//@ functions: chess/fen/fen_writer.rs::format_castle_rights
//@ timeout: 600
//@ mem_gb: 4
//@ note: for all 16 combinations of castling rights the field written is exactly the letters K, Q, k, q of the rights held, in that order, or '-' when none is held (so the reader's 'letter present <=> right held' recovers the rights: lossless)
//@ assumes: ghost text library (support/gtext.rs) stands for alloc's String / format! / ToString: concatenation of Display renderings in order
#[kani::proof]
#[kani::unwind(8)]
fn vk_c06_writer_castling_field() {
    let g = any_fields_game();
    let got = g::format_castle_rights(&g);
    let w = g.castle_rights.white();
    let b = g.castle_rights.black();
    let mut t = [0u8; 4];
    let mut n = 0;
    if w.king_side { t[n] = b'K'; n += 1; }
    if w.queen_side { t[n] = b'Q'; n += 1; }
    if b.king_side { t[n] = b'k'; n += 1; }
    if b.queen_side { t[n] = b'q'; n += 1; }
    if n == 0 { t[0] = b'-'; n = 1; }
    kani::cover!(n == 4);
    kani::cover!(b.queen_side && !b.king_side && !w.king_side && !w.queen_side);
    assert!(got.len() == n);
    let mut i = 0;
    while i < 4 {
        if i < n {
            assert!(got.byte(i) == t[i]);
        }
        i += 1;
    }
}

//@ obligation: C06.writer.side_and_ep_fields
//@ domain: complete
//@ functions: chess/fen/fen_writer.rs::format_current_player, chess/fen/fen_writer.rs::format_en_passant_target, chess/square.rs::Square::notation
//@ timeout: 600
//@ mem_gb: 4
//@ note: side to move is written 'w' / 'b'; the en-passant field is '-' or the target square's file letter and rank digit, for all 64 squares
//@ assumes: ghost text library (support/gtext.rs) stands for alloc's String / format! / ToString: concatenation of Display renderings in order; Display for File / Rank writes notation()
#[kani::proof]
#[kani::unwind(8)]
fn vk_c06_writer_side_and_ep_fields() {
    let g = any_fields_game();
    let side = g::format_current_player(&g);
    assert!(side.len() == 1 && side.byte(0) == if g.player == Player::White { b'w' } else { b'b' });
    let ep = g::format_en_passant_target(&g);
    kani::cover!(g.en_passant_target.is_some());
    match g.en_passant_target {
        None => assert!(ep.len() == 1 && ep.byte(0) == b'-'),
        Some(s) => assert!(ep.len() == 2 && ep.byte(0) == b'a' + s.0.idx() % 8 && ep.byte(1) == b'1' + s.0.idx() / 8),
    }
}

/// scope for the two counter fields: `x.to_string()` is a CONTRACT function that writes the four raw bytes of the u32 it
/// is applied to (injective, no division), so the obligation reads off WHICH number each field renders; that alloc renders
/// a u32 as its decimal numeral is part of the ghost-library assumption
pub mod g4 {
    #![no_implicit_prelude]
    use ::core::prelude::rust_2021::*;
    pub use super::g::Game;
    pub use crate::verif_support::gtext::String;
    pub trait ToString {
        fn to_string(&self) -> String;
    }
    impl ToString for u32 {
        fn to_string(&self) -> String {
            let mut s = String::new();
            let b = self.to_le_bytes();
            s.push_byte(b[0]);
            s.push_byte(b[1]);
            s.push_byte(b[2]);
            s.push_byte(b[3]);
            s
        }
    }
    //@@ body: chess/fen/fen_writer.rs :: fn format_halfmove_clock => format_halfmove_clock pub
    //@@ body: chess/fen/fen_writer.rs :: fn format_fullmove_number => format_fullmove_number pub
}

//@ obligation: C06.writer.counters
//@ domain: complete
//@ functions: chess/fen/fen_writer.rs::format_halfmove_clock, chess/fen/fen_writer.rs::format_fullmove_number, chess/game.rs::Game::turn
//@ timeout: 600
//@ mem_gb: 4
//@ note: for all u32 values of the two counters: the halfmove field renders exactly game.halfmove_clock and the fullmove field renders exactly plies / 2 + 1 (the inverse of the reader's plies_from_fullmove_number, C06.plies.clock_codec), each as the to_string() of that u32
//@ assumes: alloc's to_string() of a u32 is its canonical decimal numeral (ghost-library assumption; the contract function used here is injective so a wrong number cannot hide)
#[kani::proof]
#[kani::unwind(8)]
fn vk_c06_writer_counters() {
    let g = any_fields_game();
    let hm = g4::format_halfmove_clock(&g);
    assert!(hm.eq_bytes(&g.halfmove_clock.to_le_bytes()));
    let fm = g4::format_fullmove_number(&g);
    assert!(fm.eq_bytes(&(g.plies / 2 + 1).to_le_bytes()));
    kani::cover!(g.plies == u32::MAX);
}

//@ obligation: C06.writer.whole_text
//@ status: experimental
//@ tier: thorough
//@ domain: complete
//@ functions: chess/fen/fen_writer.rs::write, chess/fen/fen_writer.rs::format_board, chess/fen/fen_writer.rs::format_rank, chess/fen/fen_writer.rs::format_piece, chess/fen/fen_writer.rs::format_castle_rights, chess/fen/fen_writer.rs::format_current_player, chess/fen/fen_writer.rs::format_en_passant_target
//@ timeout: 1800
//@ mem_gb: 10
//@ note: MEASURED: memory limit of 10 GB exceeded after ~20 min -- kept experimental; the same clause is decided modularly by rank_text + board_layout + the field obligations + assembly.  For every board content (13^64), side, rights, ep square and counters the text written by write() is byte for byte the FEN the standard prescribes (independent spec: ranks 8 down to 1 separated by '/', files a to h, maximal runs of empty squares as one digit, then side, rights, ep square, halfmove clock, fullmove number separated by single spaces)
//@ assumes: ghost text library (support/gtext.rs) stands for alloc's String / format! / ToString / join: concatenation of Display renderings in order; Display for File / Rank writes notation()
#[kani::proof]
#[kani::unwind(98)]
fn vk_c06_writer_whole_text() {
    let game = any_game();
    kani::assume(game.halfmove_clock < 1000 && game.plies < 20000);
    let got = g::write(&game);
    let mut want = gtext::String::new();
    let mut r: usize = 8;
    while r > 0 {
        r -= 1;
        let mut rank: [Option<Piece>; 8] = [None; 8];
        let mut f = 0;
        while f < 8 {
            rank[f] = game.board.sq[r * 8 + f];
            f += 1;
        }
        spec_rank(&rank, &mut want);
        if r > 0 {
            want.push_byte(b'/');
        }
    }
    want.push_byte(b' ');
    want.push_byte(if game.player == Player::White { b'w' } else { b'b' });
    want.push_byte(b' ');
    let w = game.castle_rights.white();
    let b = game.castle_rights.black();
    if w.king_side { want.push_byte(b'K'); }
    if w.queen_side { want.push_byte(b'Q'); }
    if b.king_side { want.push_byte(b'k'); }
    if b.queen_side { want.push_byte(b'q'); }
    if !(w.king_side || w.queen_side || b.king_side || b.queen_side) { want.push_byte(b'-'); }
    want.push_byte(b' ');
    match game.en_passant_target {
        None => want.push_byte(b'-'),
        Some(s) => {
            want.push_byte(b'a' + s.0.idx() % 8);
            want.push_byte(b'1' + s.0.idx() / 8);
        }
    }
    want.push_byte(b' ');
    gtext::GDisplay::put(&game.halfmove_clock, &mut want);
    want.push_byte(b' ');
    gtext::GDisplay::put(&(game.plies / 2 + 1), &mut want);
    kani::cover!(got.len() > 80);
    kani::cover!(got.len() < 30);
    assert!(got.eq_text(&want), "write() differs from the FEN the standard prescribes");
}

// ---------------------------------------------------------------------------------------------------------------------
// modular form of the two composite writers: callee -> contract function that TAGS its output, so that the caller's text
// shows which callee results were used, in which order and with which separators
// ---------------------------------------------------------------------------------------------------------------------
pub mod g2 {
    #![no_implicit_prelude]
    use ::core::prelude::rust_2021::*;
    use crate::chess::piece::Piece;
    use crate::chess::square::{FILES, RANKS};
    pub use super::g::{Board, Square};
    pub use crate::verif_support::gtext::{String, ToString, Vec};
    macro_rules! assert { ($c:expr, $m:expr) => { ::kani::assert($c, $m) }; ($c:expr) => { ::kani::assert($c, "assertion") } }

    /// CONTRACT of format_rank as seen by format_board: a function of the eight squares handed over, in order
    /// (tag text: one code byte per square) -- what the text really is: C06.writer.rank_text
    pub fn format_rank(rank: &[Option<Piece>]) -> String {
        assert!(rank.len() == 8, "format_rank is handed exactly the eight squares of one rank");
        let mut s = String::new();
        let mut i = 0;
        while i < 8 {
            s.push_byte(match rank[i] {
                None => b'.',
                Some(p) => super::spec_letter(p),
            });
            i += 1;
        }
        s
    }
    //@@ body: chess/fen/fen_writer.rs :: fn format_board => format_board pub
}

pub mod g3 {
    #![no_implicit_prelude]
    use ::core::prelude::rust_2021::*;
    pub use super::g::{Board, Game};
    pub use crate::verif_support::gtext::{String, ToString, Vec};
    macro_rules! assert { ($c:expr, $m:expr) => { ::kani::assert($c, $m) }; ($c:expr) => { ::kani::assert($c, "assertion") } }
    fn tag(c: u8) -> String {
        let mut s = String::new();
        s.push_byte(c);
        s
    }
    // CONTRACTS of the six field writers as seen by write(): distinct one-byte tags; each must be handed THIS game / its board
    pub static mut GAME_ADDR: usize = 0;
    pub static mut BOARD_ADDR: usize = 0;
    fn is_game(g: &Game) {
        assert!(g as *const Game as usize == unsafe { GAME_ADDR }, "field writer called on another game value");
    }
    pub fn format_board(b: &Board) -> String {
        assert!(b as *const Board as usize == unsafe { BOARD_ADDR }, "format_board called on another board");
        tag(b'B')
    }
    pub fn format_current_player(g: &Game) -> String {
        is_game(g);
        tag(b'S')
    }
    pub fn format_castle_rights(g: &Game) -> String {
        is_game(g);
        tag(b'C')
    }
    pub fn format_en_passant_target(g: &Game) -> String {
        is_game(g);
        tag(b'E')
    }
    pub fn format_halfmove_clock(g: &Game) -> String {
        is_game(g);
        tag(b'H')
    }
    pub fn format_fullmove_number(g: &Game) -> String {
        is_game(g);
        tag(b'F')
    }
    //@@ body: chess/fen/fen_writer.rs :: fn write => write pub
}

//@ obligation: C06.writer.board_layout
//@ domain: complete
//@ functions: chess/fen/fen_writer.rs::format_board
//@ timeout: 900
//@ mem_gb: 6
//@ note: format_board against the contract of format_rank: for every board content the board field is the eight rank texts of ranks 8, 7, ..., 1 in that order, each computed from the squares of files a..h of that rank in that order, separated by single '/' (no leading or trailing separator)
//@ assumes: ghost text library (support/gtext.rs) stands for alloc's String / Vec / collect / join; callee contract C06.writer.rank_text
#[kani::proof]
#[kani::unwind(98)]
fn vk_c06_writer_board_layout() {
    let mut sq: [Option<Piece>; 64] = [None; 64];
    let mut i = 0;
    while i < 64 {
        sq[i] = any_piece_opt();
        i += 1;
    }
    let board = g::Board { sq };
    let got = g2::format_board(&board);
    let mut want = gtext::String::new();
    let mut r: usize = 8;
    while r > 0 {
        r -= 1;
        let mut f = 0;
        while f < 8 {
            want.push_byte(match board.sq[r * 8 + f] {
                None => b'.',
                Some(p) => spec_letter(p),
            });
            f += 1;
        }
        if r > 0 {
            want.push_byte(b'/');
        }
    }
    kani::cover!(got.len() == 71);
    assert!(got.eq_text(&want), "board field: wrong rank order, file order or separators");
}

//@ obligation: C06.writer.assembly
//@ domain: complete
//@ functions: chess/fen/fen_writer.rs::write
//@ timeout: 600
//@ mem_gb: 4
//@ note: write() against the contracts of the six field writers: the FEN is board, side, castling rights, en-passant target, halfmove clock, fullmove number -- each computed from THIS game -- in that order, separated by single spaces, nothing before or after
//@ assumes: ghost text library (support/gtext.rs) stands for alloc's String / format!; callee contracts C06.writer.board_layout, rank_text, castling_field, side_ep_counters
#[kani::proof]
#[kani::unwind(98)]
fn vk_c06_writer_assembly() {
    let game = any_fields_game();
    unsafe {
        g3::GAME_ADDR = &game as *const g::Game as usize;
        g3::BOARD_ADDR = &game.board as *const g::Board as usize;
    }
    let got = g3::write(&game);
    kani::cover!(got.len() == 11);
    assert!(got.eq_bytes(b"B S C E H F"), "FEN fields in the wrong order, missing, or wrongly separated");
}

//@ obligation: C06.canary.writer
//@ canary: true
//@ timeout: 600
//@ mem_gb: 4
#[kani::proof]
#[kani::unwind(8)]
fn vk_c06_canary_writer() {
    let g = any_fields_game();
    let got = g::format_castle_rights(&g);
    assert!(got.len() < 4); // must FAIL: all four rights give "KQkq"
}
