//@@ module: chess/bitboard.rs
//@@ tag: iter
// One-shot CONTRACT FORM of `for s in <Bitboard>` (justified by C07.bitboard.square_iterator: the real iterator yields
// every member exactly once, lowest first).  Under this stub every loop over a bitboard runs its body for ONE
// ARBITRARY member and stops, and the ghost record remembers, for each non-empty loop in execution order, the set that
// was iterated and the member that was yielded.  A harness then states the loop nest's contract as
//     "the k-th non-empty loop iterates exactly <spec set>, and for the arbitrary member m it does <spec effect>",
// which, with the iterator contract and the independence of iterations (the loop bodies carry no state from one
// iteration to the next except the list they push to), gives the contract for all members.
use crate::verif_support::geo;

pub const REC_N: usize = 8;
pub static mut REC_CALLS: usize = 0;
pub static mut REC_SETS: [u64; REC_N] = [0; REC_N];
pub static mut REC_YIELDED: [u8; REC_N] = [0; REC_N];
pub static mut REC_CURSOR: usize = 0;
/// MIRRORED REPLAY (colour-symmetry obligations): when set, the k-th non-empty loop must iterate the vertical flip of the
/// set the k-th non-empty loop of the recorded run iterated, and it yields the flip of the member yielded then
pub static mut REPLAY_MIRROR: bool = false;
pub static mut REPLAY_CURSOR: usize = 0;

pub fn one_shot_square_next(it: &mut SquareIterator) -> Option<Square> {
    // the iterator is exhausted after this call on EVERY path (so that symbolic execution sees a constant)
    let cur = it.0;
    it.0 = Bitboard::EMPTY;
    if cur.is_empty() {
        return None;
    }
    if unsafe { REPLAY_MIRROR } {
        unsafe {
            assert!(REPLAY_CURSOR < REC_CALLS, "the mirrored run has a non-empty loop the first run did not have");
            assert!(cur.as_u64() == REC_SETS[REPLAY_CURSOR].swap_bytes(), "the mirrored run iterates the mirrored set");
            let s = Square::from_index(REC_YIELDED[REPLAY_CURSOR] ^ 56);
            REPLAY_CURSOR += 1;
            return Some(s);
        }
    }
    let s = geo::any_square();
    kani::assume(cur.contains(s));
    unsafe {
        assert!(REC_CALLS < REC_N, "more non-empty loops than the contract foresees");
        REC_SETS[REC_CALLS] = cur.as_u64();
        REC_YIELDED[REC_CALLS] = s.idx();
        REC_CALLS += 1;
    }
    Some(s)
}

pub fn rec_reset() {
    unsafe {
        REC_CALLS = 0;
        REC_CURSOR = 0;
        REPLAY_MIRROR = false;
        REPLAY_CURSOR = 0;
    }
}
/// start the mirrored replay of the run recorded so far
pub fn replay_mirrored() {
    unsafe {
        REPLAY_MIRROR = true;
        REPLAY_CURSOR = 0;
    }
}
/// the mirrored run had exactly as many non-empty loops as the recorded one
pub fn replay_done() {
    unsafe {
        assert!(REPLAY_CURSOR == REC_CALLS, "the first run has a non-empty loop the mirrored run did not have");
        REPLAY_MIRROR = false;
    }
}

/// the next loop of the contract iterates `set`: if it is empty the loop body does not run (None); otherwise the next
/// record must be exactly this set and the member the loop ran for is returned
pub fn rec_expect(set: u64) -> Option<Square> {
    if set == 0 {
        return None;
    }
    unsafe {
        assert!(REC_CURSOR < REC_CALLS, "contract expects a non-empty loop that did not run");
        assert!(REC_SETS[REC_CURSOR] == set, "loop iterates a different set than the contract says");
        let s = Square::from_index(REC_YIELDED[REC_CURSOR]);
        REC_CURSOR += 1;
        Some(s)
    }
}

/// no further non-empty loop ran
pub fn rec_done() {
    unsafe {
        assert!(REC_CURSOR == REC_CALLS, "a loop ran that the contract does not foresee");
    }
}

pub fn yielded(k: usize) -> Square {
    unsafe { Square::from_index(REC_YIELDED[k]) }
}
pub fn calls() -> usize {
    unsafe { REC_CALLS }
}
