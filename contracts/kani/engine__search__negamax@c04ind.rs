//@@ module: engine/search/negamax.rs
//@@ tag: c04ind
//@@ noglob: names are bound to the ghost environment of the negamax contract file
//@@ needs: engine__search__negamax@c04.rs
// INDUCTIVE FORM of the negamax body obligations (C04 arithmetic / C09 unwinding / C08 mate line): the function's text is
// cut at its move loop into
//   prefix  (everything before the loop, verbatim, inside a closure of the function's own return type so that the early
//            returns and `?` keep their meaning),
//   step    (ONE verbatim iteration of the loop from an ARBITRARY loop-head state satisfying the invariant INV),
//   suffix  (everything after the loop, verbatim),
// each verified against the same callee contracts as the one-shot body obligations of @c04.rs -- but with a move picker
// that may hand out ANY number of moves.  prefix establishes INV (or returns a result satisfying the function's contract),
// step preserves INV, suffix turns INV (or the cut-off exit state) into the function's contract => by induction over the
// iterations the obligations hold for every number of moves per node (the one-shot form is bounded to 3).
use crate::chess::moves::Move;
use crate::engine::eval::Eval;
use crate::engine::search::negamax::verif_kani_c04 as env;
use crate::engine::search::negamax::verif_kani_c04::{negamax, quiescence, Game, PrincipalVariation, SearchContext};
use crate::engine::search::transposition::{NodeBound, SearchTranspositionTableData};
use crate::engine::search::{params, MAX_SEARCH_DEPTH};
use crate::engine::tablebases::Wdl;
use crate::verif_support::geo;
use std::cmp::max;

mod eval {
    pub use crate::engine::search::negamax::verif_kani_c04::eval_contract as eval;
}
fn lmr_reduction(_depth: u8, _n: usize) -> u8 {
    kani::any()
}
/// CONTRACT of the picker as seen by the search, WITHOUT a bound on the number of moves: at every call it hands out another
/// (legal) move or says None
pub struct MovePicker;
impl MovePicker {
    pub fn new(_prev: Option<Move>) -> Self {
        MovePicker
    }
    pub fn next(&mut self, _g: &Game, _ctx: &SearchContext<'_>, plies: u8) -> Option<Move> {
        env::live();
        assert!((plies as usize) < 255, "KillersTable has 255 rows: index out of range (read in MovePicker::next)");
        // C10: the stream is the legal moves, each once -- at most 218 of them in any legal position
        if kani::any() || unsafe { env::PICKS } >= 218 {
            return None;
        }
        let (s, d) = (geo::any_square(), geo::any_square());
        kani::assume(s != d);
        let m = if kani::any() { Move::capture(s, d) } else { Move::quiet(s, d) };
        unsafe {
            env::PICKED = Some(m);
            env::PICKS += 1;
            env::CHILD_OK_SINCE_PICK = false;
            env::NODE_PV_CLEARED_SINCE_PICK = false;
        }
        Some(m)
    }
}

//@@ item: engine/search/negamax.rs :: struct DepthReduction
//@@ item: engine/search/negamax.rs :: impl DepthReduction

/// the locals that are live at the loop head
pub struct St {
    pub alpha: Eval,
    pub depth: u8,
    pub is_pv: bool,
    pub in_check: bool,
    pub eval: Eval,
    pub tt_node_bound: NodeBound,
    pub best_move: Option<Move>,
    pub best_eval: Eval,
    pub moves: MovePicker,
    pub number_of_legal_moves: usize,
    pub node_pv: PrincipalVariation,
}

//@@ prefix-early: engine/search/negamax.rs :: fn negamax :: while let Some(mv) => #[allow(unused_assignments, unused_mut, unused_variables)] fn nm_prefix(game: &mut Game, mut alpha: Eval, beta: Eval, mut depth: u8, plies: u8, pv: &mut PrincipalVariation, ctx: &mut SearchContext<'_>) ;; Result<Eval, ()> ;; St ;; St { alpha, depth, is_pv, in_check, eval, tt_node_bound, best_move, best_eval, moves, number_of_legal_moves, node_pv } ;; Err(())

//@@ loopstep: engine/search/negamax.rs :: fn negamax :: while let Some(mv) = moves.next(game, ctx, plies) => #[allow(unused_assignments, unused_mut, unused_variables)] fn nm_step(game: &mut Game, beta: Eval, plies: u8, pv: &mut PrincipalVariation, ctx: &mut SearchContext<'_>, st: St) -> Result<(St, bool), ()> ;; let St { mut alpha, depth, is_pv, in_check, eval, mut tt_node_bound, mut best_move, mut best_eval, mut moves, mut number_of_legal_moves, mut node_pv } = st; let mut verif_iter = 0u8; ;; if verif_iter == 1 { return Ok((St { alpha, depth, is_pv, in_check, eval, tt_node_bound, best_move, best_eval, moves, number_of_legal_moves, node_pv }, false)); } verif_iter += 1; ;; Ok((St { alpha, depth, is_pv, in_check, eval, tt_node_bound, best_move, best_eval, moves, number_of_legal_moves, node_pv }, true))

//@@ suffix: engine/search/negamax.rs :: fn negamax :: if number_of_legal_moves == 0 { => #[allow(unused_assignments, unused_mut, unused_variables)] fn nm_suffix(game: &mut Game, beta: Eval, plies: u8, ctx: &mut SearchContext<'_>, st: St) -> Result<Eval, ()> ;; let St { mut alpha, depth, is_pv, in_check, eval, mut tt_node_bound, mut best_move, mut best_eval, mut moves, mut number_of_legal_moves, mut node_pv } = st;

// ---------------------------------------------------------------------------------------------------------------------
// the invariant
// ---------------------------------------------------------------------------------------------------------------------
/// ghost inputs of one invocation: the window's lower edge the function was ENTERED with, the length of the caller's
/// line on entry, and whether the mate-line clauses (C08) are in force (tablebases off, line entered empty below the root)
#[derive(Clone, Copy)]
pub struct Entry {
    pub alpha_in: Eval,
    pub pv_len_in: u8,
    pub c08: bool,
}
/// total versions of the spec helpers (the invariant is evaluated on arbitrary states)
fn md(e: i16) -> i16 {
    let a = if e < 0 { -(e as i32) } else { e as i32 };
    (32000 - a) as i16
}
fn in_band(e: Eval) -> bool {
    -31900 < e.0 && e.0 < 31900
}
fn in_range(e: Eval) -> bool {
    -32000 <= e.0 && e.0 <= 32000
}
/// INV at the loop head
fn inv_head(st: &St, beta: Eval, plies: u8, pv: &PrincipalVariation, en: &Entry) -> bool {
    let n = st.number_of_legal_moves;
    let writes = unsafe { env::PV_WRITES };
    let basic = env::window_ok(st.alpha, beta, plies)
        && plies <= 254
        && st.depth >= 1
        && en.alpha_in <= st.alpha
        && st.is_pv == (en.alpha_in.0 as i32 != beta.0 as i32 - 1)
        && in_band(st.eval)
        && (st.tt_node_bound == NodeBound::Upper || st.tt_node_bound == NodeBound::Exact)
        && (n != 0 || (st.best_eval == Eval::MIN && st.best_move.is_none() && st.tt_node_bound == NodeBound::Upper))
        && (n == 0 || (in_range(st.best_eval) && st.best_move.is_some() && st.best_eval <= st.alpha))
        && (st.tt_node_bound != NodeBound::Exact || (n > 0 && st.best_eval == st.alpha && writes >= 1))
        && (st.is_pv || (st.tt_node_bound == NodeBound::Upper && writes == 0))
        && !st.node_pv.is_callers
        && pv.is_callers
        && n <= unsafe { env::PICKS } as usize
        && unsafe { env::PICKS } <= 218
        && (!en.c08 || plies == 0 || en.pv_len_in == 0);
    let c08 = !en.c08
        || ((st.tt_node_bound != NodeBound::Upper || (st.alpha == en.alpha_in && writes == 0 && pv.len == en.pv_len_in))
            && (st.tt_node_bound != NodeBound::Exact
                || !env::is_mate_score(st.alpha.0)
                || (md(st.alpha.0) >= plies as i16 && (plies == 0 || pv.len as i16 == md(st.alpha.0) - plies as i16))));
    basic && c08
}
/// state in which the loop is left: INV (picker exhausted) or the cut-off form
fn inv_exit(st: &St, beta: Eval, plies: u8, pv: &PrincipalVariation, en: &Entry) -> bool {
    let writes = unsafe { env::PV_WRITES };
    let cutoff = st.tt_node_bound == NodeBound::Lower
        && st.best_move.is_some()
        && st.number_of_legal_moves > 0
        && in_range(st.best_eval)
        && st.best_eval >= beta
        && plies <= 254
        && st.depth >= 1
        && (st.is_pv || writes == 0)
        && st.number_of_legal_moves <= unsafe { env::PICKS } as usize
        && st.is_pv == (en.alpha_in.0 as i32 != beta.0 as i32 - 1);
    inv_head(st, beta, plies, pv, en) || cutoff
}
fn any_move_opt() -> Option<Move> {
    if kani::any() {
        let (s, d) = (geo::any_square(), geo::any_square());
        kani::assume(s != d);
        Some(if kani::any() { Move::capture(s, d) } else { Move::quiet(s, d) })
    } else {
        None
    }
}
fn any_state(lower_allowed: bool) -> St {
    let b: u8 = kani::any();
    kani::assume(b < if lower_allowed { 3 } else { 2 });
    St {
        alpha: Eval(kani::any()),
        depth: kani::any(),
        is_pv: kani::any(),
        in_check: kani::any(),
        eval: Eval(kani::any()),
        tt_node_bound: match b {
            0 => NodeBound::Upper,
            1 => NodeBound::Exact,
            _ => NodeBound::Lower,
        },
        best_move: any_move_opt(),
        best_eval: Eval(kani::any()),
        moves: MovePicker,
        number_of_legal_moves: kani::any(),
        node_pv: PrincipalVariation { is_callers: false, len: kani::any() },
    }
}
fn any_entry() -> Entry {
    Entry { alpha_in: Eval(kani::any()), pv_len_in: kani::any(), c08: kani::any() }
}

//@ obligation: C04.negamax.ind_prefix
//@ property: C04 C09 C08
//@ domain: complete
//@ functions: engine/search/negamax.rs::negamax
//@ timeout: 1800
//@ mem_gb: 8
//@ note: text of negamax up to its move loop (draw detection, check extension, quiescence hand-over, table probe and cut-offs, tablebase probe, reverse futility and null-move pruning), for every legal window, depth, distance from the root up to 254, table entry, evaluation and callee behaviour within contract: no overflow; a stop makes it return Err at once with nothing further examined; every early Ok result is within +-32000 with the position restored, is never an EXACT mate score below the root when tablebases are off (so it needs no line), and leaves the caller's line untouched; otherwise the loop is reached with the invariant INV
//@ assumes: callee contracts listed at the top of engine__search__negamax@c04.rs; plies <= 254 on entry (see C04.negamax.plies_bound)
#[kani::proof]
#[kani::unwind(3)]
fn vk_c04_negamax_ind_prefix() {
    let alpha = Eval(kani::any());
    let beta = Eval(kani::any());
    let depth: u8 = kani::any();
    let plies: u8 = kani::any();
    kani::assume(plies <= 254);
    kani::assume(env::window_ok(alpha, beta, plies));
    let (mut game, mut ctx) = env::any_game_ctx();
    let mut pv = PrincipalVariation { is_callers: true, len: kani::any() };
    let tb: bool = kani::any();
    unsafe { env::TB_ENABLED = tb; }
    let en = Entry { alpha_in: alpha, pv_len_in: pv.len, c08: !tb && (plies == 0 || pv.len == 0) };
    env::reset(plies);
    let r = nm_prefix(&mut game, alpha, beta, depth, plies, &mut pv, &mut ctx);
    kani::cover!(r.is_ok() && en.c08);
    kani::cover!(matches!(r, Err(Ok(_))) && unsafe { env::CHILD_CALLS } == 1);
    kani::cover!(matches!(r, Err(Err(_))));
    match r {
        Ok(st) => {
            assert!(!unsafe { env::ABORTED } && unsafe { env::MADE } == 0);
            assert!(inv_head(&st, beta, plies, &pv, &en), "loop invariant not established");
        }
        Err(early) => {
            assert!(early.is_err() == unsafe { env::ABORTED });
            assert!(unsafe { env::PV_WRITES } == 0 && pv.len == en.pv_len_in, "the caller's line is touched before the move loop");
            if let Ok(e) = early {
                assert!(in_range(e));
                assert!(unsafe { env::MADE } == 0, "the position is not restored on an Ok return");
                if en.c08 && plies > 0 && env::is_mate_score(e.0) && alpha < e && e < beta {
                    // an exact mate score returned without searching a move: only "no line needed" cases are allowed,
                    // i.e. the line is empty and the mate is delivered HERE
                    assert!(md(e.0) >= plies as i16 && pv.len as i16 == md(e.0) - plies as i16);
                }
            }
        }
    }
}

//@ obligation: C04.negamax.ind_step
//@ property: C04 C09 C08
//@ domain: complete
//@ functions: engine/search/negamax.rs::negamax, engine/search/negamax.rs::DepthReduction::reduce_less_if, engine/search/negamax.rs::DepthReduction::value
//@ timeout: 2400
//@ mem_gb: 10
//@ note: ONE verbatim iteration of the move loop (futility pruning, make, full-window / reduced null-window / re-search, unmake, best-move and window bookkeeping, line copy-up) from an ARBITRARY loop-head state satisfying INV, with a picker that may hand out any number of further moves: every child is searched one ply further with a legal window after its move was made and its line cleared; on a stop nothing further is examined and Err is returned; otherwise the move is taken back, no i16 / u8 / usize overflow occurs, the caller's line is written only as (picked move) ++ (completed child line), and INV holds again -- or the loop is left in the cut-off state
//@ assumes: callee contracts listed at the top of engine__search__negamax@c04.rs (children satisfy the mate-line contract)
#[kani::proof]
#[kani::unwind(3)]
fn vk_c04_negamax_ind_step() {
    let beta = Eval(kani::any());
    let plies: u8 = kani::any();
    let en = any_entry();
    let st = any_state(false);
    let mut pv = PrincipalVariation { is_callers: true, len: kani::any() };
    let (mut game, mut ctx) = env::any_game_ctx();
    env::reset(plies);
    unsafe {
        env::TB_ENABLED = kani::any();
        env::PV_WRITES = if kani::any() { 1 } else { 0 };
        env::PICKS = kani::any();
    }
    kani::assume(inv_head(&st, beta, plies, &pv, &en));
    let r = nm_step(&mut game, beta, plies, &mut pv, &mut ctx, st);
    kani::cover!(matches!(r, Ok((_, false))) && en.c08);
    kani::cover!(matches!(&r, Ok((s, true)) if s.tt_node_bound == NodeBound::Lower));
    kani::cover!(matches!(&r, Ok((s, _)) if s.tt_node_bound == NodeBound::Exact && env::is_mate_score(s.alpha.0)) && en.c08 && plies > 0);
    kani::cover!(r.is_err() && unsafe { env::CHILD_CALLS } >= 2);
    assert!(r.is_err() == unsafe { env::ABORTED });
    if let Ok((s2, exited)) = r {
        assert!(unsafe { env::MADE } == 0, "the move is not taken back");
        if exited {
            assert!(inv_exit(&s2, beta, plies, &pv, &en), "state on leaving the loop");
        } else {
            assert!(inv_head(&s2, beta, plies, &pv, &en), "loop invariant not preserved");
        }
    }
}

//@ obligation: C04.negamax.ind_suffix
//@ property: C04 C09 C08
//@ domain: complete
//@ functions: engine/search/negamax.rs::negamax
//@ timeout: 1800
//@ mem_gb: 8
//@ note: text of negamax after its move loop (mate / stalemate when no move was searched, killer / counter-move / history updates on a cut-off, table store) from an ARBITRARY exit state (INV or cut-off form): no overflow, killer-table index below its 255 rows, the stored score fits, the result is within +-32000 (closing the induction over the call tree), never Err; and -- mate-line contract -- an EXACT mate score comes with a line of exactly (mate distance - plies) moves and is at least `plies` plies deep, an exact result at the root comes with a freshly written line, a null-window search never wrote the caller's line
//@ assumes: callee contracts listed at the top of engine__search__negamax@c04.rs
#[kani::proof]
#[kani::unwind(3)]
fn vk_c04_negamax_ind_suffix() {
    let beta = Eval(kani::any());
    let plies: u8 = kani::any();
    let en = any_entry();
    let st = any_state(true);
    let pv = PrincipalVariation { is_callers: true, len: kani::any() };
    let (mut game, mut ctx) = env::any_game_ctx();
    env::reset(plies);
    unsafe {
        env::PV_WRITES = if kani::any() { 1 } else { 0 };
        env::PICKS = kani::any();
    }
    kani::assume(inv_exit(&st, beta, plies, &pv, &en));
    let n = st.number_of_legal_moves;
    let is_pv = st.is_pv;
    let r = nm_suffix(&mut game, beta, plies, &mut ctx, st);
    kani::cover!(matches!(r, Ok(e) if env::is_mate_score(e.0) && en.alpha_in < e && e < beta && plies > 0 && n > 0) && en.c08);
    kani::cover!(matches!(r, Ok(e) if env::is_mate_score(e.0) && n == 0));
    kani::cover!(unsafe { env::TT_INSERTS } == 1);
    assert!(r.is_ok() && !unsafe { env::ABORTED });
    if let Ok(e) = r {
        assert!(in_range(e));
        assert!(unsafe { env::MADE } == 0);
        unsafe {
            if env::TT_INSERTS > 0 {
                assert!(-32767 <= env::TT_LAST_EVAL && env::TT_LAST_EVAL <= 32767);
            }
        }
        if en.c08 {
            if env::is_mate_score(e.0) && en.alpha_in < e && e < beta {
                assert!(md(e.0) >= plies as i16);
                if plies > 0 {
                    assert!(pv.len as i16 == md(e.0) - plies as i16, "exact mate score without a line of the matching length");
                }
            }
            if en.alpha_in < e && e < beta && plies == 0 && n > 0 {
                assert!(unsafe { env::PV_WRITES } >= 1, "exact root result without a freshly written line");
            }
        }
        if !is_pv {
            assert!(unsafe { env::PV_WRITES } == 0, "a null-window search wrote the caller's line");
        }
    }
}

//@ obligation: C04.canary.negamax_ind
//@ property: C04 C09 C08
//@ canary: true
//@ timeout: 2400
//@ mem_gb: 10
#[kani::proof]
#[kani::unwind(3)]
fn vk_c04_canary_negamax_ind() {
    let beta = Eval(kani::any());
    let plies: u8 = kani::any();
    let en = any_entry();
    let st = any_state(false);
    let mut pv = PrincipalVariation { is_callers: true, len: kani::any() };
    let (mut game, mut ctx) = env::any_game_ctx();
    env::reset(plies);
    unsafe {
        env::PV_WRITES = if kani::any() { 1 } else { 0 };
        env::PICKS = kani::any();
    }
    kani::assume(inv_head(&st, beta, plies, &pv, &en));
    let r = nm_step(&mut game, beta, plies, &mut pv, &mut ctx, st);
    assert!(!matches!(&r, Ok((s, _)) if s.tt_node_bound == NodeBound::Exact)); // must FAIL: alpha can be raised
}
