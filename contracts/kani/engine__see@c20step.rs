//@@ module: engine/see.rs
//@@ tag: c20step
//@@ needs: chess__board@sym.rs chess__game@sym.rs
// INDUCTIVE form of the exchange loop of `see` (the state named in the property's anchors: "occupied / attackers /
// slider sets, updated as each least valuable attacker is spent, revealing x-rays"), for ALL positions -- no bound on the
// number of men or on the length of the exchange:
//   * C20.loop.init : the text of `see` from its opening brace up to `loop {` (verbatim) establishes the invariant
//         INV:  attackers == all_attackers_of(board, to, occupied) & occupied
//               diagonal_sliders == board.all_diagonal_sliders() & occupied   (orthogonal likewise)
//               occupied = the board's occupancy minus the pieces spent so far, plus the target square
//   * C20.loop.step : ONE iteration of the loop (its block copied verbatim; the driver adds a guard that returns after
//         one iteration) started in ANY state satisfying INV does exactly what the swap-list protocol prescribes -- stop
//         when the side to move is already ahead / has no attacker left / would capture with the king into an attacked
//         square; otherwise spend a LEAST VALUABLE attacker of the side to move, add the victim's value with the right
//         sign, make the attacker the next victim -- and re-establishes INV for the reduced occupancy, i.e. every x-ray
//         attacker behind the spent piece is found and no piece already spent comes back.
// With the final `score >= 0` (end-to-end obligations C20.undefended / winning_capture / defended_no_backup run the whole
// function) this is the exchange evaluator's contract; agreement with a separately written swap list is C20.swaplist.
use crate::chess::bitboard::Bitboard;
use crate::chess::board::verif_kani_sym as sym;
use crate::chess::board::Board;
use crate::chess::game::verif_kani_symgame as symgame;
use crate::chess::piece::{Piece, PromotionPieceKind};
use crate::chess::player::Player;
use crate::chess::square::Square;
use crate::verif_support::geo;

pub struct St {
    pub score: Eval,
    pub victim: PieceKind,
    pub occupied: Bitboard,
    pub attackers: Bitboard,
    pub diagonal_sliders: Bitboard,
    pub orthorgonal_sliders: Bitboard,
    pub color: Player,
}

//@@ loopstep: engine/see.rs :: fn see :: loop => #[allow(unused_assignments, unused_mut)] fn see_step(game: &Game, board: &Board, to: Square, st: St) -> (St, bool) ;; let St { mut score, mut victim, mut occupied, mut attackers, mut diagonal_sliders, mut orthorgonal_sliders, mut color } = st; let mut verif_iter = 0u8; ;; if verif_iter == 1 { return (St { score, victim, occupied, attackers, diagonal_sliders, orthorgonal_sliders, color }, false); } verif_iter += 1; ;; (St { score, victim, occupied, attackers, diagonal_sliders, orthorgonal_sliders, color }, true)

//@@ prefix-early: engine/see.rs :: fn see :: loop { => #[allow(unused_assignments, unused_mut, unused_variables)] fn see_init(game: &Game, mv: Move, threshold: Eval) ;; bool ;; (St, Square) ;; (St { score, victim, occupied, attackers, diagonal_sliders, orthorgonal_sliders, color }, to) ;; false

fn val(k: PieceKind) -> i16 {
    match k {
        PieceKind::Pawn => 100,
        PieceKind::Knight | PieceKind::Bishop => 300,
        PieceKind::Rook => 500,
        PieceKind::Queen => 900,
        PieceKind::King => 10000,
    }
}
fn any_kind() -> PieceKind {
    let k: usize = kani::any();
    kani::assume(k < 6);
    PieceKind::ALL[k]
}

//@ obligation: C20.loop.step
//@ domain: complete
//@ functions: engine/see.rs::see
//@ timeout: 3000
//@ mem_gb: 4
//@ note: one iteration of the exchange loop (block verbatim) from ANY state satisfying the invariant, on a fully symbolic board with an arbitrary target square, arbitrary set of already-spent pieces, running score within +-16000, victim and side: the iteration stops exactly when the protocol says so (side to move already ahead of the threshold / no attacker left / king would capture into an attacked square) and leaves the state untouched; otherwise it spends exactly one attacker of the side to move, of the LEAST valuable kind available, adds or subtracts the victim's value, makes that attacker the next victim, and the attacker / slider sets again equal the attack set of the REDUCED occupancy (x-rays behind the spent piece revealed on the right kind of line, spent pieces never return). No i16 overflow.
//@ assumes: table lookups == geometry (C07); meaning of all_attackers_of: C01.attackers.all_exact; |running score| <= 16000 (one side's non-king material is at most 10300)
#[kani::proof]
#[kani::unwind(10)]
//@@stubs-tables
fn vk_c20_loop_step() {
    let mb = sym::any_mailbox();
    let game = symgame::game_with_board(sym::board_of(&mb));
    let board = &game.board;
    let to = geo::any_square();
    let spent = Bitboard::new(kani::any());
    let occupied = (board.occupancy() & !spent) | to.bb();
    let attackers = movegen::all_attackers_of(board, to, occupied) & occupied;
    let score: i16 = kani::any();
    kani::assume(-16000 <= score && score <= 16000);
    let victim = any_kind();
    let color = geo::any_player();
    let st = St {
        score: Eval(score),
        victim,
        occupied,
        attackers,
        diagonal_sliders: board.all_diagonal_sliders() & occupied,
        orthorgonal_sliders: board.all_orthogonal_sliders() & occupied,
        color,
    };
    let (post, broke) = see_step(&game, board, to, st);

    // ---- the protocol, written independently ----
    let side = color.other();
    let ours = side == game.player;
    let ahead = (ours && score >= 0) || (!ours && score <= 0);
    let mine = attackers & board.occupancy_for(side);
    let theirs = attackers & board.occupancy_for(side.other());
    // least valuable kind available
    let mut least: Option<PieceKind> = None;
    let mut i = 0;
    while i < 6 {
        let k = PieceKind::ALL[i];
        if least.is_none() && (mine & board.pieces_of_kind(k, side)).any() {
            least = Some(k);
        }
        i += 1;
    }
    let king_into_attack = least == Some(PieceKind::King) && theirs.any();
    let stops = ahead || mine.is_empty() || king_into_attack;
    kani::cover!(!stops && least == Some(PieceKind::Queen));
    kani::cover!(king_into_attack && !ahead);
    assert!(post.color == side);
    assert!(broke == stops);
    if stops {
        assert!(post.score.0 == score && post.victim == victim && post.occupied == occupied && post.attackers == attackers);
    } else {
        let k = least.unwrap();
        let gone = occupied ^ post.occupied;
        // exactly one piece was spent: an attacker of the side to move of the least valuable kind
        assert!(gone.count() == 1 && (gone & mine & board.pieces_of_kind(k, side)) == gone);
        assert!((post.occupied & gone).is_empty());
        assert!(post.victim == k);
        assert!(post.score.0 == if ours { score + val(victim) } else { score - val(victim) });
        assert!(post.diagonal_sliders == board.all_diagonal_sliders() & post.occupied);
        assert!(post.orthorgonal_sliders == board.all_orthogonal_sliders() & post.occupied);
        if k != PieceKind::King {
            // x-rays: the attack set is again that of the reduced occupancy
            assert!(post.attackers == movegen::all_attackers_of(board, to, post.occupied) & post.occupied);
        } else {
            assert!(post.attackers == attackers & post.occupied);
        }
    }
}

//@ obligation: C20.loop.init
//@ domain: complete
//@ functions: engine/see.rs::see
//@ timeout: 3000
//@ mem_gb: 4
//@ note: the text of see() before its loop, on a fully symbolic position for every shape-valid non-en-passant capture (capturing promotions included) and every threshold in +-1000: the running score starts at captured value + promotion gain - threshold, the first victim is the piece that will stand on the target square (the promoted piece for a promotion), the occupancy is the board's with the mover lifted and the target square set, the attacker and slider sets satisfy the loop invariant for that occupancy (in particular the mover itself is NOT among the attackers), and the side recorded is the mover's
//@ assumes: table lookups == geometry (C07); meaning of all_attackers_of: C01.attackers.all_exact
#[kani::proof]
#[kani::unwind(10)]
//@@stubs-tables
fn vk_c20_loop_init() {
    let mb = sym::any_mailbox();
    let game = symgame::game_with_board(sym::board_of(&mb));
    let (from, to) = (geo::any_square(), geo::any_square());
    kani::assume(from != to);
    let mover = match mb[from.array_idx()] {
        Some(p) => p,
        None => {
            kani::assume(false);
            unreachable!()
        }
    };
    let captured = match mb[to.array_idx()] {
        Some(p) => p,
        None => {
            kani::assume(false);
            unreachable!()
        }
    };
    kani::assume(mover.player == game.player && captured.player != game.player && captured.kind != PieceKind::King);
    let last_rank = if game.player == Player::White { to.idx() / 8 == 7 } else { to.idx() / 8 == 0 };
    let promo = if mover.kind == PieceKind::Pawn && last_rank {
        Some(match kani::any::<u8>() % 4 {
            0 => PromotionPieceKind::Knight,
            1 => PromotionPieceKind::Bishop,
            2 => PromotionPieceKind::Rook,
            _ => PromotionPieceKind::Queen,
        })
    } else {
        None
    };
    let mv = match promo {
        Some(p) => Move::capture_promotion(from, to, p),
        None => Move::capture(from, to),
    };
    let t: i16 = kani::any();
    kani::assume(-1000 <= t && t <= 1000);
    let r = see_init(&game, mv, Eval(t));
    let board = &game.board;
    let occ = (board.occupancy() & !from.bb()) | to.bb();
    let score0 = val(captured.kind) + match promo { Some(p) => val(p.piece()) - 100, None => 0 } - t;
    let (st, to_got) = match r {
        Ok(x) => x,
        Err(v) => {
            // the function answered BEFORE reaching the exchange loop (no such path exists on the pinned tree).  Where the
            // protocol's first iteration would stop at once -- the opponent is already behind the threshold, or has no
            // attacker of the square once the capture has been made -- the early verdict must be the protocol's; where the
            // exchange would go on, this obligation makes no claim (the whole-function obligations C20.undefended /
            // winning_capture / defended_no_backup decide those)
            let opp = movegen::all_attackers_of(board, to, occ) & occ & board.occupancy_for(game.player.other());
            if score0 <= 0 || opp.is_empty() {
                assert!(v == (score0 >= 0), "early verdict before the exchange loop disagrees with the exchange protocol");
            }
            return;
        }
    };
    kani::cover!(promo.is_some());
    kani::cover!(promo.is_none() && mover.kind == PieceKind::Queen);
    assert!(to_got == to);
    assert!(st.occupied == occ);
    assert!(st.score.0 == score0);
    assert!(st.victim == match promo { Some(p) => p.piece(), None => mover.kind });
    assert!(st.color == game.player);
    assert!(st.attackers == movegen::all_attackers_of(board, to, occ) & occ);
    assert!((st.attackers & from.bb()).is_empty());
    assert!(st.diagonal_sliders == board.all_diagonal_sliders() & occ);
    assert!(st.orthorgonal_sliders == board.all_orthogonal_sliders() & occ);
}

//@ obligation: C20.canary.loop
//@ canary: true
//@ timeout: 3000
//@ mem_gb: 4
#[kani::proof]
#[kani::unwind(10)]
//@@stubs-tables
fn vk_c20_canary_loop() {
    let mb = sym::any_mailbox();
    let game = symgame::game_with_board(sym::board_of(&mb));
    let board = &game.board;
    let to = geo::any_square();
    let occupied = board.occupancy() | to.bb();
    let attackers = movegen::all_attackers_of(board, to, occupied) & occupied;
    let st = St {
        score: Eval(-100),
        victim: PieceKind::Queen,
        occupied,
        attackers,
        diagonal_sliders: board.all_diagonal_sliders() & occupied,
        orthorgonal_sliders: board.all_orthogonal_sliders() & occupied,
        color: game.player.other(),
    };
    let (post, broke) = see_step(&game, board, to, st);
    assert!(broke || post.attackers.count() < attackers.count()); // must FAIL: an x-ray can replace the spent attacker
}
