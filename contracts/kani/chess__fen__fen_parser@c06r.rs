//@@ module: chess/fen/fen_parser.rs
//@@ tag: c06r
//@@ noglob: nom / Vec / HashSet / String are bound by scope to ghost stand-ins (support/gnom.rs, support/gtext.rs)
//@@ needs: chess__fen__fen_writer@c06w.rs
// THE FEN READER'S FIELD PARSERS UNDER CONTRACT.  Every field parser of src/chess/fen/fen_parser.rs is copied VERBATIM from
// /repo on every run into the module `g`, compiled with #![no_implicit_prelude], where the path `nom::...` and the imported
// combinator names resolve to the ghost parser-combinator library (support/gnom.rs: same call-site signatures and documented
// behaviour, written directly over the input bytes) and Vec / HashSet / String to bounded ghost containers.
// Each parser is verified (a) as a TOTAL function on every ASCII input up to a stated length: never panics (the
// `unreachable!()` arms, `unwrap()`s and index expressions included), accepts exactly the standard's tokens, returns the value
// the token denotes and the unconsumed rest; (b) as the INVERSE of the corresponding field writer (contracts/kani/
// chess__fen__fen_writer@c06w.rs): reading the text the writer produces gives back the value -- the losslessness clause of
// C06, field by field.
use crate::chess::game::CastleRights;
use crate::chess::piece::{Piece, PieceKind};
use crate::chess::player::{ByPlayer, Player};
use crate::chess::square::Square;
use crate::verif_support::geo;

macro_rules! vec { ($e:expr; $n:expr) => { Vec::from_elem($e, $n) } }

pub mod g {
    #![no_implicit_prelude]
    use ::core::prelude::rust_2021::*;
    use ::core::unreachable;
    use crate::verif_support::gnom as nom;
    use crate::verif_support::gnom::{
        branch::alt,
        bytes::complete::tag,
        character::complete::{char, one_of, satisfy, space0, space1},
        combinator::{eof, map, opt, value},
        multi::many1,
        sequence::{pair, preceded, terminated, tuple},
        IResult,
    };
    pub use crate::verif_support::gnom::{HashSet, Vec};
    pub use crate::verif_support::gtext::{String, ToString};
    use crate::chess::game::CastleRights;
    use crate::chess::piece::Piece;
    use crate::chess::player::{ByPlayer, Player};
    use crate::chess::square::{File, Rank, Square};

    //@@ item: chess/fen/fen_parser.rs :: struct FenRank
    //@@ item: chess/fen/fen_parser.rs :: enum FenCastleRight
    //@@ body: chess/fen/fen_parser.rs :: fn fen_piece => fen_piece pub
    //@@ body: chess/fen/fen_parser.rs :: fn fen_empty_squares => fen_empty_squares pub
    //@@ body: chess/fen/fen_parser.rs :: fn fen_line => fen_line pub
    //@@ body: chess/fen/fen_parser.rs :: fn fen_color => fen_color pub
    //@@ body: chess/fen/fen_parser.rs :: fn fen_castle_right => fen_castle_right pub
    //@@ body: chess/fen/fen_parser.rs :: fn fen_castling => fen_castling pub
    //@@ body: chess/fen/fen_parser.rs :: fn fen_file => fen_file pub
    //@@ body: chess/fen/fen_parser.rs :: fn fen_rank => fen_rank pub
    //@@ body: chess/fen/fen_parser.rs :: fn fen_square => fen_square pub
    //@@ body: chess/fen/fen_parser.rs :: fn fen_en_passant_target => fen_en_passant_target pub

    pub fn rank_squares(r: &FenRank) -> &[Option<Piece>] {
        &r.0
    }
    pub fn castle_right_is_err(s: &str) -> bool {
        fen_castle_right(s).is_err()
    }
    // filler value of the bounded ghost Vec's unused slots (never observable)
    impl Default for FenCastleRight {
        fn default() -> Self {
            FenCastleRight::WhiteKingside
        }
    }
}

/// scope for fen_line against the CONTRACTS of its two token parsers (what they are: C06.reader.piece_letter and
/// C06.reader.empty_run), so that the query holds only what fen_line itself contributes: many1 / alt / concat / width check
pub mod g_line {
    #![no_implicit_prelude]
    use ::core::prelude::rust_2021::*;
    use crate::verif_support::gnom as nom;
    use crate::verif_support::gnom::{branch::alt, combinator::map, multi::many1, IResult};
    pub use crate::verif_support::gnom::Vec;
    use crate::chess::piece::Piece;
    use crate::chess::square::File;
    //@@ item: chess/fen/fen_parser.rs :: struct FenRank
    /// CONTRACT (C06.reader.piece_letter): one of the twelve piece letters
    pub fn fen_piece(input: &str) -> IResult<&str, Piece> {
        let b = input.as_bytes();
        if b.len() >= 1 {
            if let Some(p) = super::spec_piece(b[0]) {
                return Ok((&input[1..], p));
            }
        }
        Err(nom::Err::Error(nom::error::Error::new(input, nom::error::ErrorKind::OneOf)))
    }
    /// CONTRACT (C06.reader.empty_run): a digit 1..8 = that many empty squares
    pub fn fen_empty_squares(input: &str) -> IResult<&str, Vec<Option<Piece>>> {
        let b = input.as_bytes();
        if b.len() >= 1 && b[0] >= b'1' && b[0] <= b'8' {
            let none: Option<Piece> = None;
            return Ok((&input[1..], Vec::from_elem(none, (b[0] - b'0') as usize)));
        }
        Err(nom::Err::Error(nom::error::Error::new(input, nom::error::ErrorKind::OneOf)))
    }
    //@@ body: chess/fen/fen_parser.rs :: fn fen_line => fen_line pub
    pub fn rank_squares(r: &FenRank) -> &[Option<Piece>] {
        &r.0
    }
}

// ---------------------------------------------------------------------------------------------------------------------
// independent specification (FEN standard)
// ---------------------------------------------------------------------------------------------------------------------
fn spec_piece(c: u8) -> Option<Piece> {
    let kind = match c | 32 {
        b'p' => PieceKind::Pawn,
        b'n' => PieceKind::Knight,
        b'b' => PieceKind::Bishop,
        b'r' => PieceKind::Rook,
        b'q' => PieceKind::Queen,
        b'k' => PieceKind::King,
        _ => return None,
    };
    if c < b'A' || (c > b'Z' && c < b'a') || c > b'z' {
        return None;
    }
    Some(Piece::new(if c & 32 == 0 { Player::White } else { Player::Black }, kind))
}

const L: usize = 9;
/// an arbitrary ASCII text of at most L bytes
fn any_ascii(buf: &mut [u8; L]) -> &str {
    let n: usize = kani::any();
    kani::assume(n <= L);
    let mut i = 0;
    while i < L {
        buf[i] = kani::any();
        kani::assume(buf[i] < 128);
        i += 1;
    }
    unsafe { core::str::from_utf8_unchecked(&buf[..n]) }
}

//@ obligation: C06.reader.piece_letter
//@ domain: bounded(ASCII input of <= 9 bytes; the parser looks at one byte)
//@ functions: chess/fen/fen_parser.rs::fen_piece
//@ timeout: 600
//@ mem_gb: 4
//@ note: fen_piece is total (the unreachable!() arm is unreachable): it accepts exactly the twelve letters PNBRQKpnbrqk, returns the piece the letter denotes (upper case = White) and the rest of the input after that one byte; anything else (empty input included) is a parse error
//@ assumes: ghost nom library (support/gnom.rs) stands for the nom crate's combinators as documented
#[kani::proof]
#[kani::unwind(14)]
fn vk_c06_reader_piece_letter() {
    let mut buf = [0u8; L];
    let s = any_ascii(&mut buf);
    let r = g::fen_piece(s);
    kani::cover!(r.is_ok());
    kani::cover!(r.is_err() && s.len() > 0);
    let want = if s.len() > 0 { spec_piece(s.as_bytes()[0]) } else { None };
    match r {
        Ok((rest, p)) => {
            assert!(want == Some(p));
            assert!(rest.len() + 1 == s.len() && rest.as_ptr() as usize == s.as_ptr() as usize + 1);
        }
        Err(_) => assert!(want.is_none()),
    }
}

//@ obligation: C06.reader.empty_run
//@ domain: bounded(ASCII input of <= 9 bytes; the parser looks at one byte)
//@ functions: chess/fen/fen_parser.rs::fen_empty_squares
//@ timeout: 600
//@ mem_gb: 4
//@ note: fen_empty_squares is total (the digit conversion `to_string().parse::<usize>().unwrap()` cannot fail): it accepts exactly the digits 1..8 and returns that many empty squares and the rest of the input after that one byte; '0', '9' and everything else is a parse error
//@ assumes: ghost nom library (support/gnom.rs); ghost String (char -> text -> usize)
#[kani::proof]
#[kani::unwind(12)]
fn vk_c06_reader_empty_run() {
    let mut buf = [0u8; L];
    let s = any_ascii(&mut buf);
    let r = g::fen_empty_squares(s);
    let b = s.as_bytes();
    let ok = b.len() > 0 && b[0] >= b'1' && b[0] <= b'8';
    kani::cover!(ok && b[0] == b'8');
    match r {
        Ok((rest, v)) => {
            assert!(ok && rest.len() + 1 == s.len());
            assert!(v.len() == (b[0] - b'0') as usize);
            let mut i = 0;
            while i < 8 {
                if i < v.len() {
                    assert!(v[i].is_none());
                }
                i += 1;
            }
        }
        Err(_) => assert!(!ok),
    }
}

//@ obligation: C06.reader.rank
//@ domain: bounded(ASCII input of <= 9 bytes -- a rank token has at most 8; token prefixes describing more than 10 squares are outside the bound)
//@ functions: chess/fen/fen_parser.rs::fen_line
//@ timeout: 1800
//@ mem_gb: 8
//@ note: fen_line against the contracts of its two token parsers (C06.reader.piece_letter, C06.reader.empty_run): it is total, consumes the longest prefix made of piece letters and digits 1..8, and ACCEPTS it if and only if that prefix describes exactly eight squares -- then the squares are, in order, the pieces named and the empty runs counted; a prefix of any other width, or no token at all, is a parse error (a board field whose ranks do not each describe eight squares is rejected)
//@ assumes: ghost nom library (support/gnom.rs); ghost Vec (bounded) / String for the digit conversion
#[kani::proof]
#[kani::unwind(12)]
fn vk_c06_reader_rank() {
    let mut buf = [0u8; L];
    let s = any_ascii(&mut buf);
    let r = g_line::fen_line(s);
    // independent decoder: longest prefix of tokens
    let b = s.as_bytes();
    let mut sq: [Option<Piece>; 8] = [None; 8];
    let mut width: usize = 0;
    let mut k = 0;
    let mut stop = false;
    let mut j = 0;
    while j < L {
        j += 1;
        if k < b.len() && !stop {
            let c = b[k];
            if c >= b'1' && c <= b'8' {
                width += (c - b'0') as usize;
            } else if let Some(p) = spec_piece(c) {
                if width < 8 {
                    sq[width] = Some(p);
                }
                width += 1;
            } else {
                stop = true;
            }
            if !stop {
                k += 1;
            }
        } else {
            stop = true;
        }
    }
    // k = number of token bytes
    kani::cover!(r.is_ok() && k == 8);
    kani::cover!(r.is_ok() && k == 1);
    kani::cover!(r.is_err() && k > 0 && width == 9);
    match r {
        Ok((rest, rank)) => {
            assert!(k > 0 && width == 8, "a rank that does not describe exactly eight squares was accepted");
            assert!(rest.len() + k == s.len());
            let v = g_line::rank_squares(&rank);
            assert!(v.len() == 8);
            let mut f = 0;
            while f < 8 {
                assert!(v[f] == sq[f]);
                f += 1;
            }
        }
        Err(_) => assert!(k == 0 || width != 8, "a well-formed rank was rejected"),
    }
}

//@ obligation: C06.reader.castling
//@ domain: bounded(ASCII input of <= 9 bytes)
//@ functions: chess/fen/fen_parser.rs::fen_castling, chess/fen/fen_parser.rs::fen_castle_right
//@ timeout: 900
//@ mem_gb: 6
//@ note: fen_castling is total: it accepts '-' (no rights) or the longest non-empty run of the letters K Q k q (any order; a repeated letter changes nothing) and returns exactly the rights whose letters occur; anything else is a parse error; the rest of the input is returned
//@ assumes: ghost nom library (support/gnom.rs); ghost HashSet (collect + contains)
#[kani::proof]
#[kani::unwind(12)]
fn vk_c06_reader_castling() {
    let mut buf = [0u8; L];
    let s = any_ascii(&mut buf);
    let r = g::fen_castling(s);
    let b = s.as_bytes();
    let (mut wk, mut wq, mut bk, mut bq) = (false, false, false, false);
    let mut k = 0;
    let mut stop = false;
    let mut j = 0;
    while j < L {
        j += 1;
        if k < b.len() && !stop {
            match b[k] {
                b'K' => wk = true,
                b'Q' => wq = true,
                b'k' => bk = true,
                b'q' => bq = true,
                _ => stop = true,
            }
            if !stop {
                k += 1;
            }
        } else {
            stop = true;
        }
    }
    let dash = b.len() > 0 && b[0] == b'-';
    kani::cover!(r.is_ok() && k == 4);
    kani::cover!(r.is_ok() && dash);
    match r {
        Ok((rest, rights)) => {
            assert!(dash || k > 0);
            let (w, bl) = (rights.white(), rights.black());
            if dash {
                assert!(rest.len() + 1 == s.len());
                assert!(!w.king_side && !w.queen_side && !bl.king_side && !bl.queen_side);
            } else {
                assert!(rest.len() + k == s.len());
                assert!(w.king_side == wk && w.queen_side == wq && bl.king_side == bk && bl.queen_side == bq);
            }
        }
        Err(_) => assert!(!dash && k == 0),
    }
}

//@ obligation: C06.reader.side_and_ep
//@ domain: bounded(ASCII input of <= 9 bytes)
//@ functions: chess/fen/fen_parser.rs::fen_color, chess/fen/fen_parser.rs::fen_en_passant_target, chess/fen/fen_parser.rs::fen_square, chess/fen/fen_parser.rs::fen_file, chess/fen/fen_parser.rs::fen_rank
//@ timeout: 900
//@ mem_gb: 6
//@ note: fen_color accepts exactly 'w' (White) / 'b' (Black); fen_en_passant_target accepts '-' (none) or a file letter a..h followed by a rank digit 1..8 and returns that square (file = letter - 'a', rank = digit - '1'); both are total (unreachable!() arms unreachable) and return the rest of the input
//@ assumes: ghost nom library (support/gnom.rs)
#[kani::proof]
#[kani::unwind(12)]
fn vk_c06_reader_side_and_ep() {
    let mut buf = [0u8; L];
    let s = any_ascii(&mut buf);
    let b = s.as_bytes();
    let c = g::fen_color(s);
    match c {
        Ok((rest, p)) => {
            assert!(b.len() > 0 && rest.len() + 1 == s.len());
            assert!((b[0] == b'w' && p == Player::White) || (b[0] == b'b' && p == Player::Black));
        }
        Err(_) => assert!(b.len() == 0 || (b[0] != b'w' && b[0] != b'b')),
    }
    let e = g::fen_en_passant_target(s);
    let is_sq = b.len() >= 2 && b[0] >= b'a' && b[0] <= b'h' && b[1] >= b'1' && b[1] <= b'8';
    let dash = b.len() >= 1 && b[0] == b'-';
    kani::cover!(is_sq);
    kani::cover!(dash);
    match e {
        Ok((rest, t)) => {
            assert!(dash || is_sq);
            if dash {
                assert!(t.is_none() && rest.len() + 1 == s.len());
            } else {
                assert!(rest.len() + 2 == s.len());
                assert!(t == Some(Square::from_index((b[1] - b'1') * 8 + (b[0] - b'a'))));
            }
        }
        Err(_) => assert!(!dash && !is_sq),
    }
}

// ---------------------------------------------------------------------------------------------------------------------
// the two composite parsers against TAGGING CONTRACTS of their callees
// ---------------------------------------------------------------------------------------------------------------------

/// fen_parser (the top level) against tagging contracts of the six field parsers and a recording ghost of Game::from_state
pub mod g_top {
    #![no_implicit_prelude]
    use ::core::prelude::rust_2021::*;
    use super::super::plies_from_fullmove_number;
    use crate::verif_support::gnom as nom;
    use crate::verif_support::gnom::{character::complete::{space0, space1}, combinator::{eof, opt}, sequence::{preceded, terminated, tuple}, IResult};
    use crate::chess::game::CastleRights;
    use crate::chess::player::{ByPlayer, Player};
    use crate::chess::square::Square;

    pub struct Board(pub u8);
    /// ghost Game: from_state records what it was handed, under the real field names; a body that goes on to "adjust" the
    /// game it built (clear the en-passant target, change the clocks ...) is then refuted by the obligation's postcondition
    /// instead of losing the anchor: moves() offers an arbitrary short list, the key offers its setters
    pub struct GhostKey;
    impl GhostKey {
        pub fn set_en_passant(&mut self, _old: Option<Square>, _new: Option<Square>) {}
        pub fn toggle_castle_rights(&mut self, _p: Player, _r: &CastleRights) {}
        pub fn toggle_side_to_play(&mut self) {}
    }
    pub struct Game {
        pub board: Board,
        pub player: Player,
        pub castle_rights: ByPlayer<CastleRights>,
        pub en_passant_target: Option<Square>,
        pub halfmove_clock: u32,
        pub plies: u32,
        pub zobrist: GhostKey,
    }
    impl Game {
        pub fn from_state(board: Board, player: Player, castle_rights: ByPlayer<CastleRights>, en_passant_target: Option<Square>, halfmove_clock: u32, plies: u32) -> Self {
            Game { board, player, castle_rights, en_passant_target, halfmove_clock, plies, zobrist: GhostKey }
        }
        /// the legal moves of the position: arbitrary here (at most two, which is enough to make "some / no move has
        /// property X" both possible)
        pub fn moves(&self) -> [crate::chess::moves::Move; 2] {
            let mk = || {
                let (s, d): (u8, u8) = (::kani::any(), ::kani::any());
                ::kani::assume(s < 64 && d < 64 && s != d);
                let (s, d) = (Square::from_index(s), Square::from_index(d));
                if ::kani::any() { crate::chess::moves::Move::en_passant(s, d) } else { crate::chess::moves::Move::quiet(s, d) }
            };
            [mk(), mk()]
        }
        pub fn is_king_in_check(&self) -> bool {
            ::kani::any()
        }
    }
    fn one<'a>(input: &'a str, lo: u8, hi: u8) -> IResult<&'a str, u8> {
        let b = input.as_bytes();
        if b.len() >= 1 && b[0] >= lo && b[0] <= hi {
            return Ok((&input[1..], b[0]));
        }
        Err(nom::Err::Error(nom::error::Error::new(input, nom::error::ErrorKind::OneOf)))
    }
    // CONTRACTS of the field parsers as seen by fen_parser: each consumes ONE token (here a single byte from a class of its
    // own) and returns a value that identifies the token
    pub fn fen_position(input: &str) -> IResult<&str, Board> {
        let (r, b) = one(input, b'A', b'Z')?;
        Ok((r, Board(b)))
    }
    pub fn fen_color(input: &str) -> IResult<&str, Player> {
        let (r, b) = one(input, b'v', b'w')?;
        Ok((r, if b == b'w' { Player::White } else { Player::Black }))
    }
    pub fn fen_castling(input: &str) -> IResult<&str, ByPlayer<CastleRights>> {
        let (r, b) = one(input, b'0', b'?')?;
        let k = b - b'0';
        Ok((r, ByPlayer::new(CastleRights { king_side: k & 1 != 0, queen_side: k & 2 != 0 }, CastleRights { king_side: k & 4 != 0, queen_side: k & 8 != 0 })))
    }
    pub fn fen_en_passant_target(input: &str) -> IResult<&str, Option<Square>> {
        let (r, b) = one(input, b'`', b'h')?;
        Ok((r, if b == b'`' { None } else { Some(Square::from_index(16 + (b - b'a'))) }))
    }
    pub fn fen_halfmove_clock(input: &str) -> IResult<&str, u32> {
        nom::character::complete::u32(input)
    }
    pub fn fen_fullmove_number(input: &str) -> IResult<&str, u32> {
        nom::character::complete::u32(input)
    }
    //@@ body: chess/fen/fen_parser.rs :: fn fen_parser => fen_parser pub
}

/// `parse` (the reader's entry point) against the CONTRACT of fen_parser: any outcome nom allows -- Ok with some rest, or an
/// Error / Failure whose `input` is a SUFFIX of the text at a character boundary.  `format!` builds the message with the
/// real format_args! (so every argument expression is evaluated and type-checked) but the text itself is dropped.
pub mod g_entry {
    #![no_implicit_prelude]
    use ::core::prelude::rust_2021::*;
    // constants / helpers of the parser's own module that the body may name (everything defined below shadows this glob)
    #[allow(unused_imports)]
    use super::super::*;
    use crate::verif_support::gnom as nom;
    use crate::verif_support::gnom::IResult;
    pub use crate::verif_support::gtext::String;
    macro_rules! format { ($($t:tt)*) => { { let _ = ::core::format_args!($($t)*); String::new() } } }
    pub struct Game(pub u8);
    pub static mut OUTCOME: u8 = 0; // 0 Ok, 1 Error, 2 Failure
    pub static mut CUT: usize = 0; // byte offset (a character boundary) where the parser stopped
    pub fn fen_parser(input: &str) -> IResult<&str, Game> {
        let (o, k) = unsafe { (OUTCOME, CUT) };
        let rest = &input[k..];
        match o {
            0 => Ok((rest, Game(7))),
            1 => Err(nom::Err::Error(nom::error::Error::new(rest, nom::error::ErrorKind::Verify))),
            _ => Err(nom::Err::Failure(nom::error::Error::new(rest, nom::error::ErrorKind::Verify))),
        }
    }
    //@@ body: chess/fen/fen_parser.rs :: fn parse => parse pub
}

const NCH: usize = 7;
/// an arbitrary valid UTF-8 text of at most NCH characters of 1, 2 or 3 bytes; returns the text and its character starts
fn any_utf8(buf: &mut [u8; NCH * 3], starts: &mut [usize; NCH + 1]) -> (usize, usize) {
    let nch: usize = kani::any();
    kani::assume(nch <= NCH);
    let mut n = 0;
    let mut c = 0;
    while c < NCH {
        starts[c] = n;
        if c < nch {
            let w: u8 = kani::any();
            kani::assume(w >= 1 && w <= 3);
            let (b0, b1, b2): (u8, u8, u8) = (kani::any(), kani::any(), kani::any());
            if w == 1 {
                kani::assume(b0 < 0x80);
                buf[n] = b0;
            } else if w == 2 {
                kani::assume(b0 >= 0xC2 && b0 <= 0xDF && b1 >= 0x80 && b1 <= 0xBF);
                buf[n] = b0;
                buf[n + 1] = b1;
            } else {
                kani::assume(b0 >= 0xE1 && b0 <= 0xEC && b1 >= 0x80 && b1 <= 0xBF && b2 >= 0x80 && b2 <= 0xBF);
                buf[n] = b0;
                buf[n + 1] = b1;
                buf[n + 2] = b2;
            }
            n += w as usize;
        }
        c += 1;
    }
    starts[NCH] = n;
    (n, nch)
}

//@ obligation: C06.reader.tokens_total_utf8
//@ domain: bounded(valid UTF-8 input of <= 3 characters of 1..3 bytes each)
//@ functions: chess/fen/fen_parser.rs::fen_piece, chess/fen/fen_parser.rs::fen_empty_squares, chess/fen/fen_parser.rs::fen_castle_right, chess/fen/fen_parser.rs::fen_file, chess/fen/fen_parser.rs::fen_rank
//@ timeout: 1200
//@ mem_gb: 8
//@ note: the single-token parsers on NON-ASCII text too: for every valid UTF-8 input of up to three characters (multi-byte characters included) they return a value or a parse error and never panic (no unwrap on a character that merely looks like a digit or letter, no slicing inside a character), and what they accept starts with an ASCII byte
//@ assumes: ghost nom library (support/gnom.rs); core's char decoding / classification as compiled
#[kani::proof]
#[kani::unwind(24)]
fn vk_c06_reader_tokens_total_utf8() {
    let mut buf = [0u8; NCH * 3];
    let mut starts = [0usize; NCH + 1];
    let (n, nch) = any_utf8(&mut buf, &mut starts);
    kani::assume(nch <= 3);
    let s = unsafe { core::str::from_utf8_unchecked(&buf[..n]) };
    kani::cover!(n > 0 && buf[0] >= 0x80);
    let ascii_first = n > 0 && buf[0] < 0x80;
    assert!(g::fen_piece(s).is_err() || ascii_first);
    assert!(g::fen_empty_squares(s).is_err() || ascii_first);
    assert!(g::castle_right_is_err(s) || ascii_first);
    assert!(g::fen_file(s).is_err() || ascii_first);
    assert!(g::fen_rank(s).is_err() || ascii_first);
}

//@ obligation: C06.reader.entry_total
//@ domain: bounded(valid UTF-8 input of <= 7 characters of 1..3 bytes each, multi-byte characters included)
//@ functions: chess/fen/fen_parser.rs::parse
//@ timeout: 900
//@ mem_gb: 6
//@ note: the reader's entry point against the contract of fen_parser (Ok with some rest / Error / Failure at any character boundary of the text): for EVERY text -- non-ASCII included -- it returns Ok exactly when the parser accepted and a reported error otherwise, and never panics (no byte-index slicing of the text at a non-boundary, no arithmetic on lengths that can underflow)
//@ assumes: nom reports errors whose input is a suffix of the text at a character boundary (ghost nom library); the message text itself is not examined
#[kani::proof]
#[kani::unwind(24)]
fn vk_c06_reader_entry_total() {
    let mut buf = [0u8; NCH * 3];
    let mut starts = [0usize; NCH + 1];
    let (n, nch) = any_utf8(&mut buf, &mut starts);
    let s = unsafe { core::str::from_utf8_unchecked(&buf[..n]) };
    let cut: usize = kani::any();
    kani::assume(cut <= nch);
    unsafe {
        g_entry::OUTCOME = kani::any();
        kani::assume(g_entry::OUTCOME <= 2);
        g_entry::CUT = if cut == nch { n } else { starts[cut] };
    }
    let r = g_entry::parse(s);
    kani::cover!(r.is_ok());
    kani::cover!(r.is_err() && n > 14);
    assert!(r.is_ok() == (unsafe { g_entry::OUTCOME } == 0));
}

const LP: usize = 17;
const LA: usize = 13; // "P w 5 - 12 34"
fn any_ascii_p(buf: &mut [u8; LP]) -> &str {
    let n: usize = kani::any();
    kani::assume(n <= LP);
    let mut i = 0;
    while i < LP {
        buf[i] = kani::any();
        kani::assume(buf[i] < 128);
        i += 1;
    }
    unsafe { core::str::from_utf8_unchecked(&buf[..n]) }
}

//@ obligation: C06.reader.assembly
//@ domain: bounded(ASCII input of <= 13 bytes with one-byte tokens for the first four fields)
//@ functions: chess/fen/fen_parser.rs::fen_parser, chess/fen/fen_parser.rs::plies_from_fullmove_number
//@ timeout: 1800
//@ mem_gb: 8
//@ note: fen_parser against tagging contracts of the six field parsers: it is total; accepts exactly board, side, castling, en-passant fields separated by one or more spaces/tabs, optionally followed by the halfmove clock and then the fullmove number (each after spaces), then optional spaces and the END of the input (trailing garbage is rejected); the position is built from exactly these field values in this order, a missing halfmove clock is 0, a missing fullmove number is 1, and plies = plies_from_fullmove_number(fullmove, side)
//@ assumes: ghost nom library; field-parser contracts C06.reader.*; Game::from_state (C03.base.from_state / C15.base)
#[kani::proof]
#[kani::unwind(20)]
fn vk_c06_reader_assembly() {
    let mut buf = [0u8; LP];
    let s = any_ascii_p(&mut buf);
    kani::assume(s.len() <= LA);
    let b = s.as_bytes();
    let n = b.len();
    let r = g_top::fen_parser(s);
    // ---- independent recogniser of the same little grammar ----
    let sp = |c: u8| c == b' ' || c == b'\t';
    let dg = |c: u8| c >= b'0' && c <= b'9';
    let mut j = 0usize;
    let mut ok = true;
    // four one-byte fields separated by space runs
    let classes: [(u8, u8); 4] = [(b'A', b'Z'), (b'v', b'w'), (b'0', b'?'), (b'`', b'h')];
    let mut vals = [0u8; 4];
    let mut f = 0;
    while f < 4 {
        if ok {
            if f > 0 {
                // one or more spaces
                if j < n && sp(b[j]) {
                    let mut q = 0;
                    while q < LA {
                        if j < n && sp(b[j]) {
                            j += 1;
                        }
                        q += 1;
                    }
                } else {
                    ok = false;
                }
            }
            if ok && j < n && b[j] >= classes[f].0 && b[j] <= classes[f].1 {
                vals[f] = b[j];
                j += 1;
            } else {
                ok = false;
            }
        }
        f += 1;
    }
    // up to two optional numbers, each after a space run
    let mut nums: [Option<u32>; 2] = [None, None];
    let mut t = 0;
    while t < 2 {
        if ok && (t == 0 || nums[0].is_some()) {
            // look ahead: spaces then at least one digit
            let mut q = j;
            let mut c = 0;
            while c < LA {
                if q < n && sp(b[q]) {
                    q += 1;
                }
                c += 1;
            }
            if q > j && q < n && dg(b[q]) {
                let mut v: u32 = 0;
                let mut c = 0;
                while c < LA {
                    if q < n && dg(b[q]) {
                        v = v * 10 + (b[q] - b'0') as u32;
                        q += 1;
                    }
                    c += 1;
                }
                nums[t] = Some(v);
                j = q;
            }
        }
        t += 1;
    }
    // optional spaces, then the end
    if ok {
        let mut c = 0;
        while c < LA {
            if j < n && sp(b[j]) {
                j += 1;
            }
            c += 1;
        }
        ok = j == n;
    }
    kani::cover!(ok && nums[1].is_some());
    kani::cover!(ok && nums[0].is_none());
    kani::cover!(ok && nums[0].is_some() && nums[1].is_none());
    match r {
        Ok((rest, game)) => {
            assert!(ok, "input that is not a well-formed FEN line was accepted");
            assert!(rest.len() == 0);
            assert!(game.board.0 == vals[0]);
            let side = if vals[1] == b'w' { Player::White } else { Player::Black };
            assert!(game.player == side);
            let k = vals[2] - b'0';
            let (w, bl) = (game.castle_rights.white(), game.castle_rights.black());
            assert!(w.king_side == (k & 1 != 0) && w.queen_side == (k & 2 != 0) && bl.king_side == (k & 4 != 0) && bl.queen_side == (k & 8 != 0));
            assert!(game.en_passant_target == if vals[3] == b'`' { None } else { Some(Square::from_index(16 + (vals[3] - b'a'))) }, "the position read differs from the en-passant field of the text");
            assert!(game.halfmove_clock == nums[0].unwrap_or(0), "halfmove clock field (default 0)");
            let full = nums[1].unwrap_or(1);
            let want_plies = full.saturating_sub(1).saturating_mul(2).saturating_add(if side == Player::Black { 1 } else { 0 });
            assert!(game.plies == want_plies, "fullmove number field (default 1) -> plies");
        }
        Err(_) => assert!(!ok, "a well-formed FEN line was rejected"),
    }
}

// ---------------------------------------------------------------------------------------------------------------------
// ROUND TRIPS: the reader applied to the text the WRITER produces (both real function texts, each in its ghost scope)
// ---------------------------------------------------------------------------------------------------------------------
use crate::chess::fen::fen_writer::verif_kani_c06w as w;

//@ obligation: C06.roundtrip.rank
//@ domain: complete
//@ functions: chess/fen/fen_writer.rs::format_rank, chess/fen/fen_parser.rs::fen_line
//@ timeout: 2400
//@ mem_gb: 10
//@ note: LOSSLESS, rank by rank: for every content of a rank (13^8), reading (fen_line) the text that the writer (format_rank) produces for it consumes the whole text and returns exactly that rank
//@ assumes: ghost text library and ghost nom library; token-parser contracts C06.reader.piece_letter / empty_run
#[kani::proof]
#[kani::unwind(12)]
fn vk_c06_roundtrip_rank() {
    let mut rank: [Option<Piece>; 8] = [None; 8];
    let mut i = 0;
    while i < 8 {
        rank[i] = w::any_piece_opt();
        i += 1;
    }
    let t = w::g::format_rank(&rank);
    let r = g_line::fen_line(&t);
    kani::cover!(t.len() == 8);
    kani::cover!(t.len() == 1);
    match r {
        Ok((rest, got)) => {
            assert!(rest.len() == 0, "the reader stops before the end of the rank text");
            let v = g_line::rank_squares(&got);
            assert!(v.len() == 8);
            let mut f = 0;
            while f < 8 {
                assert!(v[f] == rank[f], "rank text does not read back");
                f += 1;
            }
        }
        Err(_) => assert!(false, "the reader rejects a rank text the writer produced"),
    }
}

//@ obligation: C06.roundtrip.fields
//@ domain: complete
//@ functions: chess/fen/fen_writer.rs::format_castle_rights, chess/fen/fen_writer.rs::format_current_player, chess/fen/fen_writer.rs::format_en_passant_target, chess/fen/fen_parser.rs::fen_castling, chess/fen/fen_parser.rs::fen_color, chess/fen/fen_parser.rs::fen_en_passant_target
//@ timeout: 1200
//@ mem_gb: 8
//@ note: LOSSLESS, field by field: for all 16 combinations of castling rights, both sides to move and every en-passant target (none or any of the 64 squares), reading the text the writer produces for the field consumes it entirely and returns the value written
//@ assumes: ghost text library and ghost nom library
#[kani::proof]
#[kani::unwind(12)]
fn vk_c06_roundtrip_fields() {
    let game = w::any_fields_game();
    let t = w::g::format_castle_rights(&game);
    match g::fen_castling(&t) {
        Ok((rest, r)) => {
            assert!(rest.len() == 0);
            let (a, b) = (r.white(), r.black());
            let (c, d) = (game.castle_rights.white(), game.castle_rights.black());
            assert!(a.king_side == c.king_side && a.queen_side == c.queen_side && b.king_side == d.king_side && b.queen_side == d.queen_side, "castling rights do not read back");
        }
        Err(_) => assert!(false, "the reader rejects a castling field the writer produced"),
    }
    let t = w::g::format_current_player(&game);
    match g::fen_color(&t) {
        Ok((rest, p)) => assert!(rest.len() == 0 && p == game.player),
        Err(_) => assert!(false, "the reader rejects a side-to-move field the writer produced"),
    }
    let t = w::g::format_en_passant_target(&game);
    kani::cover!(game.en_passant_target.is_some());
    match g::fen_en_passant_target(&t) {
        Ok((rest, e)) => {
            assert!(rest.len() == 0);
            assert!(e == game.en_passant_target.map(|s| s.0), "en-passant target does not read back");
        }
        Err(_) => assert!(false, "the reader rejects an en-passant field the writer produced"),
    }
}

//@ obligation: C06.canary.reader
//@ canary: true
//@ timeout: 900
//@ mem_gb: 6
#[kani::proof]
#[kani::unwind(12)]
fn vk_c06_canary_reader() {
    let mut buf = [0u8; L];
    let s = any_ascii(&mut buf);
    let r = g_line::fen_line(s);
    assert!(r.is_err()); // must FAIL: "8" is a rank
}
