//@@ module: engine/transposition_table.rs
//@@ tag: c19
// Kani twins of two Verus obligations, on small tables: they run the REAL functions as compiled (whatever std calls the
// bodies use), so they stay decidable when a body is rewritten with library calls Verus has no specification for.

#[derive(Clone)]
pub struct D(pub u8);
impl TTOverwriteable for D {
    fn should_overwrite_with(&self, _new: &Self) -> bool {
        kani::any()
    }
}

fn any_slot(occ: &mut usize) -> Option<TranspositionTableEntry<D>> {
    if kani::any() {
        *occ += 1;
        Some(TranspositionTableEntry { key: ZobristHash(kani::any()), data: D(kani::any()) })
    } else {
        None
    }
}
/// a table of exactly 3 slots with arbitrary contents and counters
fn any_table(_len: usize) -> TranspositionTable<D> {
    let mut occ = 0;
    let data = vec![any_slot(&mut occ), any_slot(&mut occ), any_slot(&mut occ)];
    TranspositionTable { data, generation: kani::any(), occupied: occ, size: kani::any() }
}

//@ obligation: C19.tt.reset_small
//@ property: C19 C12
//@ domain: bounded(table of 3 slots)
//@ functions: engine/transposition_table.rs::TranspositionTable<T>::reset
//@ timeout: 900
//@ mem_gb: 6
//@ note: Kani twin of C19.tt.reset on a table of 3 slots with arbitrary contents and counters (well-formed: occupied == number of filled slots): after reset every slot is empty, generation and occupied are 0, the length is unchanged -- whatever the fill level was (a sparsely filled table included)
#[kani::proof]
#[kani::unwind(6)]
fn vk_c19_tt_reset_small() {
    let len: usize = 3;
    let mut t = any_table(len);
    t.reset();
    let j: usize = kani::any();
    kani::assume(j < len);
    kani::cover!(true);
    assert!(t.data.len() == len && t.data[j].is_none());
    assert!(t.generation == 0 && t.occupied == 0);
    std::mem::forget(t);
}

//@ obligation: C19.tt.occupancy
//@ property: C19 C04 C13
//@ domain: bounded(table of 3 slots)
//@ functions: engine/transposition_table.rs::TranspositionTable<T>::occupancy
//@ timeout: 900
//@ mem_gb: 6
//@ note: the fill indicator (f32 arithmetic, decided by CBMC's bit-precise floats): 0 for an empty table, 1000 for a full one, never above 1000, monotone in the number of occupied slots, for a table of 3 slots
#[kani::proof]
#[kani::unwind(6)]
fn vk_c19_tt_occupancy() {
    let len: usize = 3;
    let t = any_table(len);
    let o = t.occupancy();
    kani::cover!(t.occupied == 2);
    assert!(o <= 1000);
    if t.occupied == 0 {
        assert!(o == 0);
    }
    if t.occupied == len {
        assert!(o == 1000);
    }
    if t.occupied == 1 {
        assert!(o == 333);
    }
    if t.occupied == 2 {
        assert!(o == 666);
    }
    std::mem::forget(t);
}
