//@@ module: chess/movegen/tables/attacks.rs
//@@ tag: c07
// Contracts of the repo's first-principles attack generators against the coordinate geometry.
use crate::verif_support::geo;

//@ obligation: C07.walk.rook
//@ domain: complete
//@ functions: chess/movegen/tables/attacks.rs::generate_rook_attacks, chess/movegen/tables/attacks.rs::generate_sliding_attacks
//@ timeout: 900
//@ mem_gb: 6
//@ note: all 64 squares x all 2^64 occupancies; ray loops are bounded by the board (<= 8 steps) and unwound with unwinding assertions
#[kani::proof]
#[kani::unwind(10)]
fn vk_c07_walk_rook() {
    let s = geo::any_square();
    let occ: u64 = kani::any();
    kani::cover!(occ.count_ones() > 5);
    assert!(generate_rook_attacks(s, Bitboard::new(occ)).as_u64() == geo::rook(s.idx(), occ));
}

//@ obligation: C07.walk.bishop
//@ domain: complete
//@ functions: chess/movegen/tables/attacks.rs::generate_bishop_attacks, chess/movegen/tables/attacks.rs::generate_sliding_attacks
//@ timeout: 900
//@ mem_gb: 6
#[kani::proof]
#[kani::unwind(10)]
fn vk_c07_walk_bishop() {
    let s = geo::any_square();
    let occ: u64 = kani::any();
    kani::cover!(occ.count_ones() > 5);
    assert!(generate_bishop_attacks(s, Bitboard::new(occ)).as_u64() == geo::bishop(s.idx(), occ));
}

//@ obligation: C07.walk.knight
//@ domain: complete
//@ functions: chess/movegen/tables/attacks.rs::generate_knight_attacks
//@ timeout: 300
#[kani::proof]
#[kani::unwind(10)]
fn vk_c07_walk_knight() {
    let s = geo::any_square();
    kani::cover!(true);
    assert!(generate_knight_attacks(s).as_u64() == geo::knight(s.idx()));
}

//@ obligation: C07.walk.king
//@ domain: complete
//@ functions: chess/movegen/tables/attacks.rs::generate_king_attacks
//@ timeout: 300
#[kani::proof]
#[kani::unwind(10)]
fn vk_c07_walk_king() {
    let s = geo::any_square();
    kani::cover!(true);
    assert!(generate_king_attacks(s).as_u64() == geo::king(s.idx()));
}

//@ obligation: C07.walk.pawn
//@ domain: complete
//@ functions: chess/movegen/tables/attacks.rs::generate_pawn_attacks
//@ timeout: 300
#[kani::proof]
#[kani::unwind(10)]
fn vk_c07_walk_pawn() {
    let s = geo::any_square();
    let p = geo::any_player();
    kani::cover!(p == Player::Black);
    assert!(generate_pawn_attacks(s, p).as_u64() == geo::pawn(s.idx(), p == Player::White));
}
