// Geometry of the chess board in (file, rank) coordinates -- SPECIFICATION ONLY, no bitboard tricks.
// Every loop has a constant trip count (<= 8), so CBMC unwinds them completely.
pub mod geo {
    use crate::chess::direction::Direction;
    use crate::chess::player::Player;
    use crate::chess::square::Square;

    pub fn any_square() -> Square {
        let i: u8 = kani::any();
        kani::assume(i < 64);
        Square::from_index(i)
    }

    pub fn any_player() -> Player {
        if kani::any() {
            Player::White
        } else {
            Player::Black
        }
    }

    pub fn any_direction() -> Direction {
        let i: usize = kani::any();
        kani::assume(i < 8);
        Direction::ALL[i]
    }

    #[inline(always)]
    pub fn file(i: u8) -> i8 {
        (i % 8) as i8
    }
    #[inline(always)]
    pub fn rank(i: u8) -> i8 {
        (i / 8) as i8
    }
    #[inline(always)]
    pub fn on_board(f: i8, r: i8) -> bool {
        0 <= f && f < 8 && 0 <= r && r < 8
    }
    /// the one-square board {(f, r)} as a 64-bit set, empty when (f, r) is off the board
    #[inline(always)]
    pub fn bit(f: i8, r: i8) -> u64 {
        if on_board(f, r) {
            1u64 << ((r * 8 + f) as u32)
        } else {
            0
        }
    }

    /// (file delta, rank delta)
    pub fn delta(d: Direction) -> (i8, i8) {
        match d {
            Direction::North => (0, 1),
            Direction::NorthEast => (1, 1),
            Direction::East => (1, 0),
            Direction::SouthEast => (1, -1),
            Direction::South => (0, -1),
            Direction::SouthWest => (-1, -1),
            Direction::West => (-1, 0),
            Direction::NorthWest => (-1, 1),
        }
    }

    /// squares seen from square i along (df, dr): up to and including the first occupied square
    pub fn ray(i: u8, occ: u64, df: i8, dr: i8) -> u64 {
        let (f, r) = (file(i), rank(i));
        let mut out = 0u64;
        let mut blocked = false;
        let mut k: i8 = 1;
        while k < 8 {
            let b = bit(f + k * df, r + k * dr);
            if !blocked {
                out |= b;
            }
            if b & occ != 0 {
                blocked = true;
            }
            k += 1;
        }
        out
    }

    pub fn rook(i: u8, occ: u64) -> u64 {
        ray(i, occ, 0, 1) | ray(i, occ, 1, 0) | ray(i, occ, 0, -1) | ray(i, occ, -1, 0)
    }

    pub fn bishop(i: u8, occ: u64) -> u64 {
        ray(i, occ, 1, 1) | ray(i, occ, 1, -1) | ray(i, occ, -1, -1) | ray(i, occ, -1, 1)
    }

    pub fn knight(i: u8) -> u64 {
        let (f, r) = (file(i), rank(i));
        bit(f + 1, r + 2) | bit(f + 2, r + 1) | bit(f + 2, r - 1) | bit(f + 1, r - 2)
            | bit(f - 1, r - 2) | bit(f - 2, r - 1) | bit(f - 2, r + 1) | bit(f - 1, r + 2)
    }

    pub fn king(i: u8) -> u64 {
        let (f, r) = (file(i), rank(i));
        bit(f, r + 1) | bit(f + 1, r + 1) | bit(f + 1, r) | bit(f + 1, r - 1)
            | bit(f, r - 1) | bit(f - 1, r - 1) | bit(f - 1, r) | bit(f - 1, r + 1)
    }

    /// squares a pawn of `white` colour standing on i attacks
    pub fn pawn(i: u8, white: bool) -> u64 {
        let (f, r) = (file(i), rank(i));
        let dr = if white { 1 } else { -1 };
        bit(f - 1, r + dr) | bit(f + 1, r + dr)
    }

    /// relevant-occupancy mask of a slider: the ray squares that have a further on-board square behind them
    pub fn inner_ray(i: u8, df: i8, dr: i8) -> u64 {
        let (f, r) = (file(i), rank(i));
        let mut out = 0u64;
        let mut k: i8 = 1;
        while k < 8 {
            if on_board(f + (k + 1) * df, r + (k + 1) * dr) {
                out |= bit(f + k * df, r + k * dr);
            }
            k += 1;
        }
        out
    }
    pub fn rook_mask(i: u8) -> u64 {
        inner_ray(i, 0, 1) | inner_ray(i, 1, 0) | inner_ray(i, 0, -1) | inner_ray(i, -1, 0)
    }
    pub fn bishop_mask(i: u8) -> u64 {
        inner_ray(i, 1, 1) | inner_ray(i, 1, -1) | inner_ray(i, -1, -1) | inner_ray(i, -1, 1)
    }

    fn sgn(x: i8) -> i8 {
        if x > 0 {
            1
        } else if x < 0 {
            -1
        } else {
            0
        }
    }

    /// open segment between two squares on a common rank, file or diagonal; None when a == b or no common line
    pub fn between(a: u8, b: u8) -> Option<u64> {
        if a == b {
            return None;
        }
        let (fa, ra, fb, rb) = (file(a), rank(a), file(b), rank(b));
        let (dfv, drv) = (fb - fa, rb - ra);
        let aligned = dfv == 0 || drv == 0 || dfv == drv || dfv == -drv;
        if !aligned {
            return None;
        }
        let (df, dr) = (sgn(dfv), sgn(drv));
        let n = if dfv != 0 { dfv * df } else { drv * dr }; // distance in steps, 1..7
        let mut out = 0u64;
        let mut k: i8 = 1;
        while k < 8 {
            if k < n {
                out |= bit(fa + k * df, ra + k * dr);
            }
            k += 1;
        }
        Some(out)
    }
}
