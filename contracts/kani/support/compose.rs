// C01.compose support: positions given as a short LIST of men (no 64-square mailbox), FIDE legality of a candidate move
// on that list, and the union of the generator CONTRACT sets (the sets C01.gen.* prove the generators push) evaluated
// with a specification-level cache (checkers, check mask, pin masks).  Everything here is specification.
pub mod compose {
    use super::geo::{file, on_board, rank};
    use crate::chess::piece::{Piece, PieceKind};
    use crate::chess::player::Player;

    pub const MEN: usize = 5;

    #[derive(Clone, Copy)]
    pub struct Pos {
        pub sq: [u8; MEN],
        pub pc: [Option<Piece>; MEN], // None = this man is absent
        pub side: Player,
        pub rights: [[bool; 2]; 2], // [white, black][king side, queen side]
        pub ep: Option<u8>,
    }

    fn abs(x: i8) -> i8 {
        if x < 0 { -x } else { x }
    }
    fn sgn(x: i8) -> i8 {
        if x > 0 { 1 } else if x < 0 { -1 } else { 0 }
    }
    pub fn at(p: &Pos, s: u8) -> Option<Piece> {
        let mut r = None;
        let mut i = 0;
        while i < MEN {
            if p.pc[i].is_some() && p.sq[i] == s {
                r = p.pc[i];
            }
            i += 1;
        }
        r
    }
    pub fn empty(p: &Pos, s: u8) -> bool {
        at(p, s).is_none()
    }
    /// a and b aligned (rank, file or diagonal) and no man strictly between them
    fn clear_line(p: &Pos, a: u8, b: u8) -> bool {
        let (df, dr) = (file(b) - file(a), rank(b) - rank(a));
        if a == b || !(df == 0 || dr == 0 || abs(df) == abs(dr)) {
            return false;
        }
        let (sf, sr) = (sgn(df), sgn(dr));
        let n = if abs(df) > abs(dr) { abs(df) } else { abs(dr) };
        let mut ok = true;
        let mut i = 0;
        while i < MEN {
            if p.pc[i].is_some() {
                let (f, r) = (file(p.sq[i]) - file(a), rank(p.sq[i]) - rank(a));
                // on the segment: (f, r) == k * (sf, sr) for some 0 < k < n
                let k = if sf != 0 { f * sf } else { r * sr };
                if 0 < k && k < n && f == k * sf && r == k * sr {
                    ok = false;
                }
            }
            i += 1;
        }
        ok
    }
    /// does a piece `pc` standing on `from` attack `to` (rules; the occupants of from/to do not matter)?
    pub fn piece_attacks(p: &Pos, pc: Piece, from: u8, to: u8) -> bool {
        if from == to {
            return false;
        }
        let (df, dr) = (file(to) - file(from), rank(to) - rank(from));
        match pc.kind {
            PieceKind::Pawn => abs(df) == 1 && dr == (if pc.player == Player::White { 1 } else { -1 }),
            PieceKind::Knight => (abs(df) == 1 && abs(dr) == 2) || (abs(df) == 2 && abs(dr) == 1),
            PieceKind::King => abs(df) <= 1 && abs(dr) <= 1,
            PieceKind::Bishop => abs(df) == abs(dr) && clear_line(p, from, to),
            PieceKind::Rook => (df == 0 || dr == 0) && clear_line(p, from, to),
            PieceKind::Queen => clear_line(p, from, to),
        }
    }
    pub fn attacked_by(p: &Pos, to: u8, by: Player) -> bool {
        let mut r = false;
        let mut i = 0;
        while i < MEN {
            if let Some(pc) = p.pc[i] {
                if pc.player == by && piece_attacks(p, pc, p.sq[i], to) {
                    r = true;
                }
            }
            i += 1;
        }
        r
    }
    pub fn king_sq(p: &Pos, pl: Player) -> u8 {
        let mut r = 64;
        let mut i = 0;
        while i < MEN {
            if p.pc[i] == Some(Piece::new(pl, PieceKind::King)) {
                r = p.sq[i];
            }
            i += 1;
        }
        r
    }
    fn count(p: &Pos, pc: Piece) -> u8 {
        let mut c = 0;
        let mut i = 0;
        while i < MEN {
            if p.pc[i] == Some(pc) {
                c += 1;
            }
            i += 1;
        }
        c
    }
    fn fwd(pl: Player) -> i8 {
        if pl == Player::White { 1 } else { -1 }
    }
    fn rel_rank(pl: Player, s: u8) -> i8 {
        if pl == Player::White { rank(s) } else { 7 - rank(s) }
    }
    fn home(pl: Player) -> u8 {
        if pl == Player::White { 0 } else { 56 }
    }
    fn sq_of(f: i8, r: i8) -> u8 {
        (r * 8 + f) as u8
    }

    /// the property's "legal position"
    pub fn legal_position(p: &Pos) -> bool {
        let mut ok = count(p, Piece::WHITE_KING) == 1 && count(p, Piece::BLACK_KING) == 1;
        // distinct squares
        let mut i = 0;
        while i < MEN {
            let mut j = 0;
            while j < i {
                if p.pc[i].is_some() && p.pc[j].is_some() && p.sq[i] == p.sq[j] {
                    ok = false;
                }
                j += 1;
            }
            if let Some(pc) = p.pc[i] {
                if pc.kind == PieceKind::Pawn && (rank(p.sq[i]) == 0 || rank(p.sq[i]) == 7) {
                    ok = false;
                }
            }
            i += 1;
        }
        if !ok {
            return false;
        }
        // side not to move is not in check
        ok = ok && !attacked_by(p, king_sq(p, p.side.other()), p.side);
        // castling rights consistent with the placement
        let mut c = 0;
        while c < 2 {
            let pl = if c == 0 { Player::White } else { Player::Black };
            let h = home(pl);
            let k_home = at(p, h + 4) == Some(Piece::new(pl, PieceKind::King));
            if p.rights[c][0] {
                ok = ok && k_home && at(p, h + 7) == Some(Piece::new(pl, PieceKind::Rook));
            }
            if p.rights[c][1] {
                ok = ok && k_home && at(p, h) == Some(Piece::new(pl, PieceKind::Rook));
            }
            c += 1;
        }
        // en-passant target: empty square on the mover's 6th rank, enemy pawn in front of it, its origin square empty
        if let Some(e) = p.ep {
            let (f, r) = (file(e), rank(e));
            ok = ok && rel_rank(p.side, e) == 5 && empty(p, e)
                && at(p, sq_of(f, r - fwd(p.side))) == Some(Piece::new(p.side.other(), PieceKind::Pawn))
                && empty(p, sq_of(f, r + fwd(p.side)));
        }
        ok
    }

    #[derive(Clone, Copy, PartialEq, Eq)]
    pub enum Class {
        Quiet,
        Capture,
        EnPassant,
        Castle,
        Promo(PieceKind),
        CapPromo(PieceKind),
    }
    #[derive(Clone, Copy)]
    pub struct Cand {
        pub src: u8,
        pub dst: u8,
        pub class: Class,
    }

    /// position after the candidate (only what the king-safety test needs: placement)
    fn apply(p: &Pos, c: &Cand, mover: Piece) -> Pos {
        let mut q = *p;
        let mut i = 0;
        while i < MEN {
            if q.pc[i].is_some() {
                if q.sq[i] == c.dst {
                    q.pc[i] = None; // captured
                }
                if let Class::EnPassant = c.class {
                    if q.sq[i] == sq_of(file(c.dst), rank(c.dst) - fwd(p.side)) {
                        q.pc[i] = None;
                    }
                }
            }
            i += 1;
        }
        let mut i = 0;
        while i < MEN {
            if q.pc[i].is_some() && q.sq[i] == c.src && p.pc[i] == Some(mover) {
                q.sq[i] = c.dst;
                q.pc[i] = Some(match c.class {
                    Class::Promo(k) | Class::CapPromo(k) => Piece::new(p.side, k),
                    _ => mover,
                });
            }
            i += 1;
        }
        if let Class::Castle = c.class {
            // rook hops over the king
            let h = home(p.side);
            let (rf, rt) = if c.dst == h + 6 { (h + 7, h + 5) } else { (h, h + 3) };
            let mut i = 0;
            while i < MEN {
                if q.pc[i] == Some(Piece::new(p.side, PieceKind::Rook)) && q.sq[i] == rf {
                    q.sq[i] = rt;
                }
                i += 1;
            }
        }
        q
    }

    /// FIDE: is the candidate a legal move of the position?
    pub fn fide_legal(p: &Pos, c: &Cand) -> bool {
        let us = p.side;
        let them = us.other();
        let mover = match at(p, c.src) {
            Some(m) if m.player == us => m,
            _ => return false,
        };
        if c.src == c.dst {
            return false;
        }
        let target = at(p, c.dst);
        let (sf, sr, df, dr) = (file(c.src), rank(c.src), file(c.dst), rank(c.dst));
        let f = fwd(us);
        let is_pawn = mover.kind == PieceKind::Pawn;
        let last = rel_rank(us, c.dst) == 7;
        let pseudo = match c.class {
            Class::Quiet => {
                target.is_none()
                    && if is_pawn {
                        !last
                            && df == sf
                            && (dr == sr + f || (dr == sr + 2 * f && rel_rank(us, c.src) == 1 && empty(p, sq_of(sf, sr + f))))
                    } else {
                        piece_attacks(p, mover, c.src, c.dst)
                    }
            }
            Class::Capture => matches!(target, Some(t) if t.player == them) && piece_attacks(p, mover, c.src, c.dst) && !(is_pawn && last),
            Class::EnPassant => is_pawn && p.ep == Some(c.dst) && piece_attacks(p, mover, c.src, c.dst),
            Class::Castle => {
                let h = home(us);
                mover.kind == PieceKind::King
                    && c.src == h + 4
                    && !attacked_by(p, c.src, them)
                    && ((c.dst == h + 6 && p.rights[us.array_idx()][0] && empty(p, h + 5) && empty(p, h + 6)
                        && !attacked_by(p, h + 5, them) && !attacked_by(p, h + 6, them))
                        || (c.dst == h + 2 && p.rights[us.array_idx()][1] && empty(p, h + 1) && empty(p, h + 2) && empty(p, h + 3)
                            && !attacked_by(p, h + 3, them) && !attacked_by(p, h + 2, them)))
            }
            Class::Promo(k) => {
                is_pawn && last && target.is_none() && df == sf && dr == sr + f
                    && (k == PieceKind::Queen || k == PieceKind::Rook || k == PieceKind::Bishop || k == PieceKind::Knight)
            }
            Class::CapPromo(k) => {
                is_pawn && last && matches!(target, Some(t) if t.player == them) && piece_attacks(p, mover, c.src, c.dst)
                    && (k == PieceKind::Queen || k == PieceKind::Rook || k == PieceKind::Bishop || k == PieceKind::Knight)
            }
        };
        if !pseudo {
            return false;
        }
        // never capture a king (cannot arise in a legal position; excluded for definiteness)
        if matches!(target, Some(t) if t.kind == PieceKind::King) {
            return false;
        }
        let q = apply(p, c, mover);
        !attacked_by(&q, king_sq(&q, us), them)
    }

    // ---- the generator contract sets, with a specification-level cache ------------------------------------------
    fn bit(s: u8) -> u64 {
        1u64 << s
    }
    /// geo::between as a set, 0 if not aligned
    fn between(a: u8, b: u8) -> u64 {
        super::geo::between(a, b).unwrap_or(0)
    }
    /// pin ray in direction (df, dr) from the king: up to and including an enemy slider of the right kind reached
    /// with at most one man in between, that man being ours (the contract of get_pins, C01.pins.*)
    fn pin_ray(p: &Pos, k: u8, df: i8, dr: i8, orth: bool) -> u64 {
        let (f, r) = (file(k), rank(k));
        let (mut acc, mut result, mut seen_own, mut done) = (0u64, 0u64, false, false);
        let mut s: i8 = 1;
        while s < 8 {
            let (ff, rr) = (f + s * df, r + s * dr);
            if !done {
                if !on_board(ff, rr) {
                    done = true;
                } else {
                    acc |= bit(sq_of(ff, rr));
                    if let Some(pc) = at(p, sq_of(ff, rr)) {
                        if pc.player == p.side {
                            if seen_own { done = true; } else { seen_own = true; }
                        } else {
                            let slider = pc.kind == PieceKind::Queen || (orth && pc.kind == PieceKind::Rook) || (!orth && pc.kind == PieceKind::Bishop);
                            if slider { result = acc; }
                            done = true;
                        }
                    }
                }
            }
            s += 1;
        }
        result
    }
    fn has(set: u64, s: u8) -> bool {
        set & bit(s) != 0
    }

    /// is the candidate in the union of the sets the generator contracts (C01.gen.*, C01.orchestrate.*) prescribe?
    pub fn in_generator_sets(p: &Pos, c: &Cand) -> bool {
        let us = p.side;
        let them = us.other();
        let k = king_sq(p, us);
        let mover = match at(p, c.src) {
            Some(m) if m.player == us => m,
            _ => return false,
        };
        if c.src == c.dst {
            return false;
        }
        // cache (orchestrate contract): checkers, check mask, pins
        let (mut n_checkers, mut checker_sq) = (0u8, 0u8);
        let mut i = 0;
        while i < MEN {
            if let Some(pc) = p.pc[i] {
                if pc.player == them && piece_attacks(p, pc, p.sq[i], k) {
                    n_checkers += 1;
                    checker_sq = p.sq[i];
                }
            }
            i += 1;
        }
        let check_mask = if n_checkers == 1 { between(checker_sq, k) | bit(checker_sq) } else { u64::MAX };
        let op = pin_ray(p, k, 0, 1, true) | pin_ray(p, k, 1, 0, true) | pin_ray(p, k, 0, -1, true) | pin_ray(p, k, -1, 0, true);
        let dp = pin_ray(p, k, 1, 1, false) | pin_ray(p, k, 1, -1, false) | pin_ray(p, k, -1, -1, false) | pin_ray(p, k, -1, 1, false);
        let target = at(p, c.dst);
        let theirs = matches!(target, Some(t) if t.player == them);
        let is_empty = target.is_none();
        let (s, d) = (c.src, c.dst);
        let f = fwd(us);
        // king generators (run in every case)
        if mover.kind == PieceKind::King {
            let ring = abs(file(d) - file(s)) <= 1 && abs(rank(d) - rank(s)) <= 1;
            let mut lifted = *p;
            let mut i = 0;
            while i < MEN {
                if lifted.pc[i] == Some(mover) && lifted.sq[i] == s {
                    lifted.pc[i] = None;
                }
                i += 1;
            }
            let safe = !attacked_by(&lifted, d, them);
            return match c.class {
                Class::Capture => ring && theirs && safe,
                Class::Quiet => ring && is_empty && safe,
                Class::Castle => {
                    let h = home(us);
                    n_checkers == 0
                        && s == h + 4
                        && ((d == h + 6 && p.rights[us.array_idx()][0] && empty(p, h + 5) && empty(p, h + 6)
                            && !attacked_by(p, h + 5, them) && !attacked_by(p, h + 6, them))
                            || (d == h + 2 && p.rights[us.array_idx()][1] && empty(p, h + 1) && empty(p, h + 2) && empty(p, h + 3)
                                && !attacked_by(p, h + 3, them) && !attacked_by(p, h + 2, them)))
                }
                _ => false,
            };
        }
        if n_checkers > 1 {
            return false; // double check: king moves only
        }
        let in_cm = has(check_mask, d);
        match mover.kind {
            PieceKind::Knight => {
                let step = (abs(file(d) - file(s)) == 1 && abs(rank(d) - rank(s)) == 2) || (abs(file(d) - file(s)) == 2 && abs(rank(d) - rank(s)) == 1);
                let ok = !has(op | dp, s) && step && in_cm;
                match c.class {
                    Class::Capture => ok && theirs,
                    Class::Quiet => ok && is_empty,
                    _ => false,
                }
            }
            PieceKind::Bishop | PieceKind::Rook | PieceKind::Queen => {
                let (df, dr) = (file(d) - file(s), rank(d) - rank(s));
                let diag_move = abs(df) == abs(dr) && clear_line(p, s, d);
                let orth_move = (df == 0 || dr == 0) && clear_line(p, s, d);
                let as_diag = (mover.kind != PieceKind::Rook) && diag_move && !has(op, s) && (!has(dp, s) || has(dp, d));
                let as_orth = (mover.kind != PieceKind::Bishop) && orth_move && !has(dp, s) && (!has(op, s) || has(op, d));
                let ok = (as_diag || as_orth) && in_cm;
                match c.class {
                    Class::Capture => ok && theirs,
                    Class::Quiet => ok && is_empty,
                    _ => false,
                }
            }
            PieceKind::Pawn => {
                let on7 = rel_rank(us, s) == 6;
                let attacks = abs(file(d) - file(s)) == 1 && rank(d) == rank(s) + f;
                let cap_ok = !has(op, s) && attacks && theirs && in_cm && (!has(dp, s) || has(dp, d));
                let one = file(d) == file(s) && rank(d) == rank(s) + f && is_empty && in_cm && !has(dp, s);
                match c.class {
                    Class::CapPromo(kd) => on7 && cap_ok && kd != PieceKind::Pawn && kd != PieceKind::King,
                    Class::Capture => !on7 && cap_ok,
                    Class::Promo(kd) => on7 && one && !has(op, s) && kd != PieceKind::Pawn && kd != PieceKind::King,
                    Class::Quiet => {
                        let single = !on7 && one && (!has(op, s) || has(op, d));
                        let double = rel_rank(us, s) == 1
                            && file(d) == file(s)
                            && rank(d) == rank(s) + 2 * f
                            && empty(p, sq_of(file(s), rank(s) + f))
                            && is_empty
                            && in_cm
                            && !has(dp, s)
                            && (!has(op, s) || has(op, d));
                        single || double
                    }
                    Class::EnPassant => {
                        if p.ep != Some(d) || !attacks || has(op, s) {
                            return false;
                        }
                        let victim = sq_of(file(d), rank(d) - f);
                        if !(has(check_mask, d) || has(check_mask, victim)) {
                            return false;
                        }
                        if has(dp, s) && !has(dp, d) {
                            return false;
                        }
                        let q = apply(p, c, mover);
                        !attacked_by(&q, k, them)
                    }
                    Class::Castle => false,
                }
            }
            PieceKind::King => false,
        }
    }
}
