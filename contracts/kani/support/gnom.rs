// GHOST PARSER-COMBINATOR LIBRARY -- a stand-in, bound BY SCOPE, for the part of the `nom` crate (7.x, "complete" flavour,
// &str input) that the engine's FEN reader and UCI move reader use.  The engine's parser functions are copied verbatim into a
// module in which the path `nom::...` and the imported combinator names resolve to the items below instead of the crate's.
// Same signatures as seen from the call sites (a combinator call returns a closure `FnMut(&str) -> IResult<&str, O>`), same
// documented behaviour, but written directly over the input's BYTES: no generic error accumulation, no `Parser` trait
// objects, no char decoding (every pattern the engine passes is ASCII; a non-ASCII first byte matches no ASCII pattern,
// exactly as the decoded character would not).  Real nom on 4 symbolic bytes of a FEN rank cost CBMC 26 GB (DESIGN 1).
// ASSUMPTION recorded by every obligation that uses it: the nom crate's combinators behave as documented
// (https://docs.rs/nom/7): one_of / char / tag consume the matched prefix, alt tries in order and backtracks on Error,
// many1 applies until the first Error and needs one success, separated_list1 is f (sep f)* and leaves a dangling separator unconsumed, opt turns Error into None, tuple / pair / preceded /
// terminated sequence, take_until(p) yields the text before the first occurrence of p (not consuming p) or an Error, rest yields
// everything, value / map transform, space0 / space1 take spaces and tabs, eof succeeds on empty input, u32 reads a
// decimal numeral that fits.  `Vec` as produced by many1 / vec! is a bounded vector (capacity stated per obligation; inputs
// that would exceed it are outside the stated bound -- excluded by assumption, never reported).
pub mod gnom {
    pub const VCAP: usize = 10;

    /// bounded stand-in for alloc::vec::Vec (the parsers only build short vectors).  Plain array + length (slots beyond the
    /// length hold T::default() and are never observable): no heap, no raw pointers
    #[derive(Clone, Copy)]
    pub struct Vec<T: Copy + Default> {
        pub e: [T; VCAP],
        pub n: usize,
    }
    impl<T: Copy + Default> Default for Vec<T> {
        fn default() -> Self {
            Self::new()
        }
    }
    impl<T: Copy + Default> Vec<T> {
        pub fn new() -> Self {
            Vec { e: [T::default(); VCAP], n: 0 }
        }
        pub fn from_elem(x: T, k: usize) -> Self {
            // beyond the stated bound of the obligation: outside the domain (the real Vec grows)
            kani::assume(k <= VCAP);
            let mut v = Self::new();
            let mut i = 0;
            while i < VCAP {
                if i < k {
                    v.e[i] = x;
                }
                i += 1;
            }
            v.n = k;
            v
        }
        pub fn push(&mut self, x: T) {
            kani::assume(self.n < VCAP);
            self.e[self.n] = x;
            self.n += 1;
        }
        pub fn len(&self) -> usize {
            self.n
        }
        pub fn is_empty(&self) -> bool {
            self.n == 0
        }
        pub fn extend(&mut self, o: Vec<T>) {
            kani::assume(self.n + o.n <= VCAP);
            let base = self.n;
            let mut i = 0;
            while i < VCAP {
                if i < o.n {
                    self.e[base + i] = o.e[i];
                }
                i += 1;
            }
            self.n = base + o.n;
        }
    }
    impl<T: Copy + Default + PartialEq> PartialEq for Vec<T> {
        fn eq(&self, o: &Self) -> bool {
            if self.n != o.n {
                return false;
            }
            let mut r = true;
            let mut i = 0;
            while i < VCAP {
                if i < self.n && self.e[i] != o.e[i] {
                    r = false;
                }
                i += 1;
            }
            r
        }
    }
    impl<T: Copy + Default + Eq> Eq for Vec<T> {}
    impl<T: Copy + Default> core::fmt::Debug for Vec<T> {
        fn fmt(&self, _f: &mut core::fmt::Formatter<'_>) -> core::fmt::Result {
            Ok(())
        }
    }
    impl<T: Copy + Default> core::ops::Deref for Vec<T> {
        type Target = [T];
        fn deref(&self) -> &[T] {
            &self.e[..self.n]
        }
    }
    impl<T: Copy + Default> Vec<Vec<T>> {
        /// `[Vec<T>]::concat()`
        pub fn concat(&self) -> Vec<T> {
            let mut out = Vec::new();
            let mut i = 0;
            while i < VCAP {
                if i < self.n {
                    out.extend(self.e[i]);
                }
                i += 1;
            }
            out
        }
    }
    impl<T: Copy + Default> core::iter::FromIterator<T> for Vec<T> {
        fn from_iter<I: IntoIterator<Item = T>>(it: I) -> Self {
            let mut v = Vec::new();
            for x in it {
                v.push(x);
            }
            v
        }
    }
    /// bounded stand-in for std::collections::HashSet as used by fen_castling: collect + contains
    pub struct HashSet<T: Copy + Default + PartialEq>(pub Vec<T>);
    impl<T: Copy + Default + PartialEq> core::iter::FromIterator<T> for HashSet<T> {
        fn from_iter<I: IntoIterator<Item = T>>(it: I) -> Self {
            HashSet(it.into_iter().collect())
        }
    }
    impl<T: Copy + Default + PartialEq> HashSet<T> {
        pub fn contains(&self, x: &T) -> bool {
            let mut r = false;
            let mut i = 0;
            while i < self.0.n {
                if self.0.e[i] == *x {
                    r = true;
                }
                i += 1;
            }
            r
        }
    }

    pub mod error {
        #[derive(Clone, Copy, PartialEq, Eq, Debug)]
        pub enum ErrorKind {
            Tag,
            OneOf,
            Char,
            Alt,
            Many1,
            Eof,
            Space,
            Digit,
            Verify,
        }
        #[derive(Clone, Copy, PartialEq, Eq, Debug)]
        pub struct Error<I> {
            pub input: I,
            pub code: ErrorKind,
        }
        impl<I> Error<I> {
            pub fn new(input: I, code: ErrorKind) -> Self {
                Error { input, code }
            }
        }
    }
    #[derive(Clone, Copy, PartialEq, Eq, Debug)]
    pub enum Err<E> {
        Error(E),
        Failure(E),
    }
    // nom's errors are Display; what they print is immaterial here
    impl<E> core::fmt::Display for Err<E> {
        fn fmt(&self, _f: &mut core::fmt::Formatter<'_>) -> core::fmt::Result {
            Ok(())
        }
    }
    pub type IResult<I, O> = Result<(I, O), Err<error::Error<I>>>;
    use error::{Error, ErrorKind};

    fn fail<'a, O>(i: &'a str, k: ErrorKind) -> IResult<&'a str, O> {
        Result::Err(Err::Error(Error::new(i, k)))
    }
    fn contains(list: &str, b: u8) -> bool {
        let l = list.as_bytes();
        let mut r = false;
        let mut k = 0;
        while k < l.len() {
            if l[k] == b {
                r = true;
            }
            k += 1;
        }
        r
    }

    pub mod character {
        pub mod complete {
            use super::super::*;
            /// one_of(list): the first character of the input if it is one of `list` (ASCII)
            pub fn one_of<'a>(list: &'static str) -> impl Fn(&'a str) -> IResult<&'a str, char> {
                move |i: &'a str| {
                    let b = i.as_bytes();
                    if b.len() >= 1 && b[0] < 128 && contains(list, b[0]) {
                        Ok((&i[1..], b[0] as char))
                    } else {
                        fail(i, ErrorKind::OneOf)
                    }
                }
            }
            /// satisfy(pred): the first CHARACTER of the input (decoded as UTF-8) if the predicate accepts it
            pub fn satisfy<'a, P: Fn(char) -> bool>(pred: P) -> impl Fn(&'a str) -> IResult<&'a str, char> {
                move |i: &'a str| match i.chars().next() {
                    Some(c) if pred(c) => Ok((&i[c.len_utf8()..], c)),
                    _ => fail(i, ErrorKind::OneOf),
                }
            }
            /// char(c): exactly this (ASCII) character
            pub fn char<'a>(c: char) -> impl Fn(&'a str) -> IResult<&'a str, char> {
                move |i: &'a str| {
                    let b = i.as_bytes();
                    if b.len() >= 1 && (c as u32) < 128 && b[0] == c as u8 {
                        Ok((&i[1..], c))
                    } else {
                        fail(i, ErrorKind::Char)
                    }
                }
            }
            fn spaces(i: &str) -> usize {
                let b = i.as_bytes();
                let mut k = 0;
                while k < b.len() && (b[k] == b' ' || b[k] == b'\t') {
                    k += 1;
                }
                k
            }
            pub fn space0<'a>(i: &'a str) -> IResult<&'a str, &'a str> {
                let k = spaces(i);
                Ok((&i[k..], &i[..k]))
            }
            pub fn space1<'a>(i: &'a str) -> IResult<&'a str, &'a str> {
                let k = spaces(i);
                if k == 0 {
                    return fail(i, ErrorKind::Space);
                }
                Ok((&i[k..], &i[..k]))
            }
            /// u32: a non-empty run of decimal digits whose value fits a u32
            pub fn u32<'a>(i: &'a str) -> IResult<&'a str, core::primitive::u32> {
                let b = i.as_bytes();
                let mut k = 0;
                let mut v: u64 = 0;
                while k < b.len() && b[k] >= b'0' && b[k] <= b'9' {
                    v = v * 10 + (b[k] - b'0') as u64;
                    if v > core::primitive::u32::MAX as u64 {
                        return fail(i, ErrorKind::Digit);
                    }
                    k += 1;
                }
                if k == 0 {
                    return fail(i, ErrorKind::Digit);
                }
                Ok((&i[k..], v as core::primitive::u32))
            }
        }
    }
    pub mod bytes {
        pub mod complete {
            use super::super::*;
            /// take_until(pat): the text before the FIRST occurrence of the (ASCII) pattern, which itself is not consumed;
            /// an Error when the pattern does not occur
            pub fn take_until<'a>(pat: &'static str) -> impl Fn(&'a str) -> IResult<&'a str, &'a str> {
                move |i: &'a str| {
                    let (b, p) = (i.as_bytes(), pat.as_bytes());
                    let mut found = b.len() + 1;
                    let mut k = 0;
                    while k < b.len() {
                        if found > b.len() && k + p.len() <= b.len() {
                            let mut ok = true;
                            let mut j = 0;
                            while j < p.len() {
                                if b[k + j] != p[j] {
                                    ok = false;
                                }
                                j += 1;
                            }
                            if ok {
                                found = k;
                            }
                        }
                        k += 1;
                    }
                    if found <= b.len() {
                        // the pattern starts with an ASCII byte, so `found` is a character boundary
                        Ok((&i[found..], &i[..found]))
                    } else {
                        fail(i, ErrorKind::Tag)
                    }
                }
            }
            /// tag(t): the literal (ASCII) text t
            pub fn tag<'a>(t: &'static str) -> impl Fn(&'a str) -> IResult<&'a str, &'a str> {
                move |i: &'a str| {
                    let (b, p) = (i.as_bytes(), t.as_bytes());
                    let mut ok = b.len() >= p.len();
                    let mut k = 0;
                    while ok && k < p.len() {
                        if b[k] != p[k] {
                            ok = false;
                        }
                        k += 1;
                    }
                    if ok {
                        Ok((&i[p.len()..], &i[..p.len()]))
                    } else {
                        fail(i, ErrorKind::Tag)
                    }
                }
            }
        }
    }
    pub mod combinator {
        use super::*;
        /// rest: everything that is left
        pub fn rest<'a>(i: &'a str) -> IResult<&'a str, &'a str> {
            Ok((&i[i.len()..], i))
        }
        pub fn map<'a, O1, O2, F, G>(mut p: F, mut f: G) -> impl FnMut(&'a str) -> IResult<&'a str, O2>
        where
            F: FnMut(&'a str) -> IResult<&'a str, O1>,
            G: FnMut(O1) -> O2,
        {
            move |i: &'a str| {
                let (i, o) = p(i)?;
                Ok((i, f(o)))
            }
        }
        pub fn value<'a, O1, O2: Clone, F>(v: O2, mut p: F) -> impl FnMut(&'a str) -> IResult<&'a str, O2>
        where
            F: FnMut(&'a str) -> IResult<&'a str, O1>,
        {
            move |i: &'a str| {
                let (i, _) = p(i)?;
                Ok((i, v.clone()))
            }
        }
        pub fn opt<'a, O, F>(mut p: F) -> impl FnMut(&'a str) -> IResult<&'a str, Option<O>>
        where
            F: FnMut(&'a str) -> IResult<&'a str, O>,
        {
            move |i: &'a str| match p(i) {
                Ok((r, o)) => Ok((r, Some(o))),
                Result::Err(Err::Error(_)) => Ok((i, None)),
                Result::Err(e) => Result::Err(e),
            }
        }
        pub fn eof<'a>(i: &'a str) -> IResult<&'a str, &'a str> {
            if i.len() == 0 {
                Ok((i, i))
            } else {
                fail(i, ErrorKind::Eof)
            }
        }
    }
    pub mod sequence {
        use super::*;
        pub fn pair<'a, O1, O2, F, G>(mut a: F, mut b: G) -> impl FnMut(&'a str) -> IResult<&'a str, (O1, O2)>
        where
            F: FnMut(&'a str) -> IResult<&'a str, O1>,
            G: FnMut(&'a str) -> IResult<&'a str, O2>,
        {
            move |i: &'a str| {
                let (i, x) = a(i)?;
                let (i, y) = b(i)?;
                Ok((i, (x, y)))
            }
        }
        pub fn preceded<'a, O1, O2, F, G>(mut a: F, mut b: G) -> impl FnMut(&'a str) -> IResult<&'a str, O2>
        where
            F: FnMut(&'a str) -> IResult<&'a str, O1>,
            G: FnMut(&'a str) -> IResult<&'a str, O2>,
        {
            move |i: &'a str| {
                let (i, _) = a(i)?;
                b(i)
            }
        }
        pub fn terminated<'a, O1, O2, F, G>(mut a: F, mut b: G) -> impl FnMut(&'a str) -> IResult<&'a str, O1>
        where
            F: FnMut(&'a str) -> IResult<&'a str, O1>,
            G: FnMut(&'a str) -> IResult<&'a str, O2>,
        {
            move |i: &'a str| {
                let (i, x) = a(i)?;
                let (i, _) = b(i)?;
                Ok((i, x))
            }
        }
        pub trait Tuple<'a, O> {
            fn run(&mut self, i: &'a str) -> IResult<&'a str, O>;
        }
        macro_rules! tuple_impl {
            ($($p:ident $o:ident $v:ident),+) => {
                impl<'a, $($o,)+ $($p: FnMut(&'a str) -> IResult<&'a str, $o>,)+> Tuple<'a, ($($o,)+)> for ($($p,)+) {
                    #[allow(non_snake_case)]
                    fn run(&mut self, i: &'a str) -> IResult<&'a str, ($($o,)+)> {
                        let ($($p,)+) = self;
                        $(let (i, $v) = $p(i)?;)+
                        Ok((i, ($($v,)+)))
                    }
                }
            };
        }
        tuple_impl!(P1 O1 v1, P2 O2 v2);
        tuple_impl!(P1 O1 v1, P2 O2 v2, P3 O3 v3);
        tuple_impl!(P1 O1 v1, P2 O2 v2, P3 O3 v3, P4 O4 v4, P5 O5 v5, P6 O6 v6);
        tuple_impl!(P1 O1 v1, P2 O2 v2, P3 O3 v3, P4 O4 v4, P5 O5 v5, P6 O6 v6, P7 O7 v7, P8 O8 v8);
        pub fn tuple<'a, O, L: Tuple<'a, O>>(mut l: L) -> impl FnMut(&'a str) -> IResult<&'a str, O> {
            move |i: &'a str| l.run(i)
        }
    }
    pub mod branch {
        use super::*;
        pub trait Alt<'a, O> {
            fn choice(&mut self, i: &'a str) -> IResult<&'a str, O>;
        }
        impl<'a, O, A, B> Alt<'a, O> for (A, B)
        where
            A: FnMut(&'a str) -> IResult<&'a str, O>,
            B: FnMut(&'a str) -> IResult<&'a str, O>,
        {
            fn choice(&mut self, i: &'a str) -> IResult<&'a str, O> {
                match (self.0)(i) {
                    Result::Err(Err::Error(_)) => match (self.1)(i) {
                        Result::Err(Err::Error(_)) => fail(i, ErrorKind::Alt),
                        r => r,
                    },
                    r => r,
                }
            }
        }
        pub fn alt<'a, O, L: Alt<'a, O>>(mut l: L) -> impl FnMut(&'a str) -> IResult<&'a str, O> {
            move |i: &'a str| l.choice(i)
        }
    }
    pub mod multi {
        use super::*;
        /// separated_list1(sep, f): f (sep f)*; stops -- without consuming the separator -- where `sep f` no longer matches
        pub fn separated_list1<'a, O: Copy + Default, O2, S, F>(mut sep: S, mut f: F) -> impl FnMut(&'a str) -> IResult<&'a str, Vec<O>>
        where
            S: FnMut(&'a str) -> IResult<&'a str, O2>,
            F: FnMut(&'a str) -> IResult<&'a str, O>,
        {
            move |i0: &'a str| {
                let mut out = Vec::new();
                let (mut i, first) = f(i0)?;
                out.push(first);
                loop {
                    match sep(i) {
                        Result::Err(Err::Error(_)) => return Ok((i, out)),
                        Result::Err(e) => return Result::Err(e),
                        Ok((i1, _)) => match f(i1) {
                            Result::Err(Err::Error(_)) => return Ok((i, out)),
                            Result::Err(e) => return Result::Err(e),
                            Ok((i2, o)) => {
                                if i2.len() == i.len() {
                                    return fail(i, ErrorKind::Many1);
                                }
                                out.push(o);
                                i = i2;
                            }
                        },
                    }
                }
            }
        }
        /// many1(p): applies p until its first Error; at least one success; a success that consumes nothing is an error
        pub fn many1<'a, O: Copy + Default, F>(mut p: F) -> impl FnMut(&'a str) -> IResult<&'a str, Vec<O>>
        where
            F: FnMut(&'a str) -> IResult<&'a str, O>,
        {
            move |i0: &'a str| {
                let mut i = i0;
                let mut out = Vec::new();
                loop {
                    match p(i) {
                        Ok((r, o)) => {
                            if r.len() == i.len() {
                                return fail(i, ErrorKind::Many1);
                            }
                            out.push(o);
                            i = r;
                        }
                        Result::Err(Err::Error(_)) => break,
                        Result::Err(e) => return Result::Err(e),
                    }
                }
                if out.n == 0 {
                    return fail(i0, ErrorKind::Many1);
                }
                Ok((i, out))
            }
        }
    }
}
