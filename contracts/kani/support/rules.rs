// The rules of chess on a mailbox in (file, rank) coordinates -- TOP-LEVEL SPECIFICATION (no bitboards).
pub mod rules {
    use super::geo::{file, rank};
    use crate::chess::piece::{Piece, PieceKind};
    use crate::chess::player::Player;

    pub type Mailbox = [Option<Piece>; 64];

    #[inline(always)]
    fn sgn(x: i8) -> i8 {
        if x > 0 {
            1
        } else if x < 0 {
            -1
        } else {
            0
        }
    }
    #[inline(always)]
    fn abs(x: i8) -> i8 {
        if x < 0 {
            -x
        } else {
            x
        }
    }

    /// a and b (distinct) lie on a common rank, file or diagonal
    pub fn aligned(a: u8, b: u8) -> bool {
        let (df, dr) = (file(b) - file(a), rank(b) - rank(a));
        a != b && (df == 0 || dr == 0 || abs(df) == abs(dr))
    }
    pub fn aligned_orth(a: u8, b: u8) -> bool {
        let (df, dr) = (file(b) - file(a), rank(b) - rank(a));
        a != b && (df == 0 || dr == 0)
    }
    pub fn aligned_diag(a: u8, b: u8) -> bool {
        let (df, dr) = (file(b) - file(a), rank(b) - rank(a));
        a != b && abs(df) == abs(dr)
    }

    /// number of pieces strictly between two aligned squares (0 if not aligned)
    pub fn count_between(mb: &Mailbox, a: u8, b: u8) -> u8 {
        if !aligned(a, b) {
            return 0;
        }
        let (fa, ra) = (file(a), rank(a));
        let (dfv, drv) = (file(b) - fa, rank(b) - ra);
        let (df, dr) = (sgn(dfv), sgn(drv));
        let n = if abs(dfv) > abs(drv) { abs(dfv) } else { abs(drv) };
        let mut c = 0u8;
        let mut k: i8 = 1;
        while k < 8 {
            if k < n && mb[((ra + k * dr) * 8 + fa + k * df) as usize].is_some() {
                c += 1;
            }
            k += 1;
        }
        c
    }

    /// would piece `p` standing on `from` attack square `to` on this board (pieces on from/to themselves are ignored)?
    pub fn piece_attacks(mb: &Mailbox, p: Piece, from: u8, to: u8) -> bool {
        if from == to {
            return false;
        }
        let (df, dr) = (file(to) - file(from), rank(to) - rank(from));
        match p.kind {
            PieceKind::Pawn => abs(df) == 1 && dr == (if p.player == Player::White { 1 } else { -1 }),
            PieceKind::Knight => (abs(df) == 1 && abs(dr) == 2) || (abs(df) == 2 && abs(dr) == 1),
            PieceKind::King => abs(df) <= 1 && abs(dr) <= 1,
            PieceKind::Bishop => abs(df) == abs(dr) && count_between(mb, from, to) == 0,
            PieceKind::Rook => (df == 0 || dr == 0) && count_between(mb, from, to) == 0,
            PieceKind::Queen => (df == 0 || dr == 0 || abs(df) == abs(dr)) && count_between(mb, from, to) == 0,
        }
    }

    /// does the piece standing on `from` (if any) attack `to`?
    pub fn attacks(mb: &Mailbox, from: u8, to: u8) -> bool {
        match mb[from as usize] {
            None => false,
            Some(p) => piece_attacks(mb, p, from, to),
        }
    }

    /// is `to` attacked by any piece of colour `by`?
    pub fn attacked_by(mb: &Mailbox, to: u8, by: Player) -> bool {
        let mut found = false;
        let mut r: u8 = 0;
        while r < 8 {
            let mut f: u8 = 0;
            while f < 8 {
                let from = r * 8 + f;
                if let Some(p) = mb[from as usize] {
                    if p.player == by && piece_attacks(mb, p, from, to) {
                        found = true;
                    }
                }
                f += 1;
            }
            r += 1;
        }
        found
    }

    /// number of pieces `pc` on the board
    pub fn count_piece(mb: &Mailbox, pc: Piece) -> u8 {
        let mut c = 0u8;
        let mut r: u8 = 0;
        while r < 8 {
            let mut f: u8 = 0;
            while f < 8 {
                if mb[(r * 8 + f) as usize] == Some(pc) {
                    c += 1;
                }
                f += 1;
            }
            r += 1;
        }
        c
    }

    /// the square of the (first) king of `player`, 64 when absent
    pub fn king_square(mb: &Mailbox, player: Player) -> u8 {
        let mut k = 64u8;
        let mut r: u8 = 0;
        while r < 8 {
            let mut f: u8 = 0;
            while f < 8 {
                let s = r * 8 + f;
                if k == 64 && mb[s as usize] == Some(Piece::new(player, PieceKind::King)) {
                    k = s;
                }
                f += 1;
            }
            r += 1;
        }
        k
    }
}

// Stand-ins for the six table lookups, used (via kani::stub) by every obligation outside C07: the lookups are
// replaced by their CONTRACT "== coordinate geometry", which C07 proves for the real tables (C07.magic.*, C07.walk.*).
pub mod tstub {
    use super::geo;
    use crate::chess::bitboard::Bitboard;
    use crate::chess::player::Player;
    use crate::chess::square::Square;

    pub fn rook_attacks(s: Square, blockers: Bitboard) -> Bitboard {
        Bitboard::new(geo::rook(s.idx(), blockers.as_u64()))
    }
    pub fn bishop_attacks(s: Square, blockers: Bitboard) -> Bitboard {
        Bitboard::new(geo::bishop(s.idx(), blockers.as_u64()))
    }
    pub fn knight_attacks(s: Square) -> Bitboard {
        Bitboard::new(geo::knight(s.idx()))
    }
    pub fn king_attacks(s: Square) -> Bitboard {
        Bitboard::new(geo::king(s.idx()))
    }
    pub fn pawn_attacks(s: Square, player: Player) -> Bitboard {
        Bitboard::new(geo::pawn(s.idx(), player == Player::White))
    }
    pub fn between(s1: Square, s2: Square) -> Bitboard {
        Bitboard::new(geo::between(s1.idx(), s2.idx()).unwrap_or(0))
    }
}
