// "Indicator tables" (linearity reduction, DESIGN C03/C15): the Zobrist key and the piece-square accumulator are XOR- /
// Z-linear in the table words and the code never branches on a table word, so an identity between two such sums holds
// for ALL table contents iff it holds for every table that is 1 at one component and 0 elsewhere.  The harness picks
// ONE component symbolically; these functions replace the table lookups (kani::stub) and answer for that table.
pub mod indicator {
    use crate::chess::game::CastleRightsSide;
    use crate::chess::piece::{Piece, PieceKind};
    use crate::chess::player::Player;
    use crate::chess::square::Square;
    use crate::engine::eval::PhasedEval;

    /// which component is the "1": 0 = piece-square (CH_PLAYER, CH_KIND, CH_SQ), 1 = castling (CH_PLAYER, CH_SIDE),
    /// 2 = en-passant square CH_SQ, 3 = "no en passant", 4 = side to play
    pub static mut CH_CLASS: u8 = 0;
    pub static mut CH_PLAYER: u8 = 0;
    pub static mut CH_KIND: u8 = 0;
    pub static mut CH_SQ: u8 = 0;
    pub static mut CH_SIDE: u8 = 0;

    pub fn choose() {
        unsafe {
            CH_CLASS = kani::any();
            CH_PLAYER = kani::any();
            CH_KIND = kani::any();
            CH_SQ = kani::any();
            CH_SIDE = kani::any();
            kani::assume(CH_CLASS < 5 && CH_PLAYER < 2 && CH_KIND < 6 && CH_SQ < 64 && CH_SIDE < 2);
        }
    }

    pub fn piece_on_square(player: Player, piece: PieceKind, square: Square) -> u64 {
        unsafe {
            (CH_CLASS == 0 && player.array_idx() as u8 == CH_PLAYER && piece.array_idx() as u8 == CH_KIND && square.idx() == CH_SQ) as u64
        }
    }
    pub fn castle_rights(player: Player, side: CastleRightsSide) -> u64 {
        unsafe { (CH_CLASS == 1 && player.array_idx() as u8 == CH_PLAYER && side.array_idx() as u8 == CH_SIDE) as u64 }
    }
    pub fn en_passant(square: Option<Square>) -> u64 {
        unsafe {
            match square {
                Some(s) => (CH_CLASS == 2 && s.idx() == CH_SQ) as u64,
                None => (CH_CLASS == 3) as u64,
            }
        }
    }
    /// bit 1 so that the side word is visible next to any other component
    pub fn side_to_play() -> u64 {
        unsafe { if CH_CLASS == 4 { 3 } else { 2 } }
    }

    /// piece-square table with a single 1 (in the midgame half) at (CH_PLAYER, CH_KIND, CH_SQ)
    pub fn piece_contributions(square: Square, piece: Piece) -> PhasedEval {
        unsafe {
            if piece.player.array_idx() as u8 == CH_PLAYER && piece.kind.array_idx() as u8 == CH_KIND && square.idx() == CH_SQ {
                PhasedEval::new(1, 0)
            } else {
                PhasedEval::ZERO
            }
        }
    }
}
