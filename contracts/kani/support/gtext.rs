// GHOST TEXT LIBRARY -- a stand-in, bound BY SCOPE, for the parts of `alloc` the engine's text writers use:
// `String` (new / push of Display values through format! / to_string), `Vec` as a collect target, `[String]::join`.
// The engine's writer functions are copied verbatim into a module compiled with #![no_implicit_prelude], where the names
// `String`, `Vec`, `ToString` and the macro `format!` resolve to the items below instead of the standard library's.
// Text is a fixed-capacity byte array plus a length: no heap, no `fmt::Formatter`, no UTF-8 machinery -- which is what
// keeps CBMC's query small (one real `format!` call did not fit in 10 GB / 1500 s, see DESIGN 9.2).
// ASSUMPTION recorded by every obligation that uses it: alloc's String / format! / ToString / join concatenate the
// Display renderings of their arguments in order; Display of &str / char / String / unsigned integers is the text itself /
// the character / the decimal numeral without sign or padding; Display of File / Rank / Square writes `notation()` (that is
// what /repo's three `impl Display` bodies say: `write!(f, "{}", self.notation())`, reviewed, not machine-checked).
// Capacity overflow is an assertion failure (never silently truncated).
pub mod gtext {
    pub const CAP: usize = 96;

    #[derive(Clone, Copy)]
    pub struct String {
        pub b: [u8; CAP],
        pub n: usize,
    }

    impl PartialEq for String {
        fn eq(&self, o: &String) -> bool {
            self.eq_text(o)
        }
    }
    impl Eq for String {}
    impl core::fmt::Debug for String {
        fn fmt(&self, _f: &mut core::fmt::Formatter<'_>) -> core::fmt::Result {
            Ok(())
        }
    }
    impl Default for String {
        fn default() -> Self {
            Self::new()
        }
    }

    impl String {
        pub fn new() -> Self {
            String { b: [0u8; CAP], n: 0 }
        }
        #[inline(always)]
        pub fn push_byte(&mut self, c: u8) {
            assert!(self.n < CAP, "ghost text capacity exceeded");
            self.b[self.n] = c;
            self.n += 1;
        }
        pub fn push_bytes(&mut self, s: &[u8]) {
            let mut i = 0;
            while i < s.len() {
                self.push_byte(s[i]);
                i += 1;
            }
        }
        pub fn push_text(&mut self, o: &String) {
            let mut i = 0;
            while i < o.n {
                self.push_byte(o.b[i]);
                i += 1;
            }
        }
        pub fn len(&self) -> usize {
            self.n
        }
        pub fn byte(&self, i: usize) -> u8 {
            assert!(i < self.n);
            self.b[i]
        }
        pub fn eq_bytes(&self, s: &[u8]) -> bool {
            if self.n != s.len() {
                return false;
            }
            let mut i = 0;
            let mut ok = true;
            while i < s.len() {
                if self.b[i] != s[i] {
                    ok = false;
                }
                i += 1;
            }
            ok
        }
        pub fn eq_text(&self, o: &String) -> bool {
            if self.n != o.n {
                return false;
            }
            let mut i = 0;
            let mut ok = true;
            while i < CAP {
                if i < self.n && self.b[i] != o.b[i] {
                    ok = false;
                }
                i += 1;
            }
            ok
        }
    }

    /// `text.parse::<usize>()`: canonical decimal numerals only (what the engine applies it to: one digit)
    pub trait GFromStr: Sized {
        fn gparse(t: &String) -> Result<Self, ()>;
    }
    impl GFromStr for usize {
        fn gparse(t: &String) -> Result<usize, ()> {
            if t.n == 0 || t.n > 6 {
                return Err(());
            }
            let mut v: usize = 0;
            let mut i = 0;
            while i < 6 {
                if i < t.n {
                    let c = t.b[i];
                    if c < b'0' || c > b'9' {
                        return Err(());
                    }
                    v = v * 10 + (c - b'0') as usize;
                }
                i += 1;
            }
            Ok(v)
        }
    }
    impl String {
        pub fn parse<T: GFromStr>(&self) -> Result<T, ()> {
            T::gparse(self)
        }
    }

    /// `&String` coerces to `&str` (deref coercion), as with alloc's String; the text is ASCII
    impl core::ops::Deref for String {
        type Target = str;
        fn deref(&self) -> &str {
            unsafe { core::str::from_utf8_unchecked(&self.b[..self.n]) }
        }
    }

    /// what `{}` renders
    pub trait GDisplay {
        fn put(&self, out: &mut String);
    }
    impl GDisplay for String {
        fn put(&self, out: &mut String) {
            out.push_text(self)
        }
    }
    impl GDisplay for str {
        fn put(&self, out: &mut String) {
            out.push_bytes(self.as_bytes())
        }
    }
    impl GDisplay for char {
        fn put(&self, out: &mut String) {
            let c = *self as u32;
            assert!(c < 128, "ghost text: ASCII only");
            out.push_byte(c as u8)
        }
    }
    impl<T: GDisplay + ?Sized> GDisplay for &T {
        fn put(&self, out: &mut String) {
            (**self).put(out)
        }
    }
    fn put_decimal(mut v: u64, out: &mut String) {
        let mut digits = [0u8; 20];
        let mut k = 0;
        loop {
            digits[k] = b'0' + (v % 10) as u8;
            k += 1;
            v /= 10;
            if v == 0 {
                break;
            }
        }
        while k > 0 {
            k -= 1;
            out.push_byte(digits[k]);
        }
    }
    macro_rules! gdisplay_uint { ($($t:ty),*) => { $(impl GDisplay for $t { fn put(&self, out: &mut String) { put_decimal(*self as u64, out) } })* } }
    gdisplay_uint!(u8, u16, u32, u64, usize);
    impl GDisplay for i32 {
        // the engine only renders non-negative counters through an inferred i32 (FEN empty-square runs)
        fn put(&self, out: &mut String) {
            assert!(*self >= 0, "ghost text: negative integer rendering is not modelled");
            put_decimal(*self as u64, out)
        }
    }
    impl GDisplay for crate::chess::square::File {
        fn put(&self, out: &mut String) {
            self.notation().put(out)
        }
    }
    impl GDisplay for crate::chess::square::Rank {
        fn put(&self, out: &mut String) {
            self.notation().put(out)
        }
    }

    /// `x.to_string()`
    pub trait ToString {
        fn to_string(&self) -> String;
    }
    impl<T: GDisplay + ?Sized> ToString for T {
        fn to_string(&self) -> String {
            let mut s = String::new();
            self.put(&mut s);
            s
        }
    }

    /// `Vec` as the target of `collect` (at most 8 elements: a rank, or the eight rank texts), readable as a slice
    #[derive(Clone, Copy)]
    pub struct Vec<T: Copy + Default> {
        pub e: [T; 8],
        pub n: usize,
    }
    impl<T: Copy + Default> core::iter::FromIterator<T> for Vec<T> {
        fn from_iter<I: IntoIterator<Item = T>>(it: I) -> Self {
            let mut v = Vec { e: [T::default(); 8], n: 0 };
            for x in it {
                assert!(v.n < 8, "ghost Vec capacity exceeded");
                v.e[v.n] = x;
                v.n += 1;
            }
            v
        }
    }
    impl<T: Copy + Default> core::ops::Deref for Vec<T> {
        type Target = [T];
        fn deref(&self) -> &[T] {
            &self.e[..self.n]
        }
    }
    impl Vec<String> {
        /// `[String]::join(sep)`
        pub fn join(&self, sep: &str) -> String {
            let mut s = String::new();
            let mut i = 0;
            while i < self.n {
                if i > 0 {
                    s.push_bytes(sep.as_bytes());
                }
                s.push_text(&self.e[i]);
                i += 1;
            }
            s
        }
    }
}

/// `format!` for the ghost text: one arm per literal format string the engine uses (a changed format string matches no
/// arm => the staged crate does not compile => ANCHOR-LOST, exit 2, never an alarm)
#[macro_export]
macro_rules! gtext_format {
    ("{}{}", $a:expr, $b:expr $(,)?) => {{ let mut s = $crate::verif_support::gtext::String::new(); $crate::verif_support::gtext::GDisplay::put(&$a, &mut s); $crate::verif_support::gtext::GDisplay::put(&$b, &mut s); s }};
    ("{}{}{}", $a:expr, $b:expr, $c:expr $(,)?) => {{ let mut s = $crate::verif_support::gtext::String::new(); $crate::verif_support::gtext::GDisplay::put(&$a, &mut s); $crate::verif_support::gtext::GDisplay::put(&$b, &mut s); $crate::verif_support::gtext::GDisplay::put(&$c, &mut s); s }};
    ("{}{}{}{}", $a:expr, $b:expr, $c:expr, $d:expr $(,)?) => {{ let mut s = $crate::verif_support::gtext::String::new(); $crate::verif_support::gtext::GDisplay::put(&$a, &mut s); $crate::verif_support::gtext::GDisplay::put(&$b, &mut s); $crate::verif_support::gtext::GDisplay::put(&$c, &mut s); $crate::verif_support::gtext::GDisplay::put(&$d, &mut s); s }};
    ("{}{}{}{}{}{}", $a:expr, $b:expr, $c:expr, $d:expr, $e:expr, $f:expr $(,)?) => {{ let mut s = $crate::verif_support::gtext::String::new(); $crate::verif_support::gtext::GDisplay::put(&$a, &mut s); $crate::verif_support::gtext::GDisplay::put(&$b, &mut s); $crate::verif_support::gtext::GDisplay::put(&$c, &mut s); $crate::verif_support::gtext::GDisplay::put(&$d, &mut s); $crate::verif_support::gtext::GDisplay::put(&$e, &mut s); $crate::verif_support::gtext::GDisplay::put(&$f, &mut s); s }};
    ("{} {} {} {} {} {}", $a:expr, $b:expr, $c:expr, $d:expr, $e:expr, $f:expr $(,)?) => {{ let mut s = $crate::verif_support::gtext::String::new(); $crate::verif_support::gtext::GDisplay::put(&$a, &mut s); s.push_byte(b' '); $crate::verif_support::gtext::GDisplay::put(&$b, &mut s); s.push_byte(b' '); $crate::verif_support::gtext::GDisplay::put(&$c, &mut s); s.push_byte(b' '); $crate::verif_support::gtext::GDisplay::put(&$d, &mut s); s.push_byte(b' '); $crate::verif_support::gtext::GDisplay::put(&$e, &mut s); s.push_byte(b' '); $crate::verif_support::gtext::GDisplay::put(&$f, &mut s); s }};
}

/// ghost carrier of a square for the text writers: the accessors they use delegate to the real Square; `notation` is
/// /repo's own text (chess/square.rs, copied verbatim on every run) compiled against the ghost text library
pub mod gsq {
    #![no_implicit_prelude]
    use ::core::prelude::rust_2021::*;
    use crate::chess::square::{File, Rank};
    use crate::verif_support::gtext::{String, ToString};
    macro_rules! format { ($($t:tt)*) => { $crate::gtext_format!($($t)*) } }

    #[derive(Clone, Copy, PartialEq, Eq)]
    pub struct Square(pub crate::chess::square::Square);
    impl Square {
        pub fn from_file_and_rank(file: File, rank: Rank) -> Self {
            Square(crate::chess::square::Square::from_file_and_rank(file, rank))
        }
        pub fn file(self) -> File {
            self.0.file()
        }
        pub fn rank(self) -> Rank {
            self.0.rank()
        }
        pub fn idx(self) -> u8 {
            self.0.idx()
        }
        pub fn array_idx(self) -> usize {
            self.0.array_idx()
        }
        pub fn bb(self) -> crate::chess::bitboard::Bitboard {
            self.0.bb()
        }
        pub fn forward(self, p: crate::chess::player::Player) -> Self {
            Square(self.0.forward(p))
        }
        pub fn backward(self, p: crate::chess::player::Player) -> Self {
            Square(self.0.backward(p))
        }
        pub fn north(self) -> Self {
            Square(self.0.north())
        }
        pub fn south(self) -> Self {
            Square(self.0.south())
        }
        pub fn relative_for(self, p: crate::chess::player::Player) -> Self {
            Square(self.0.relative_for(p))
        }
        //@@ body: chess/square.rs :: impl Square / fn notation => notation
    }
    impl From<crate::chess::square::Square> for Square {
        fn from(s: crate::chess::square::Square) -> Self {
            Square(s)
        }
    }
    impl From<Square> for crate::chess::square::Square {
        fn from(s: Square) -> Self {
            s.0
        }
    }
    impl PartialEq<crate::chess::square::Square> for Square {
        fn eq(&self, o: &crate::chess::square::Square) -> bool {
            self.0 == *o
        }
    }
}
