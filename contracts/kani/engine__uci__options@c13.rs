//@@ module: engine/uci/options.rs
//@@ tag: c13

fn spin_range(def: &UciOptionType) -> (usize, usize) {
    match def {
        UciOptionType::Spin { min, max, .. } => (*min, *max),
        _ => panic!("not a spin option"),
    }
}

/// error texts are irrelevant to the contract (and format! is very expensive for CBMC): any formatted string is ""
fn fmt_stub(_args: std::fmt::Arguments<'_>) -> String {
    String::new()
}

/// a decimal string of 1..=4 ASCII digits and its value
fn any_decimal(buf: &mut [u8; 4]) -> (usize, usize) {
    let n: usize = kani::any();
    kani::assume(1 <= n && n <= 4);
    let mut v = 0usize;
    let mut i = 0;
    while i < 4 {
        if i < n {
            let d: u8 = kani::any();
            kani::assume(d <= 9);
            buf[i] = b'0' + d;
            v = v * 10 + d as usize;
        }
        i += 1;
    }
    (n, v)
}

//@ obligation: C13.setters.accept_advertised_range
//@ domain: bounded(decimal strings of 1..=4 digits: covers every advertised value 0..=1024 and 0..=1000)
//@ functions: engine/uci/options.rs::HashOption::set, engine/uci/options.rs::ThreadsOption::set, engine/uci/options.rs::MoveOverheadOption::set
//@ timeout: 1800
//@ mem_gb: 8
//@ note: for every decimal string of up to four digits whose value lies inside the range the option ADVERTISES (read from UciOption::DEF, so changing the advertised range re-targets the proof), the three spin-option setters return Ok and store exactly that value; they never panic on any such string
//@ assumes: str::parse::<usize> as compiled (std); strings longer than four digits are outside the advertised ranges
#[kani::proof]
#[kani::unwind(6)]
#[kani::stub(std::fmt::format, fmt_stub)]
fn vk_c13_setters_accept_advertised_range() {
    let mut buf = [b'0'; 4];
    let (n, v) = any_decimal(&mut buf);
    let s = unsafe { std::str::from_utf8_unchecked(&buf[..n]) };
    let mut options = EngineOptions::default();
    let which: u8 = kani::any();
    kani::assume(which < 3);
    kani::cover!(which == 0 && v == 1024);
    kani::cover!(which == 2 && v == 1000);
    kani::cover!(which == 0 && v == 0);
    if which == 0 {
        let (lo, hi) = spin_range(&<HashOption as UciOption>::DEF);
        let r = HashOption::set(&mut options, s);
        if lo <= v && v <= hi {
            assert!(r == Ok(v) && options.hash_size == v);
        }
    } else if which == 1 {
        let (lo, hi) = spin_range(&<ThreadsOption as UciOption>::DEF);
        let r = ThreadsOption::set(&mut options, s);
        if lo <= v && v <= hi {
            assert!(r.is_ok() && options.threads == v);
        }
    } else {
        let (lo, hi) = spin_range(&<MoveOverheadOption as UciOption>::DEF);
        let r = MoveOverheadOption::set(&mut options, s);
        if lo <= v && v <= hi {
            assert!(r.is_ok() && options.move_overhead == v);
        }
    }
}
