//@@ module: chess/game.rs
//@@ tag: c02
//@@ needs: chess__board@sym.rs chess__game@sym.rs
// Contracts of Game::make_move / undo_move / make_null_move / undo_null_move on the FULLY SYMBOLIC game:
// arbitrary placement (13^64), side, rights, ep target, clocks, key, accumulators, and an arbitrary move that is
// "shape-valid" for its class (what C01.gen.* establishes for every generated move).  One harness per move class and
// per group of facts:  what = 0 -> C02 (rules + exact reversal), 1 -> C03 (key delta), 2 -> C15 (accumulator delta).
use crate::chess::board::verif_kani_sym as sym;
use super::verif_kani_symgame as symgame;
use crate::verif_support::{geo, indicator, rules};
use crate::engine::eval::PhasedEval;
use crate::chess::piece::PromotionPieceKind;

pub const QUIET: u8 = 0;
pub const CAPTURE: u8 = 1;
pub const EN_PASSANT: u8 = 2;
pub const CASTLE_K: u8 = 3;
pub const CASTLE_Q: u8 = 4;
pub const PROMO: u8 = 5;
pub const CAP_PROMO: u8 = 6;

fn fwd(player: Player) -> i8 {
    if player == Player::White { 1 } else { -1 }
}
/// rank index relative to the player (0 = own back rank)
fn rel_rank(player: Player, sq: u8) -> i8 {
    let r = geo::rank(sq);
    if player == Player::White { r } else { 7 - r }
}
fn home_rank(player: Player) -> u8 {
    if player == Player::White { 0 } else { 56 }
}
fn any_promo() -> PromotionPieceKind {
    match kani::any::<u8>() % 4 {
        0 => PromotionPieceKind::Knight,
        1 => PromotionPieceKind::Bishop,
        2 => PromotionPieceKind::Rook,
        _ => PromotionPieceKind::Queen,
    }
}

/// castling rights are consistent with the placement (part of "legal position")
fn rights_consistent(mb: &sym::Mailbox, rights: &ByPlayer<CastleRights>) -> bool {
    let mut ok = true;
    let mut i = 0;
    while i < 2 {
        let pl = if i == 0 { Player::White } else { Player::Black };
        let h = home_rank(pl) as usize;
        let r = rights.for_player(pl);
        let king_home = mb[h + 4] == Some(Piece::new(pl, PieceKind::King));
        if r.king_side {
            ok = ok && king_home && mb[h + 7] == Some(Piece::new(pl, PieceKind::Rook));
        }
        if r.queen_side {
            ok = ok && king_home && mb[h] == Some(Piece::new(pl, PieceKind::Rook));
        }
        i += 1;
    }
    ok
}

pub struct Case {
    pub mb: sym::Mailbox,
    pub game: Game,
    pub mv: Move,
    pub mb_after: sym::Mailbox,
    pub moved: Piece,
    pub captured_on_to: Option<Piece>,
    pub is_capture_or_pawn: bool,
    /// the (distinct) squares on which mb_after may differ from mb
    pub touched: [Option<u8>; 4],
}

/// an arbitrary game and an arbitrary shape-valid move of the given class, plus the mailbox the RULES prescribe
pub fn any_case(class: u8) -> Case {
    let mb = sym::any_mailbox();
    let game = symgame::game_with_board(sym::board_of(&mb));
    let player = game.player;
    let them = player.other();
    kani::assume(rights_consistent(&mb, &game.castle_rights));
    let from = geo::any_square();
    let to = geo::any_square();
    kani::assume(from != to);
    let (fi, ti) = (from.idx(), to.idx());
    let moved = match mb[from.array_idx()] {
        Some(p) => p,
        None => {
            kani::assume(false);
            unreachable!()
        }
    };
    kani::assume(moved.player == player);
    // legal position: exactly one king per side; together with rights consistency this gives: a king that moves while
    // its side still has a castling right moves from its home square (stated in this derived form to avoid counting)
    {
        let r = game.castle_rights.for_player(player);
        kani::assume(moved.kind != PieceKind::King || !(r.king_side || r.queen_side) || from.idx() == home_rank(player) + 4);
    }
    let target = mb[to.array_idx()];
    let (ff, fr, tf, tr) = (geo::file(fi), geo::rank(fi), geo::file(ti), geo::rank(ti));
    let f = fwd(player);
    let is_pawn = moved.kind == PieceKind::Pawn;
    let mut mb2 = mb;
    mb2[from.array_idx()] = None;
    mb2[to.array_idx()] = Some(moved);
    let mut touched = [Some(fi), Some(ti), None, None];
    let mv;
    if class == QUIET {
        kani::assume(target.is_none());
        if is_pawn {
            let single = tf == ff && tr == fr + f;
            let double = tf == ff && tr == fr + 2 * f && rel_rank(player, fi) == 1
                && mb[((fr + f) * 8 + ff) as usize].is_none();
            kani::assume(single || double);
            kani::assume(rel_rank(player, ti) != 7);
        }
        mv = Move::quiet(from, to);
    } else if class == CAPTURE {
        kani::assume(matches!(target, Some(t) if t.player == them && t.kind != PieceKind::King));
        if is_pawn {
            kani::assume(tr == fr + f && (tf == ff + 1 || tf == ff - 1) && rel_rank(player, ti) != 7);
        }
        mv = Move::capture(from, to);
    } else if class == EN_PASSANT {
        kani::assume(is_pawn && target.is_none() && game.en_passant_target == Some(to));
        kani::assume(tr == fr + f && (tf == ff + 1 || tf == ff - 1));
        kani::assume(rel_rank(player, ti) == 5);
        let victim = ((tr - f) * 8 + tf) as usize;
        kani::assume(mb[victim] == Some(Piece::new(them, PieceKind::Pawn)));
        mb2[victim] = None;
        touched[2] = Some(victim as u8);
        mv = Move::en_passant(from, to);
    } else if class == CASTLE_K || class == CASTLE_Q {
        let h = home_rank(player);
        kani::assume(moved.kind == PieceKind::King && fi == h + 4);
        let rook = Some(Piece::new(player, PieceKind::Rook));
        if class == CASTLE_K {
            kani::assume(ti == h + 6 && mb[(h + 7) as usize] == rook && mb[(h + 5) as usize].is_none() && target.is_none());
            mb2[(h + 7) as usize] = None;
            mb2[(h + 5) as usize] = rook;
            touched[2] = Some(h + 7);
            touched[3] = Some(h + 5);
        } else {
            kani::assume(ti == h + 2 && mb[h as usize] == rook && mb[(h + 1) as usize].is_none()
                && mb[(h + 3) as usize].is_none() && target.is_none());
            mb2[h as usize] = None;
            mb2[(h + 3) as usize] = rook;
            touched[2] = Some(h);
            touched[3] = Some(h + 3);
        }
        mv = Move::castles(from, to);
    } else if class == PROMO {
        let p = any_promo();
        kani::assume(is_pawn && target.is_none() && tf == ff && tr == fr + f && rel_rank(player, ti) == 7);
        mb2[to.array_idx()] = Some(Piece::new(player, p.piece()));
        mv = Move::quiet_promotion(from, to, p);
    } else {
        let p = any_promo();
        kani::assume(is_pawn && tr == fr + f && (tf == ff + 1 || tf == ff - 1) && rel_rank(player, ti) == 7);
        kani::assume(matches!(target, Some(t) if t.player == them && t.kind != PieceKind::King));
        mb2[to.array_idx()] = Some(Piece::new(player, p.piece()));
        mv = Move::capture_promotion(from, to, p);
    }
    let is_capture = target.is_some() || class == EN_PASSANT;
    Case { mb, game, mv, mb_after: mb2, moved, captured_on_to: target, is_capture_or_pawn: is_capture || is_pawn, touched }
}

/// castling rights the rules prescribe after the move
fn rights_after(c: &Case) -> [[bool; 2]; 2] {
    let g = &c.game;
    let player = g.player;
    let them = player.other();
    let mut r = [
        [g.castle_rights.white().king_side, g.castle_rights.white().queen_side],
        [g.castle_rights.black().king_side, g.castle_rights.black().queen_side],
    ];
    let (pi, ti) = (player.array_idx(), them.array_idx());
    let from = c.mv.src().idx();
    let to = c.mv.dst().idx();
    let h = home_rank(player);
    let th = home_rank(them);
    if c.moved.kind == PieceKind::King {
        r[pi] = [false, false];
    }
    if c.moved.kind == PieceKind::Rook && from == h + 7 {
        r[pi][0] = false;
    }
    if c.moved.kind == PieceKind::Rook && from == h {
        r[pi][1] = false;
    }
    if c.captured_on_to.is_some() && to == th + 7 {
        r[ti][0] = false;
    }
    if c.captured_on_to.is_some() && to == th {
        r[ti][1] = false;
    }
    r
}

/// en-passant target the engine records after the move: the skipped square iff an enemy pawn stands beside the
/// double-pushed pawn, else none
fn ep_after(c: &Case) -> Option<u8> {
    let player = c.game.player;
    let (from, to) = (c.mv.src().idx(), c.mv.dst().idx());
    let f = fwd(player);
    if c.moved.kind == PieceKind::Pawn && rel_rank(player, from) == 1 && rel_rank(player, to) == 3 {
        let (tf, tr) = (geo::file(to), geo::rank(to));
        let enemy_pawn = Some(Piece::new(player.other(), PieceKind::Pawn));
        let left = geo::on_board(tf - 1, tr) && c.mb_after[(tr * 8 + tf - 1) as usize] == enemy_pawn;
        let right = geo::on_board(tf + 1, tr) && c.mb_after[(tr * 8 + tf + 1) as usize] == enemy_pawn;
        if left || right {
            return Some(((geo::rank(from) + f) * 8 + geo::file(from)) as u8);
        }
    }
    None
}

/// XOR of the (indicator) key components of a position
pub fn spec_key(mb: &sym::Mailbox, rights: [[bool; 2]; 2], ep: Option<u8>, black_to_move: bool) -> u64 {
    let mut h = 0u64;
    let mut r: u8 = 0;
    while r < 8 {
        let mut f: u8 = 0;
        while f < 8 {
            let s = r * 8 + f;
            if let Some(p) = mb[s as usize] {
                h ^= indicator::piece_on_square(p.player, p.kind, Square::from_index(s));
            }
            f += 1;
        }
        r += 1;
    }
    if rights[0][0] { h ^= indicator::castle_rights(Player::White, CastleRightsSide::Kingside); }
    if rights[0][1] { h ^= indicator::castle_rights(Player::White, CastleRightsSide::Queenside); }
    if rights[1][0] { h ^= indicator::castle_rights(Player::Black, CastleRightsSide::Kingside); }
    if rights[1][1] { h ^= indicator::castle_rights(Player::Black, CastleRightsSide::Queenside); }
    h ^= indicator::en_passant(ep.map(Square::from_index));
    if black_to_move { h ^= indicator::side_to_play(); }
    h
}

/// (indicator piece-square contribution (midgame half), phase weight) of what stands on square s
fn acc_at(mb: &sym::Mailbox, s: u8) -> (i16, i16) {
    match mb[s as usize] {
        Some(p) => (indicator::piece_contributions(Square::from_index(s), p).midgame().0, spec_phase(p.kind)),
        None => (0, 0),
    }
}

/// recomputed(post) - recomputed(pre) for the accumulators: the two recomputations are sums over all 64 squares and
/// `mb_after` equals `mb` outside `touched` by construction, so the difference is the sum over the touched squares
fn spec_acc_delta(c: &Case) -> (i16, i16) {
    let mut d = (0i16, 0i16);
    let mut i = 0;
    while i < 4 {
        if let Some(s) = c.touched[i] {
            let (a, b) = (acc_at(&c.mb_after, s), acc_at(&c.mb, s));
            d = (d.0 + a.0 - b.0, d.1 + a.1 - b.1);
        }
        i += 1;
    }
    d
}

/// documented phase weights (tied to the real function by C15.phase.contribution)
fn spec_phase(kind: PieceKind) -> i16 {
    match kind {
        PieceKind::Pawn | PieceKind::King => 0,
        PieceKind::Knight | PieceKind::Bishop => 1,
        PieceKind::Rook => 2,
        PieceKind::Queen => 4,
    }
}

fn rights_arr(r: &ByPlayer<CastleRights>) -> [[bool; 2]; 2] {
    [[r.white().king_side, r.white().queen_side], [r.black().king_side, r.black().queen_side]]
}

pub fn check_make_undo(class: u8, what: u8) {
    indicator::choose();
    let c = any_case(class);
    let mut g = c.game.clone();
    let pre = c.game.clone();
    let player = pre.player;
    g.make_move(c.mv);
    kani::cover!(true);
    if what == 0 {
        // ---- C02: the position the rules prescribe ----
        assert!(sym::boards_equal(&g.board, &sym::board_of(&c.mb_after)));
        assert!(g.player == player.other());
        let ra = rights_after(&c);
        assert!(rights_arr(&g.castle_rights) == ra);
        assert!(g.en_passant_target.map(|s| s.idx()) == ep_after(&c));
        assert!(g.halfmove_clock == if c.is_capture_or_pawn { 0 } else { pre.halfmove_clock + 1 });
        assert!(g.plies == pre.plies + 1);
        assert!(g.history.len() == 1);
        let h = &g.history[0];
        assert!(h.mv == Some(c.mv) && h.captured == c.captured_on_to && u64::from(h.halfmove_clock) == u64::from(pre.halfmove_clock));
        assert!(rights_arr(&h.castle_rights) == rights_arr(&pre.castle_rights) && h.en_passant_target == pre.en_passant_target);
        assert!(h.zobrist == pre.zobrist && h.incremental_eval.phase_value == pre.incremental_eval.phase_value
            && h.incremental_eval.piece_square_tables == pre.incremental_eval.piece_square_tables);
        // ---- and exact reversal ----
        g.undo_move();
        assert!(sym::boards_equal(&g.board, &pre.board));
        assert!(g.player == pre.player && g.plies == pre.plies && g.halfmove_clock == pre.halfmove_clock);
        assert!(rights_arr(&g.castle_rights) == rights_arr(&pre.castle_rights) && g.en_passant_target == pre.en_passant_target);
        assert!(g.zobrist == pre.zobrist && g.history.len() == 0);
        assert!(g.incremental_eval.phase_value == pre.incremental_eval.phase_value
            && g.incremental_eval.piece_square_tables == pre.incremental_eval.piece_square_tables);
    } else if what == 1 {
        // ---- C03: incremental key delta == recomputed key delta (so key == hash(position) is preserved) ----
        let before = spec_key(&c.mb, rights_arr(&pre.castle_rights), pre.en_passant_target.map(|s| s.idx()), player == Player::Black);
        let after = spec_key(&c.mb_after, rights_after(&c), ep_after(&c), player == Player::White);
        assert!(g.zobrist.0 ^ pre.zobrist.0 == before ^ after);
    } else {
        // ---- C15: accumulator delta == recomputed delta ----
        let (dp, dph) = spec_acc_delta(&c);
        assert!(g.incremental_eval.phase_value - pre.incremental_eval.phase_value == dph);
        let d = g.incremental_eval.piece_square_tables - pre.incremental_eval.piece_square_tables;
        assert!(d.midgame().0 == dp && d.endgame().0 == 0);
    }
}

macro_rules! make_undo_harness {
    ($name:ident, $class:expr, $what:expr) => {
        #[kani::proof]
        #[kani::unwind(10)]
        //@@stubs-indicator
        fn $name() {
            check_make_undo($class, $what);
        }
    };
}

//@ obligation: C02.make_undo.quiet
//@ property: C02 C17 C11
//@ domain: complete
//@ harness: vk_c02_make_undo_quiet
//@ functions: chess/game.rs::Game::make_move, chess/game.rs::Game::undo_move, chess/game.rs::Game::set_at, chess/game.rs::Game::remove_at, chess/game.rs::Game::try_remove_castle_rights
//@ timeout: 1800
//@ mem_gb: 4
//@ note: fully symbolic game x every shape-valid non-capturing, non-castling, non-promoting move (pawn single and double pushes included): post-state == rules (64 squares in all three views, side, rights, ep target only if capturable, clocks, history snapshot) and make;undo restores every observable field
make_undo_harness!(vk_c02_make_undo_quiet, QUIET, 0);
//@ obligation: C02.make_undo.capture
//@ property: C02 C17 C11
//@ domain: complete
//@ harness: vk_c02_make_undo_capture
//@ functions: chess/game.rs::Game::make_move, chess/game.rs::Game::undo_move
//@ timeout: 1800
//@ mem_gb: 4
make_undo_harness!(vk_c02_make_undo_capture, CAPTURE, 0);
//@ obligation: C02.make_undo.en_passant
//@ property: C02 C17 C11
//@ domain: complete
//@ harness: vk_c02_make_undo_en_passant
//@ functions: chess/game.rs::Game::make_move, chess/game.rs::Game::undo_move
//@ timeout: 1800
//@ mem_gb: 4
make_undo_harness!(vk_c02_make_undo_en_passant, EN_PASSANT, 0);
//@ obligation: C02.make_undo.castle_kingside
//@ property: C02 C17 C11
//@ domain: complete
//@ harness: vk_c02_make_undo_castle_k
//@ functions: chess/game.rs::Game::make_move, chess/game.rs::Game::undo_move, chess/square.rs::mod squares / fn castle_squares
//@ timeout: 1800
//@ mem_gb: 4
make_undo_harness!(vk_c02_make_undo_castle_k, CASTLE_K, 0);
//@ obligation: C02.make_undo.castle_queenside
//@ property: C02 C17 C11
//@ domain: complete
//@ harness: vk_c02_make_undo_castle_q
//@ functions: chess/game.rs::Game::make_move, chess/game.rs::Game::undo_move, chess/square.rs::mod squares / fn castle_squares
//@ timeout: 1800
//@ mem_gb: 4
make_undo_harness!(vk_c02_make_undo_castle_q, CASTLE_Q, 0);
//@ obligation: C02.make_undo.promotion
//@ property: C02 C17 C11
//@ domain: complete
//@ harness: vk_c02_make_undo_promo
//@ functions: chess/game.rs::Game::make_move, chess/game.rs::Game::undo_move
//@ timeout: 1800
//@ mem_gb: 4
make_undo_harness!(vk_c02_make_undo_promo, PROMO, 0);
//@ obligation: C02.make_undo.capture_promotion
//@ property: C02 C17 C11
//@ domain: complete
//@ harness: vk_c02_make_undo_cap_promo
//@ functions: chess/game.rs::Game::make_move, chess/game.rs::Game::undo_move
//@ timeout: 1800
//@ mem_gb: 4
make_undo_harness!(vk_c02_make_undo_cap_promo, CAP_PROMO, 0);

//@ obligation: C03.step.quiet
//@ property: C03 C11
//@ domain: complete
//@ harness: vk_c03_step_quiet
//@ functions: chess/game.rs::Game::make_move, chess/zobrist.rs::ZobristHash::toggle_piece_on_square, chess/zobrist.rs::ZobristHash::toggle_castle_rights, chess/zobrist.rs::ZobristHash::set_en_passant, chess/zobrist.rs::ZobristHash::toggle_side_to_play
//@ timeout: 1800
//@ mem_gb: 4
//@ note: inductive step of "key == hash(position)": for an arbitrary pre-key z, make_move changes the key by exactly hash(post position) XOR hash(pre position), for every table content (linearity reduction: indicator table of one symbolically chosen component)
//@ assumes: the key is only ever combined by XOR and never branched on (scan of zobrist.rs / game.rs); bits of a component word are treated uniformly
make_undo_harness!(vk_c03_step_quiet, QUIET, 1);
//@ obligation: C03.step.capture
//@ property: C03 C11
//@ domain: complete
//@ harness: vk_c03_step_capture
//@ functions: chess/game.rs::Game::make_move
//@ timeout: 1800
//@ mem_gb: 4
make_undo_harness!(vk_c03_step_capture, CAPTURE, 1);
//@ obligation: C03.step.en_passant
//@ property: C03 C11
//@ domain: complete
//@ harness: vk_c03_step_en_passant
//@ functions: chess/game.rs::Game::make_move
//@ timeout: 1800
//@ mem_gb: 4
make_undo_harness!(vk_c03_step_en_passant, EN_PASSANT, 1);
//@ obligation: C03.step.castle_kingside
//@ property: C03 C11
//@ domain: complete
//@ harness: vk_c03_step_castle_k
//@ functions: chess/game.rs::Game::make_move
//@ timeout: 1800
//@ mem_gb: 4
make_undo_harness!(vk_c03_step_castle_k, CASTLE_K, 1);
//@ obligation: C03.step.castle_queenside
//@ property: C03 C11
//@ domain: complete
//@ harness: vk_c03_step_castle_q
//@ functions: chess/game.rs::Game::make_move
//@ timeout: 1800
//@ mem_gb: 4
make_undo_harness!(vk_c03_step_castle_q, CASTLE_Q, 1);
//@ obligation: C03.step.promotion
//@ property: C03 C11
//@ domain: complete
//@ harness: vk_c03_step_promo
//@ functions: chess/game.rs::Game::make_move
//@ timeout: 1800
//@ mem_gb: 4
make_undo_harness!(vk_c03_step_promo, PROMO, 1);
//@ obligation: C03.step.capture_promotion
//@ property: C03 C11
//@ domain: complete
//@ harness: vk_c03_step_cap_promo
//@ functions: chess/game.rs::Game::make_move
//@ timeout: 1800
//@ mem_gb: 4
make_undo_harness!(vk_c03_step_cap_promo, CAP_PROMO, 1);

//@ obligation: C15.step.quiet
//@ property: C15
//@ domain: complete
//@ harness: vk_c15_step_quiet
//@ functions: chess/game.rs::Game::make_move, engine/eval/mod.rs::IncrementalEvalFields::set_at, engine/eval/mod.rs::IncrementalEvalFields::remove_at
//@ timeout: 1800
//@ mem_gb: 4
//@ note: inductive step of "accumulators == recomputation": make_move changes the piece-square accumulator and the phase counter by exactly (recomputed(post) - recomputed(pre)), for every table content (linearity reduction as in C03; overflow-freeness of the real sums is C16.range)
//@ assumes: the packed accumulator is only combined by + and - (C15.packed.halves); no overflow of the real sums (C16.range)
make_undo_harness!(vk_c15_step_quiet, QUIET, 2);
//@ obligation: C15.step.capture
//@ property: C15
//@ domain: complete
//@ harness: vk_c15_step_capture
//@ functions: chess/game.rs::Game::make_move
//@ timeout: 1800
//@ mem_gb: 4
make_undo_harness!(vk_c15_step_capture, CAPTURE, 2);
//@ obligation: C15.step.en_passant
//@ property: C15
//@ domain: complete
//@ harness: vk_c15_step_en_passant
//@ functions: chess/game.rs::Game::make_move
//@ timeout: 1800
//@ mem_gb: 4
make_undo_harness!(vk_c15_step_en_passant, EN_PASSANT, 2);
//@ obligation: C15.step.castle_kingside
//@ property: C15
//@ domain: complete
//@ harness: vk_c15_step_castle_k
//@ functions: chess/game.rs::Game::make_move
//@ timeout: 1800
//@ mem_gb: 4
make_undo_harness!(vk_c15_step_castle_k, CASTLE_K, 2);
//@ obligation: C15.step.castle_queenside
//@ property: C15
//@ domain: complete
//@ harness: vk_c15_step_castle_q
//@ functions: chess/game.rs::Game::make_move
//@ timeout: 1800
//@ mem_gb: 4
make_undo_harness!(vk_c15_step_castle_q, CASTLE_Q, 2);
//@ obligation: C15.step.promotion
//@ property: C15
//@ domain: complete
//@ harness: vk_c15_step_promo
//@ functions: chess/game.rs::Game::make_move
//@ timeout: 1800
//@ mem_gb: 4
make_undo_harness!(vk_c15_step_promo, PROMO, 2);
//@ obligation: C15.step.capture_promotion
//@ property: C15
//@ domain: complete
//@ harness: vk_c15_step_cap_promo
//@ functions: chess/game.rs::Game::make_move
//@ timeout: 1800
//@ mem_gb: 4
make_undo_harness!(vk_c15_step_cap_promo, CAP_PROMO, 2);

//@ obligation: C02.null.make_undo
//@ property: C02 C03 C15
//@ domain: complete
//@ functions: chess/game.rs::Game::make_null_move, chess/game.rs::Game::undo_null_move
//@ timeout: 1800
//@ mem_gb: 4
//@ note: fully symbolic game: a null move changes only the side, clears the ep target, adds one ply and pushes a snapshot; placement, rights, halfmove clock and accumulators are untouched; the key changes by exactly hash(post) XOR hash(pre); undo_null_move restores everything (castle rights are not restored by undo, so the contract requires -- and proves -- that the null move never changes them)
#[kani::proof]
#[kani::unwind(10)]
//@@stubs-indicator
fn vk_c02_null_make_undo() {
    indicator::choose();
    let mb = sym::any_mailbox();
    let pre = symgame::game_with_board(sym::board_of(&mb));
    let mut g = pre.clone();
    g.make_null_move();
    kani::cover!(pre.en_passant_target.is_some());
    assert!(sym::boards_equal(&g.board, &pre.board));
    assert!(g.player == pre.player.other() && g.en_passant_target.is_none());
    assert!(g.plies == pre.plies + 1 && g.halfmove_clock == pre.halfmove_clock);
    assert!(rights_arr(&g.castle_rights) == rights_arr(&pre.castle_rights));
    assert!(g.incremental_eval.phase_value == pre.incremental_eval.phase_value
        && g.incremental_eval.piece_square_tables == pre.incremental_eval.piece_square_tables);
    assert!(g.history.len() == 1 && g.history[0].mv.is_none() && g.history[0].zobrist == pre.zobrist);
    let r = rights_arr(&pre.castle_rights);
    let before = spec_key(&mb, r, pre.en_passant_target.map(|s| s.idx()), pre.player == Player::Black);
    let after = spec_key(&mb, r, None, pre.player == Player::White);
    assert!(g.zobrist.0 ^ pre.zobrist.0 == before ^ after);
    g.undo_null_move();
    assert!(sym::boards_equal(&g.board, &pre.board));
    assert!(g.player == pre.player && g.plies == pre.plies && g.halfmove_clock == pre.halfmove_clock);
    assert!(rights_arr(&g.castle_rights) == rights_arr(&pre.castle_rights) && g.en_passant_target == pre.en_passant_target);
    assert!(g.zobrist == pre.zobrist && g.history.len() == 0);
    assert!(g.incremental_eval.phase_value == pre.incremental_eval.phase_value
        && g.incremental_eval.piece_square_tables == pre.incremental_eval.piece_square_tables);
}

pub static mut BASE_HASH_CALLS: u8 = 0;
pub static mut BASE_INIT_CALLS: u8 = 0;
fn hash_contract(game: &Game) -> ZobristHash {
    unsafe { BASE_HASH_CALLS += 1; }
    // "the key computed from scratch for this game" (C03.hash_additive): here a marker derived from observable fields
    ZobristHash(0xABCD_0000 ^ game.halfmove_clock as u64 ^ ((game.player == Player::Black) as u64) << 40)
}
fn init_contract(board: &crate::chess::board::Board) -> IncrementalEvalFields {
    unsafe { BASE_INIT_CALLS += 1; }
    IncrementalEvalFields { phase_value: 77, piece_square_tables: PhasedEval::new(board.occupancy().count() as i16, -5) }
}

//@ obligation: C03.base.from_state
//@ property: C03 C15 C11
//@ domain: complete
//@ functions: chess/game.rs::Game::from_state
//@ timeout: 900
//@ mem_gb: 4
//@ note: base case of both inductions: the constructor used for every FEN stores the arguments unchanged, an empty history, key = zobrist::hash(of the finished game) and accumulators = IncrementalEvalFields::init(board) (both callees replaced by contract functions)
#[kani::proof]
#[kani::unwind(8)]
#[kani::stub(crate::chess::zobrist::hash, hash_contract)]
#[kani::stub(crate::engine::eval::IncrementalEvalFields::init, init_contract)]
fn vk_c03_base_from_state() {
    let mb = sym::any_mailbox();
    let b = sym::board_of(&mb);
    let t = symgame::game_with_board(sym::empty_board());
    let g = Game::from_state(b.clone(), t.player, t.castle_rights.clone(), t.en_passant_target, t.halfmove_clock, t.plies);
    kani::cover!(true);
    assert!(sym::boards_equal(&g.board, &b));
    assert!(g.player == t.player && g.en_passant_target == t.en_passant_target && g.halfmove_clock == t.halfmove_clock && g.plies == t.plies);
    assert!(rights_arr(&g.castle_rights) == rights_arr(&t.castle_rights) && g.history.len() == 0);
    assert!(g.zobrist.0 == 0xABCD_0000 ^ t.halfmove_clock as u64 ^ ((t.player == Player::Black) as u64) << 40);
    assert!(g.incremental_eval.phase_value == 77 && g.incremental_eval.piece_square_tables == PhasedEval::new(b.occupancy().count() as i16, -5));
    assert!(unsafe { BASE_HASH_CALLS == 1 && BASE_INIT_CALLS == 1 });
}

//@ obligation: C02.canary.make
//@ property: C02 C03 C15
//@ canary: true
//@ timeout: 1800
//@ mem_gb: 4
#[kani::proof]
#[kani::unwind(10)]
//@@stubs-indicator
fn vk_c02_canary_make() {
    indicator::choose();
    let c = any_case(CAPTURE);
    let mut g = c.game.clone();
    g.make_move(c.mv);
    assert!(g.halfmove_clock != 0); // must FAIL: captures reset the clock
}
