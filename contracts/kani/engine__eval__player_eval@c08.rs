//@@ module: engine/eval/player_eval.rs
//@@ tag: c08

//@ obligation: C08.mate_arith.announce
//@ domain: complete
//@ functions: engine/eval/player_eval.rs::Eval::mate_in, engine/eval/player_eval.rs::Eval::mated_in, engine/eval/player_eval.rs::Eval::is_mate_in_moves
//@ timeout: 300
//@ note: for every ply count p below the mate threshold (p < 100): a mate score for the side to move p plies from the root is announced as mate in ceil(p/2) moves (p odd: the mating side makes (p+1)/2 moves), a mated score as -(p/2) (p even: the mated side makes p/2 moves before being mated... reported negative); scores outside the two mate bands are never announced as mate
#[kani::proof]
fn vk_c08_mate_arith_announce() {
    let p: u8 = kani::any();
    kani::assume(p < 100);
    kani::cover!(p == 99);
    assert!(Eval::mate_in(p).is_mate_in_moves() == Some((p as i16 + 1) / 2));
    assert!(Eval::mated_in(p).is_mate_in_moves() == Some(-(p as i16 / 2)));
    let x: i16 = kani::any();
    kani::assume(-31900 <= x && x <= 31900);
    assert!(Eval(x).is_mate_in_moves().is_none());
}

//@ obligation: C08.mate_arith.no_mate_zero_for_win
//@ domain: complete
//@ functions: engine/eval/player_eval.rs::Eval::is_mate_in_moves
//@ timeout: 300
//@ note: a winning mate score the search can return at the root (mate_in(p), p >= 1: the root side needs at least one move) is never announced as "mate 0"
#[kani::proof]
fn vk_c08_mate_arith_no_zero() {
    let p: u8 = kani::any();
    kani::assume(1 <= p && p < 100);
    kani::cover!(p == 1);
    assert!(Eval::mate_in(p).is_mate_in_moves().unwrap() >= 1);
}

//@ obligation: C08.mate_arith.tt_adjust
//@ property: C08 C04
//@ domain: complete
//@ functions: engine/eval/player_eval.rs::Eval::with_mate_distance_from_position, engine/eval/player_eval.rs::Eval::with_mate_distance_from_root
//@ timeout: 300
//@ note: for all scores |x| <= 32000 and all plies <= 255: storing relative to the position then reading relative to the root is the identity on mate scores produced plies or more from the root, non-mate scores are untouched by both, and neither overflows i16
#[kani::proof]
fn vk_c08_mate_arith_tt_adjust() {
    let x: i16 = kani::any();
    let p: u8 = kani::any();
    kani::assume(-32000 <= x && x <= 32000);
    let stored = Eval(x).with_mate_distance_from_position(p);
    kani::cover!(x > 31900 && p > 50);
    if -31900 <= x && x <= 31900 {
        assert!(stored.0 == x && Eval(x).with_mate_distance_from_root(p).0 == x);
    }
    // a mate score found at `p` plies from the root is at least p plies long: |x| <= 32000 - p
    if x > 31900 && x <= 32000 - p as i16 {
        assert!(stored.0 == x + p as i16 && stored.0 <= 32000);
        assert!(stored.with_mate_distance_from_root(p).0 == x);
    }
    if x < -31900 && x >= -32000 + p as i16 {
        assert!(stored.0 == x - p as i16 && stored.0 >= -32000);
        assert!(stored.with_mate_distance_from_root(p).0 == x);
    }
}

//@ obligation: C08.eval_ops.neg_total
//@ property: C08 C04
//@ domain: complete
//@ functions: engine/eval/player_eval.rs::impl std::ops::Neg for Eval / fn neg, engine/eval/player_eval.rs::Eval::from_white_eval
//@ timeout: 300
//@ note: negation never overflows (saturating), is an involution on |x| <= 32767, and maps the score range [-32000, 32000] onto itself
#[kani::proof]
fn vk_c08_eval_neg_total() {
    let x: i16 = kani::any();
    let n = -Eval(x);
    kani::cover!(x == i16::MIN);
    if x != i16::MIN {
        assert!(n.0 == -x && (-n).0 == x);
    }
    if -32000 <= x && x <= 32000 {
        assert!(-32000 <= n.0 && n.0 <= 32000);
    }
}

//@ obligation: C08.canary.mate
//@ canary: true
//@ timeout: 300
#[kani::proof]
fn vk_c08_canary_mate() {
    let p: u8 = kani::any();
    kani::assume(p < 100);
    assert!(Eval::mate_in(p).is_mate_in_moves() == Some(p as i16 / 2)); // must FAIL for odd p
}
