//@@ module: chess/zobrist.rs
//@@ tag: c03
//@@ needs: chess__board@sym.rs chess__game@sym.rs chess__game@c02.rs
use crate::chess::board::verif_kani_sym as sym;
use crate::chess::game::verif_kani_symgame as symgame;
use crate::chess::game::verif_kani_c02 as c02;
use crate::verif_support::{geo, indicator, rules};

//@ obligation: C03.hash_additive
//@ domain: complete
//@ functions: chess/zobrist.rs::hash
//@ timeout: 2400
//@ mem_gb: 8
//@ note: the from-scratch key of a game is the XOR, over the 64 squares of the placement, of the component of the piece standing there, XOR the components of the held castling rights, of the en-passant state and (black to move) of the side -- a function of placement, side, rights and ep target ONLY; fully symbolic board with at most 10 men of each (colour, kind) (legal positions have at most 8+2 of any kind; the bound is only the unwinding bound of the twelve loops), every table content (indicator reduction)
//@ assumes: at most 10 pieces per (colour, kind) (implied by 'legal position')
#[kani::proof]
#[kani::unwind(12)]
//@@stubs-indicator
fn vk_c03_hash_additive() {
    indicator::choose();
    unsafe {
        components::SIDE_TO_PLAY = 2; // only read by the debug_assert "tables initialised"
    }
    let mb = sym::any_mailbox();
    let g = symgame::game_with_board(sym::board_of(&mb));
    // unwinding bound of the per-kind loops
    let mut k = 0;
    while k < 6 {
        let kind = PieceKind::ALL[k];
        kani::assume(g.board.pieces_of_kind(kind, Player::White).count() <= 10);
        kani::assume(g.board.pieces_of_kind(kind, Player::Black).count() <= 10);
        k += 1;
    }
    let got = hash(&g).0;
    let r = [[g.castle_rights.white().king_side, g.castle_rights.white().queen_side], [g.castle_rights.black().king_side, g.castle_rights.black().queen_side]];
    let want = c02::spec_key(&mb, r, g.en_passant_target.map(|s| s.idx()), g.player == Player::Black);
    kani::cover!(got & 1 == 1);
    assert!(got == want);
    std::mem::forget(g);
}

//@ obligation: C03.toggles
//@ domain: complete
//@ functions: chess/zobrist.rs::ZobristHash::toggle_piece_on_square, chess/zobrist.rs::ZobristHash::toggle_castle_rights, chess/zobrist.rs::ZobristHash::set_en_passant, chess/zobrist.rs::ZobristHash::toggle_side_to_play, chess/zobrist.rs::piece_on_square, chess/zobrist.rs::castle_rights, chess/zobrist.rs::en_passant, chess/zobrist.rs::side_to_play
//@ timeout: 900
//@ mem_gb: 6
//@ note: with the REAL component tables holding arbitrary words at the cells involved: each toggle XORs exactly the named component into the key (nothing else), the four lookups read exactly the table cell of their arguments (all get_unchecked indices in range)
#[kani::proof]
#[kani::unwind(4)]
fn vk_c03_toggles() {
    let (pl, kind, sq) = (geo::any_player(), PieceKind::ALL[{ let k: usize = kani::any(); kani::assume(k < 6); k }], geo::any_square());
    let side = if kani::any() { CastleRightsSide::Kingside } else { CastleRightsSide::Queenside };
    let (w1, w2, w3, w4, w5): (u64, u64, u64, u64, u64) = (kani::any(), kani::any(), kani::any(), kani::any(), kani::any());
    let sq2 = geo::any_square();
    unsafe {
        components::PIECE_SQUARE[pl.array_idx()][sq.array_idx()][kind.array_idx()] = w1;
        components::CASTLING[pl.array_idx()][side.array_idx()] = w2;
        components::EN_PASSANT_SQUARE[sq2.array_idx()] = w3;
        components::NO_EN_PASSANT_SQUARE = w4;
        components::SIDE_TO_PLAY = w5;
    }
    let z0: u64 = kani::any();
    let mut z = ZobristHash(z0);
    kani::cover!(true);
    z.toggle_piece_on_square(sq, Piece::new(pl, kind));
    assert!(z.0 == z0 ^ w1);
    z.toggle_castle_rights(pl, side);
    assert!(z.0 == z0 ^ w1 ^ w2);
    z.set_en_passant(None, Some(sq2));
    assert!(z.0 == z0 ^ w1 ^ w2 ^ w4 ^ w3);
    z.set_en_passant(Some(sq2), Some(sq2));
    assert!(z.0 == z0 ^ w1 ^ w2 ^ w4 ^ w3);
    z.toggle_side_to_play();
    assert!(z.0 == z0 ^ w1 ^ w2 ^ w4 ^ w3 ^ w5);
}
