//@@ module: engine/eval/mod.rs
//@@ tag: c15
//@@ needs: chess__board@sym.rs
use crate::chess::board::verif_kani_sym as sym;
use crate::verif_support::{geo, indicator};

//@ obligation: C15.base.init_is_sum
//@ domain: complete
//@ functions: engine/eval/mod.rs::IncrementalEvalFields::init, engine/eval/phased_eval.rs::phase_value, engine/eval/piece_square_tables.rs::eval
//@ timeout: 2400
//@ mem_gb: 8
//@ note: recomputation from the board alone: on the fully symbolic board the phase counter is the sum over the 64 squares of the documented piece weights and the piece-square accumulator is the sum of piece_contributions over the occupied squares (indicator reduction: for every table content), i.e. a function of the placement only
//@ assumes: no overflow of the real sums (C16.range)
#[kani::proof]
#[kani::unwind(66)]
//@@stubs-indicator
fn vk_c15_base_init_is_sum() {
    indicator::choose();
    let mb = sym::any_mailbox();
    let b = sym::board_of(&mb);
    let f = IncrementalEvalFields::init(&b);
    // spec: per-square, loop-free in the indicator: the chosen (player, kind, square) contributes 1 iff it is on the board
    let (p, k, s) = unsafe { (indicator::CH_PLAYER, indicator::CH_KIND, indicator::CH_SQ) };
    let chosen = Piece::new(if p == 0 { Player::White } else { Player::Black }, PieceKind::ALL[k as usize]);
    let want_pst: i16 = (mb[s as usize] == Some(chosen)) as i16;
    let mut want_phase = 0i16;
    let mut i = 0;
    while i < 64 {
        if let Some(pc) = mb[i] {
            want_phase += match pc.kind {
                PieceKind::Pawn | PieceKind::King => 0,
                PieceKind::Knight | PieceKind::Bishop => 1,
                PieceKind::Rook => 2,
                PieceKind::Queen => 4,
            };
        }
        i += 1;
    }
    kani::cover!(want_pst == 1 && want_phase > 24);
    assert!(f.phase_value == want_phase);
    assert!(f.piece_square_tables.midgame().0 == want_pst && f.piece_square_tables.endgame().0 == 0);
}
