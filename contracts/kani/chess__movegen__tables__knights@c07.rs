//@@ module: chess/movegen/tables/knights.rs
//@@ tag: c07
//@@ needs: chess__bitboard@iter.rs
use crate::chess::bitboard::verif_kani_iter as iter;
use crate::verif_support::geo;

//@ obligation: C07.tables.knights_init_and_lookup
//@ domain: complete
//@ functions: chess/movegen/tables/knights.rs::init, chess/movegen/tables/knights.rs::knight_attacks
//@ timeout: 900
//@ mem_gb: 6
//@ note: the real init with its loop in one-shot contract form: for the arbitrary square visited, the table cell of that square receives the first-principles attack set (C07.walk.*) and no other cell changes; the lookup reads the cell of its argument (index < 64)
//@ assumes: one-shot iterator contract and independence of loop iterations
#[kani::proof]
#[kani::unwind(10)]
#[kani::stub(<crate::chess::bitboard::SquareIterator as std::iter::Iterator>::next, iter::one_shot_square_next)]
fn vk_c07_knights_init_and_lookup() {
    let j = geo::any_square();
    let before = knight_attacks(j);
    iter::rec_reset();
    init();
    let s = iter::yielded(0);
    kani::cover!(s != j);
    assert!(iter::calls() == 1);
    assert!(knight_attacks(s) == attacks::generate_knight_attacks(s));
    if j != s {
        assert!(knight_attacks(j) == before);
    }
}
