//@@ module: engine/uci/mod.rs
//@@ tag: c13arm
//@@ noglob: Uci / the lock / the tables are ghost recorders
// The WHOLE `setoption` arm of Uci::execute, copied verbatim from /repo on every run, on a ghost `Uci` whose persistent state
// sits behind a ghost lock and records what is done to it.  The option setters themselves (options::*Option::set) are the
// REAL functions (their contract: C13.setters.accept_advertised_range).
// Contract of the lock: try_lock() MAY FAIL at any call (a search thread may hold the lock); lock() WAITS for the search to
// finish -- in this arm that would stall the input thread for as long as the search runs (forever under `go infinite`), so
// a blocking acquisition is reported as a violation of "afterwards the engine still answers isready".
use crate::engine::options::EngineOptions;
use crate::engine::uci::options::{self, UciOption};
use crate::engine::uci::ExecuteResult;

pub static mut TRY_LOCK_BUSY: bool = false;
pub static mut RESIZED_TO: Option<usize> = None;
pub static mut RESIZES: u32 = 0;
pub static mut PATHS_SET: u32 = 0;
pub static mut REPORTS: u32 = 0;

/// the command's two texts (String in the engine; here a borrowed text with the same `as_str()` / deref-to-str surface, so
/// that the harness needs no heap for its symbolic inputs)
pub struct GStr<'a>(pub &'a str);
impl<'a> GStr<'a> {
    pub fn as_str(&self) -> &str {
        self.0
    }
}
impl<'a> std::ops::Deref for GStr<'a> {
    type Target = str;
    fn deref(&self) -> &str {
        self.0
    }
}
impl<'a> std::fmt::Display for GStr<'a> {
    fn fmt(&self, _f: &mut std::fmt::Formatter<'_>) -> std::fmt::Result {
        Ok(())
    }
}
pub struct GhostTT;
impl GhostTT {
    pub fn resize(&mut self, size_mb: usize) {
        unsafe {
            RESIZES += 1;
            RESIZED_TO = Some(size_mb);
        }
    }
}
pub struct GhostTB;
impl GhostTB {
    pub fn set_paths(&mut self, _p: &str) {
        unsafe {
            PATHS_SET += 1;
        }
    }
}
pub struct GhostState {
    pub tt: GhostTT,
    pub tablebase: GhostTB,
}
pub struct GhostGuard<'a>(&'a mut GhostState);
impl<'a> std::ops::Deref for GhostGuard<'a> {
    type Target = GhostState;
    fn deref(&self) -> &GhostState {
        self.0
    }
}
impl<'a> std::ops::DerefMut for GhostGuard<'a> {
    fn deref_mut(&mut self) -> &mut GhostState {
        self.0
    }
}
pub struct GhostLock(std::cell::UnsafeCell<GhostState>);
impl GhostLock {
    pub fn try_lock(&self) -> Result<GhostGuard<'_>, ()> {
        if unsafe { TRY_LOCK_BUSY } {
            Err(())
        } else {
            Ok(GhostGuard(unsafe { &mut *self.0.get() }))
        }
    }
    pub fn lock(&self) -> Result<GhostGuard<'_>, ()> {
        // waiting for a search that has been told to stop ends at its next poll; waiting for one that has not may never end
        assert!(!unsafe { TRY_LOCK_BUSY } || unsafe { STOP_REQUESTED }, "setoption blocks on the persistent-state lock while a search that was not told to stop holds it");
        Ok(GhostGuard(unsafe { &mut *self.0.get() }))
    }
}
pub struct GhostReporter;
impl GhostReporter {
    pub fn generic_report(&self, _s: &str) {
        unsafe {
            REPORTS += 1;
        }
    }
}
/// CONTRACT of the stop latch (util::sync::LockLatch): wait() returns only once SOMEONE sets the latch -- i.e. it is already
/// set, or a search thread is in flight that will set it when it has reported its move; otherwise the input thread is stuck
/// for good and `isready` is never answered again
pub static mut LATCH_SET: bool = false;
pub static mut SEARCH_IN_FLIGHT: bool = false;
pub struct GhostLatch;
impl GhostLatch {
    pub fn wait(&self) {
        assert!(unsafe { LATCH_SET || SEARCH_IN_FLIGHT }, "setoption waits on a stop latch that nobody will set");
        unsafe {
            // the search thread has reported its move and set the latch: it releases the lock right after
            if SEARCH_IN_FLIGHT {
                SEARCH_IN_FLIGHT = false;
                TRY_LOCK_BUSY = false;
                LATCH_SET = true;
            }
        }
    }
    pub fn set(&self) {
        unsafe { LATCH_SET = true; }
    }
    pub fn reset(&self) {
        unsafe { LATCH_SET = false; }
    }
}
/// the stop handle of the most recent `go` (kept after the search has ended by itself)
pub struct GhostControl;
pub static mut STOP_REQUESTED: bool = false;
impl GhostControl {
    pub fn stop(&self) {
        unsafe { STOP_REQUESTED = true; }
    }
}
pub struct Uci {
    pub options: EngineOptions,
    pub persistent_state: GhostLock,
    pub reporter: GhostReporter,
    pub control: Option<GhostControl>,
    pub is_stopped: GhostLatch,
}
impl Uci {
    // helper methods of the real impl other than the command loop (none on the pinned tree): compiled against the ghost fields
    //@@ methods-except: engine/uci/mod.rs :: impl Uci :: execute, run_line, main_loop_stdin, main_loop_args, main_loop
    //@@ closure: engine/uci/mod.rs :: impl Uci / fn execute :: UciCommand::SetOption { name, value } => => pub fn setoption_arm(&mut self, name: &GStr<'_>, value: &GStr<'_>) -> Result<ExecuteResult, String> ;; Ok(ExecuteResult::KeepGoing)
}

fn fmt_stub(_args: std::fmt::Arguments<'_>) -> String {
    String::new()
}
fn spin_range(def: &options::UciOptionType) -> (usize, usize) {
    match def {
        options::UciOptionType::Spin { min, max, .. } => (*min, *max),
        _ => panic!("not a spin option"),
    }
}

fn check_arm(which: u8) {
    let name = GStr(match which {
        0 => options::HashOption::NAME,
        1 => options::ThreadsOption::NAME,
        2 => options::MoveOverheadOption::NAME,
        _ => "Foo",
    });
    // value: 1..=4 decimal digits
    let nd: usize = kani::any();
    kani::assume(1 <= nd && nd <= 4);
    let mut buf = [0u8; 4];
    let mut v = 0usize;
    let mut i = 0;
    while i < 4 {
        if i < nd {
            let d: u8 = kani::any();
            kani::assume(d <= 9);
            buf[i] = b'0' + d;
            v = v * 10 + d as usize;
        }
        i += 1;
    }
    let value = GStr(unsafe { std::str::from_utf8_unchecked(&buf[..nd]) });
    unsafe {
        TRY_LOCK_BUSY = kani::any();
        // any state the protocol can be in: a stop handle may be left over from a search that ended by itself, with the
        // latch re-armed by ucinewgame and no search in flight
        LATCH_SET = kani::any();
        STOP_REQUESTED = false;
        SEARCH_IN_FLIGHT = TRY_LOCK_BUSY;
        RESIZED_TO = None;
        RESIZES = 0;
        REPORTS = 0;
    }
    let mut uci = Uci {
        options: EngineOptions { hash_size: 16, threads: 1, move_overhead: 0, syzygy_path: None },
        persistent_state: GhostLock(std::cell::UnsafeCell::new(GhostState { tt: GhostTT, tablebase: GhostTB })),
        reporter: GhostReporter,
        control: if kani::any() { Some(GhostControl) } else { None },
        is_stopped: GhostLatch,
    };
    let r = uci.setoption_arm(&name, &value);
    let busy = unsafe { TRY_LOCK_BUSY };
    kani::cover!(busy && v == 1000);
    kani::cover!(!busy && v == 0);
    if which == 0 {
        let (lo, hi) = spin_range(&options::HashOption::DEF);
        if lo <= v && v <= hi {
            assert!(r.is_ok(), "an advertised Hash value was rejected");
            assert!(uci.options.hash_size == v);
            if busy {
                // a search is running: the property speaks of values set "before or between searches" -- nothing is demanded
                // here beyond what every path must satisfy (no panic, no blocking: asserted inside the ghost lock / latch)
            } else {
                assert!(unsafe { RESIZES } == 1 && unsafe { RESIZED_TO } == Some(v), "the table is not resized to the value set");
            }
        }
    } else if which == 1 {
        let (lo, hi) = spin_range(&options::ThreadsOption::DEF);
        if lo <= v && v <= hi {
            assert!(r.is_ok() && uci.options.threads == v);
        }
        assert!(unsafe { RESIZES } == 0);
    } else if which == 2 {
        let (lo, hi) = spin_range(&options::MoveOverheadOption::DEF);
        if lo <= v && v <= hi {
            assert!(r.is_ok() && uci.options.move_overhead == v);
        }
        assert!(unsafe { RESIZES } == 0);
    } else {
        assert!(r.is_err(), "an unknown option name must be reported");
    }
    std::mem::forget(uci);
    std::mem::forget(r);
}


//@ obligation: C13.setoption.arm.hash
//@ property: C13
//@ domain: bounded(option values: decimal strings of 1..=4 digits -- covers every advertised value 0..=1024 and 0..=1000)
//@ functions: engine/uci/mod.rs::Uci::execute
//@ timeout: 1800
//@ mem_gb: 8
//@ note: the whole setoption arm for `Hash`, whether or not a search holds the persistent-state lock: every value inside the ADVERTISED range is accepted (Ok) and stored in the engine options; for Hash the table is resized to exactly that value when the lock is free (while a search holds it nothing is demanded except that the arm returns) -- the arm never blocks on the lock or on a stop latch nobody will set; an unknown option name is an error; the arm never panics
//@ assumes: options::*Option::set are the real functions; std::fmt::format stubbed (message texts not examined); what resize() does is C19.tt.resize_wf
#[kani::proof]
#[kani::unwind(16)]
#[kani::stub(std::fmt::format, fmt_stub)]
fn vk_c13_setoption_arm_hash() {
    check_arm(0);
}

//@ obligation: C13.setoption.arm.threads
//@ property: C13
//@ domain: bounded(option values: decimal strings of 1..=4 digits -- covers every advertised value 0..=1024 and 0..=1000)
//@ functions: engine/uci/mod.rs::Uci::execute
//@ timeout: 1800
//@ mem_gb: 8
//@ note: the whole setoption arm for `Threads`, whether or not a search holds the persistent-state lock: every value inside the ADVERTISED range is accepted (Ok) and stored in the engine options; for Hash the table is resized to exactly that value when the lock is free (while a search holds it nothing is demanded except that the arm returns) -- the arm never blocks on the lock or on a stop latch nobody will set; an unknown option name is an error; the arm never panics
//@ assumes: options::*Option::set are the real functions; std::fmt::format stubbed (message texts not examined); what resize() does is C19.tt.resize_wf
#[kani::proof]
#[kani::unwind(16)]
#[kani::stub(std::fmt::format, fmt_stub)]
fn vk_c13_setoption_arm_threads() {
    check_arm(1);
}

//@ obligation: C13.setoption.arm.move_overhead
//@ property: C13
//@ domain: bounded(option values: decimal strings of 1..=4 digits -- covers every advertised value 0..=1024 and 0..=1000)
//@ functions: engine/uci/mod.rs::Uci::execute
//@ timeout: 1800
//@ mem_gb: 8
//@ note: the whole setoption arm for `Move Overhead`, whether or not a search holds the persistent-state lock: every value inside the ADVERTISED range is accepted (Ok) and stored in the engine options; for Hash the table is resized to exactly that value when the lock is free (while a search holds it nothing is demanded except that the arm returns) -- the arm never blocks on the lock or on a stop latch nobody will set; an unknown option name is an error; the arm never panics
//@ assumes: options::*Option::set are the real functions; std::fmt::format stubbed (message texts not examined); what resize() does is C19.tt.resize_wf
#[kani::proof]
#[kani::unwind(16)]
#[kani::stub(std::fmt::format, fmt_stub)]
fn vk_c13_setoption_arm_move_overhead() {
    check_arm(2);
}

//@ obligation: C13.setoption.arm.unknown
//@ property: C13
//@ domain: bounded(option values: decimal strings of 1..=4 digits -- covers every advertised value 0..=1024 and 0..=1000)
//@ functions: engine/uci/mod.rs::Uci::execute
//@ timeout: 1800
//@ mem_gb: 8
//@ note: the whole setoption arm for an unknown option name, whether or not a search holds the persistent-state lock: every value inside the ADVERTISED range is accepted (Ok) and stored in the engine options; for Hash the table is resized to exactly that value when the lock is free (while a search holds it nothing is demanded except that the arm returns) -- the arm never blocks on the lock or on a stop latch nobody will set; an unknown option name is an error; the arm never panics
//@ assumes: options::*Option::set are the real functions; std::fmt::format stubbed (message texts not examined); what resize() does is C19.tt.resize_wf
#[kani::proof]
#[kani::unwind(16)]
#[kani::stub(std::fmt::format, fmt_stub)]
fn vk_c13_setoption_arm_unknown() {
    check_arm(3);
}

//@ obligation: C13.canary.setoption_arm
//@ property: C13
//@ canary: true
//@ timeout: 1800
//@ mem_gb: 8
#[kani::proof]
#[kani::unwind(16)]
#[kani::stub(std::fmt::format, fmt_stub)]
fn vk_c13_canary_setoption_arm() {
    let name = GStr(options::HashOption::NAME);
    let value = GStr("64");
    unsafe {
        TRY_LOCK_BUSY = false;
        RESIZES = 0;
    }
    let mut uci = Uci {
        options: EngineOptions { hash_size: 16, threads: 1, move_overhead: 0, syzygy_path: None },
        persistent_state: GhostLock(std::cell::UnsafeCell::new(GhostState { tt: GhostTT, tablebase: GhostTB })),
        reporter: GhostReporter,
        control: if kani::any() { Some(GhostControl) } else { None },
        is_stopped: GhostLatch,
    };
    let r = uci.setoption_arm(&name, &value);
    assert!(unsafe { RESIZES } == 0); // must FAIL
    std::mem::forget(uci);
    std::mem::forget(r);
}
