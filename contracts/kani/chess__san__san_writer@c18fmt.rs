//@@ module: chess/san/san_writer.rs
//@@ tag: c18fmt
//@@ needs: chess__board@sym.rs chess__game@sym.rs chess__game@c02.rs
// Body of `format_move` (verbatim from /repo on every run) against the contracts of its callees, callees rebound by scope:
//   * `Game` is a ghost that carries the REAL Board of a fully symbolic position and the side to move; `clone()` is the
//     derived field-wise copy; `make_move(mv)` has the C02 contract (the board becomes the one the rules prescribe for
//     this move, the side to move flips -- and it must be called on the clone with exactly this move);
//     `is_king_in_check()` is the real Board::king_in_check of the side to move (its meaning: C01.in_check.exact);
//   * `required_ambiguity_resolution` returns an ARBITRARY answer (None for pawns and kings: C18.disambiguation.minimal)
//     and checks it is asked about the caller's position and this move.
// The String machinery (format!, to_string, Square::notation) is the real library code, executed symbolically.
// MEASURED: does not fit CBMC (12 GB exceeded after 25 min of symbolic execution, all four classes) => experimental;
// the protocol half is C18.suffix.decided_for_every_move (c18txt).
use crate::chess::board::verif_kani_sym as sym;
use crate::chess::board::Board;
use crate::chess::game::verif_kani_c02 as c02;
use crate::chess::piece::Piece;
use crate::chess::player::Player;
use crate::verif_support::{geo, rules};

pub static mut EXPECT_MV: Option<Move> = None;
pub static mut MADE: u8 = 0;
pub static mut AMB_CALLS: u8 = 0;
pub static mut AMB_ANSWER: u8 = 0;

#[derive(Clone)]
pub struct Game {
    pub board: Board,
    pub player: Player,
    /// ghost: the board the rules prescribe after EXPECT_MV
    pub after: Board,
    /// ghost: false for the caller's position, true for copies made by clone() ... set by the harness via `is_copy_of`
    pub moved: bool,
}
impl Game {
    /// CONTRACT of Game::make_move (C02.make_undo.*): placement becomes the rules' placement, side to move flips
    pub fn make_move(&mut self, mv: Move) {
        unsafe {
            assert!(EXPECT_MV == Some(mv), "the move played on the scratch game is the move being written");
            MADE += 1;
        }
        assert!(!self.moved);
        self.board = self.after.clone();
        self.player = self.player.other();
        self.moved = true;
    }
    pub fn is_king_in_check(&self) -> bool {
        self.board.king_in_check(self.player)
    }
}

/// CONTRACT of required_ambiguity_resolution (C18.disambiguation.minimal): some answer; None for pawns and kings
fn required_ambiguity_resolution(game: &Game, mv: Move) -> AmbiguityResolution {
    unsafe {
        assert!(EXPECT_MV == Some(mv));
        AMB_CALLS += 1;
    }
    assert!(!game.moved, "disambiguation is computed in the position BEFORE the move");
    let kind = game.board.piece_at(mv.src()).unwrap().kind;
    let a: u8 = kani::any();
    kani::assume(a < 4);
    let a = if kind == PieceKind::Pawn || kind == PieceKind::King { 0 } else { a };
    unsafe {
        AMB_ANSWER = a;
    }
    match a {
        0 => AmbiguityResolution::None,
        1 => AmbiguityResolution::File,
        2 => AmbiguityResolution::Rank,
        _ => AmbiguityResolution::Exact,
    }
}

//@@ body: chess/san/san_writer.rs :: fn format_move => format_move__body

fn file_ch(s: u8) -> u8 {
    b'a' + (s % 8)
}
fn rank_ch(s: u8) -> u8 {
    b'1' + (s / 8)
}

/// the conventional SAN text of the move, written independently of the engine's formatting code
fn spec_text(kind: PieceKind, mv: Move, class: u8, amb: u8, gives_check: bool) -> ([u8; 10], usize) {
    let mut t = [0u8; 10];
    let mut n = 0;
    let (from, to) = (mv.src().idx(), mv.dst().idx());
    if class == c02::CASTLE_K || class == c02::CASTLE_Q {
        t[0] = b'O';
        t[1] = b'-';
        t[2] = b'O';
        n = 3;
        if class == c02::CASTLE_Q {
            t[3] = b'-';
            t[4] = b'O';
            n = 5;
        }
    } else {
        let is_capture = class == c02::CAPTURE || class == c02::EN_PASSANT || class == c02::CAP_PROMO;
        match kind {
            PieceKind::Pawn => {
                if is_capture {
                    t[n] = file_ch(from);
                    n += 1;
                }
            }
            PieceKind::Knight => { t[n] = b'N'; n += 1; }
            PieceKind::Bishop => { t[n] = b'B'; n += 1; }
            PieceKind::Rook => { t[n] = b'R'; n += 1; }
            PieceKind::Queen => { t[n] = b'Q'; n += 1; }
            PieceKind::King => { t[n] = b'K'; n += 1; }
        }
        if amb == 1 || amb == 3 {
            t[n] = file_ch(from);
            n += 1;
        }
        if amb == 2 || amb == 3 {
            t[n] = rank_ch(from);
            n += 1;
        }
        if is_capture {
            t[n] = b'x';
            n += 1;
        }
        t[n] = file_ch(to);
        t[n + 1] = rank_ch(to);
        n += 2;
        if let Some(p) = mv.promotion() {
            t[n] = b'=';
            t[n + 1] = match p {
                PromotionPieceKind::Knight => b'N',
                PromotionPieceKind::Bishop => b'B',
                PromotionPieceKind::Rook => b'R',
                PromotionPieceKind::Queen => b'Q',
            };
            n += 2;
        }
    }
    if gives_check {
        t[n] = b'+';
        n += 1;
    }
    (t, n)
}

fn check_format(class: u8) {
    let c = c02::any_case(class);
    let player = c.game.player;
    let them = player.other();
    // legal position: the opponent has exactly one king (needed by king_in_check)
    kani::assume(rules::count_piece(&c.mb_after, Piece::new(them, PieceKind::King)) == 1);
    let game = Game { board: c.game.board.clone(), player, after: sym::board_of(&c.mb_after), moved: false };
    unsafe {
        EXPECT_MV = Some(c.mv);
        MADE = 0;
        AMB_CALLS = 0;
    }
    let got = format_move__body(&game, c.mv);
    let gives_check = rules::attacked_by(&c.mb_after, rules::king_square(&c.mb_after, them), player);
    let castle = class == c02::CASTLE_K || class == c02::CASTLE_Q;
    let amb = if castle { 0 } else { unsafe { AMB_ANSWER } };
    let (t, n) = spec_text(c.moved.kind, c.mv, class, amb, gives_check);
    kani::cover!(gives_check);
    kani::cover!(!gives_check);
    unsafe {
        assert!(MADE == 1, "the check suffix comes from playing the move once on a scratch copy");
        assert!(castle || AMB_CALLS == 1);
    }
    let b = got.as_bytes();
    assert!(b.len() == n, "SAN text has the conventional length (suffix exactly when the move gives check)");
    let mut i = 0;
    while i < 10 {
        if i < n {
            assert!(b[i] == t[i], "SAN text equals the conventional text");
        }
        i += 1;
    }
}

//@ obligation: C18.format.quiet_and_capture
//@ status: experimental
//@ domain: complete
//@ functions: chess/san/san_writer.rs::format_move
//@ timeout: 3000
//@ mem_gb: 12
//@ note: body of format_move on a fully symbolic position for every shape-valid quiet move and capture of every piece kind and every disambiguation answer: the text is exactly [piece letter | capturing pawn's file][file][rank]['x']<destination>['+'], with '+' exactly when the rules say the opponent's king is attacked in the position after the move; the move is played exactly once, on a scratch copy
//@ assumes: callee contracts (C02.make_undo.*: make_move produces the rules' placement; C18.disambiguation.minimal; C01.in_check.exact via table lookups == geometry, C07); real String/format! machinery as compiled by Kani
#[kani::proof]
#[kani::unwind(12)]
//@@stubs-tables
fn vk_c18_format_quiet_and_capture() {
    let class = if kani::any() { c02::QUIET } else { c02::CAPTURE };
    check_format(class);
}

//@ obligation: C18.format.en_passant
//@ status: experimental
//@ domain: complete
//@ functions: chess/san/san_writer.rs::format_move
//@ timeout: 3000
//@ mem_gb: 12
//@ note: as C18.format.quiet_and_capture for en-passant captures: <file>x<destination>['+'], the check judged on the placement with the CAPTURED pawn removed (discovered checks through its square included)
//@ assumes: as C18.format.quiet_and_capture
#[kani::proof]
#[kani::unwind(12)]
//@@stubs-tables
fn vk_c18_format_en_passant() {
    check_format(c02::EN_PASSANT);
}

//@ obligation: C18.format.promotions
//@ status: experimental
//@ domain: complete
//@ functions: chess/san/san_writer.rs::format_move
//@ timeout: 3000
//@ mem_gb: 12
//@ note: as C18.format.quiet_and_capture for promotions and capturing promotions: [<file>x]<destination>=<N|B|R|Q>['+'], the check judged with the PROMOTED piece on the board
//@ assumes: as C18.format.quiet_and_capture
#[kani::proof]
#[kani::unwind(12)]
//@@stubs-tables
fn vk_c18_format_promotions() {
    let class = if kani::any() { c02::PROMO } else { c02::CAP_PROMO };
    check_format(class);
}

//@ obligation: C18.format.castling
//@ status: experimental
//@ domain: complete
//@ functions: chess/san/san_writer.rs::format_move
//@ timeout: 3000
//@ mem_gb: 12
//@ note: castling is written O-O / O-O-O and -- 'castling included' in the property -- carries '+' exactly when the rook or king gives check from its new square
//@ assumes: as C18.format.quiet_and_capture
#[kani::proof]
#[kani::unwind(12)]
//@@stubs-tables
fn vk_c18_format_castling() {
    let class = if kani::any() { c02::CASTLE_K } else { c02::CASTLE_Q };
    check_format(class);
}

//@ obligation: C18.canary.format
//@ status: experimental
//@ canary: true
//@ timeout: 3000
//@ mem_gb: 12
#[kani::proof]
#[kani::unwind(12)]
//@@stubs-tables
fn vk_c18_canary_format() {
    let c = c02::any_case(c02::EN_PASSANT);
    let player = c.game.player;
    kani::assume(rules::count_piece(&c.mb_after, Piece::new(player.other(), PieceKind::King)) == 1);
    let game = Game { board: c.game.board.clone(), player, after: sym::board_of(&c.mb_after), moved: false };
    unsafe {
        EXPECT_MV = Some(c.mv);
    }
    let got = format_move__body(&game, c.mv);
    assert!(got.as_bytes().len() == 4); // must FAIL: en passant can give check ("exd6+")
}
