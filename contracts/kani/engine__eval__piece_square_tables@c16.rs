//@@ module: engine/eval/piece_square_tables.rs
//@@ tag: c16
use crate::verif_support::geo;

//@ obligation: C16.pst_tables.mirror
//@ domain: complete
//@ functions: engine/eval/piece_square_tables.rs::init, engine/eval/piece_square_tables.rs::piece_contributions, engine/eval/piece_square_tables.rs::flip, engine/eval/piece_square_tables.rs::flatten, engine/eval/piece_square_tables.rs::negate, engine/eval/piece_square_tables.rs::add_material
//@ timeout: 1500
//@ mem_gb: 6
//@ note: after the REAL init (executed on the engine's concrete parameter tables): for every piece kind and square, a black piece on the vertically flipped square contributes exactly the negation (both packed halves) of what a white piece contributes -- material + piece-square terms are colour-symmetric
#[kani::proof]
#[kani::unwind(66)]
fn vk_c16_pst_tables_mirror() {
    init();
    let s = geo::any_square();
    let k: usize = kani::any();
    kani::assume(k < 6);
    let kind = PieceKind::ALL[k];
    let w = piece_contributions(s, Piece::new(Player::White, kind));
    let b = piece_contributions(Square::from_index(s.idx() ^ 56), Piece::new(Player::Black, kind));
    kani::cover!(kind == PieceKind::Queen);
    assert!(b == -w);
    assert!(b.midgame().0 == -w.midgame().0 && b.endgame().0 == -w.endgame().0);
}
