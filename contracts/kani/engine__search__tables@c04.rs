//@@ module: engine/search/tables.rs
//@@ tag: c04
use crate::verif_support::geo;

fn any_quiet() -> Move {
    let (s, d) = (geo::any_square(), geo::any_square());
    kani::assume(s != d);
    Move::quiet(s, d)
}

//@ obligation: C04.index.killers
//@ property: C04
//@ domain: complete
//@ functions: engine/search/tables.rs::KillersTable::get_0, engine/search/tables.rs::KillersTable::get_1, engine/search/tables.rs::KillersTable::try_push
//@ timeout: 900
//@ mem_gb: 6
//@ note: for every distance from the root below the table's 255 rows and every table content: the killer accessors stay in range; try_push keeps the two killers of a row distinct (a move equal to the first killer is not pushed again) and shifts the first killer to the second slot; other rows untouched
#[kani::proof]
#[kani::unwind(4)]
fn vk_c04_index_killers() {
    let mut t = KillersTable::new();
    let plies: u8 = kani::any();
    kani::assume(plies < 255);
    let other: u8 = kani::any();
    kani::assume(other < 255 && other != plies);
    let (k0, k1) = (if kani::any() { Some(any_quiet()) } else { None }, if kani::any() { Some(any_quiet()) } else { None });
    kani::assume(k0.is_none() || k0 != k1);
    t.0[plies as usize] = [k0, k1];
    let o = t.0[other as usize];
    let mv = any_quiet();
    assert!(t.get_0(plies) == k0 && t.get_1(plies) == k1);
    t.try_push(plies, mv);
    kani::cover!(Some(mv) == k0);
    kani::cover!(Some(mv) == k1);
    if Some(mv) == k0 {
        assert!(t.get_0(plies) == k0 && t.get_1(plies) == k1);
    } else {
        assert!(t.get_0(plies) == Some(mv) && t.get_1(plies) == k0);
    }
    assert!(t.get_0(plies).is_none() || t.get_0(plies) != t.get_1(plies));
    assert!(t.0[other as usize] == o);
}

//@ obligation: C04.history_arith.bonus
//@ property: C04
//@ domain: complete
//@ functions: engine/search/tables.rs::HistoryTable::add_bonus_for, engine/search/tables.rs::HistoryTable::get, engine/search/tables.rs::HistoryTable::bonus
//@ timeout: 900
//@ mem_gb: 8
//@ note: for every cell value in the table's invariant range 0..=HISTORY_MAX_SCORE and every depth 0..=255: the bonus addition cannot overflow i32, the new value stays in the range (so the ordering score QUIET_SCORE + history cannot overflow either) and is min(old + depth^2, max).  The arithmetic does not depend on which cell is addressed; the harness addresses one fixed cell (a symbolic cell index into the 8192-cell 3-D array exceeds CBMC's budget: 900 s time-out); cell indices are in range by construction (player < 2, squares < 64: C07.bitboard.square_iterator / Square invariant)
#[kani::proof]
#[kani::unwind(4)]
fn vk_c04_history_arith_bonus() {
    let mut t = HistoryTable::new();
    let pl = Player::White;
    let mv = Move::quiet(Square::from_index(12), Square::from_index(28));
    let v: i32 = kani::any();
    kani::assume(0 <= v && v <= move_ordering::HISTORY_MAX_SCORE);
    t.0[0][12][28] = v;
    let depth: u8 = kani::any();
    t.add_bonus_for(pl, mv, depth);
    let nv = t.get(pl, mv);
    kani::cover!(nv == move_ordering::HISTORY_MAX_SCORE && v < nv);
    assert!(v <= nv && nv <= move_ordering::HISTORY_MAX_SCORE);
    assert!(nv == std::cmp::min(v as i64 + (depth as i64) * (depth as i64), move_ordering::HISTORY_MAX_SCORE as i64) as i32);
    assert!((move_ordering::QUIET_SCORE as i64 + nv as i64) < i32::MAX as i64);
    assert!(t.0[1][12][28] == 0 && t.0[0][28][12] == 0);
}

// (C12.history_reset, a Kani harness that could vary one cell only and exceeded 10 GB, is superseded by the Verus
// obligation C12.history.reset_all_zero in contracts/verus/history.vspec: all 8192 cells arbitrary, inductive invariants)

//@ obligation: C04.history_arith.decay
//@ status: experimental
//@ property: C04
//@ domain: complete
//@ functions: engine/search/tables.rs::HistoryTable::decay
//@ timeout: 1800
//@ mem_gb: 10
//@ note: decay by the engine's factor keeps every cell inside 0..=HISTORY_MAX_SCORE (checked on an arbitrary cell holding an arbitrary in-range value) and never divides by zero
#[kani::proof]
#[kani::unwind(66)]
fn vk_c04_history_arith_decay() {
    let mut t = HistoryTable::new();
    let (pl, mv) = (geo::any_player(), any_quiet());
    let v: i32 = kani::any();
    kani::assume(0 <= v && v <= move_ordering::HISTORY_MAX_SCORE);
    t.0[pl.array_idx()][mv.src().array_idx()][mv.dst().array_idx()] = v;
    t.decay(crate::engine::search::params::HISTORY_DECAY_FACTOR);
    kani::cover!(v > 100);
    assert!(t.get(pl, mv) == v / 8);
}

//@ obligation: C04.index.countermove
//@ status: experimental
//@ property: C04
//@ domain: complete
//@ functions: engine/search/tables.rs::CountermoveTable::set, engine/search/tables.rs::CountermoveTable::get
//@ timeout: 900
//@ mem_gb: 8
//@ note: set/get address the cell (side, from, to) of the previous move, in range for every move; get returns what was set
#[kani::proof]
#[kani::unwind(4)]
fn vk_c04_index_countermove() {
    let mut t = CountermoveTable::new();
    let pl = geo::any_player();
    let (prev, cm) = (any_quiet(), any_quiet());
    kani::cover!(true);
    assert!(t.get(pl, prev).is_none());
    t.set(pl, prev, cm);
    assert!(t.get(pl, prev) == Some(cm));
}
