//@@ module: engine/uci/move.rs
//@@ tag: c17
use crate::verif_support::geo;

//@ obligation: C17.uci_move.fields
//@ domain: complete
//@ functions: engine/uci/move.rs::impl From<Move> for UciMove / fn from
//@ timeout: 300
//@ note: the long-algebraic form of every move carries exactly its from-square, to-square and promotion piece; castling is therefore printed as the king's two-square move (the squares the generator put into the move, C01.gen.castles: e1g1/e1c1/e8g8/e8c8)
#[kani::proof]
fn vk_c17_uci_move_fields() {
    let (s, d) = (geo::any_square(), geo::any_square());
    kani::assume(s != d);
    let p = match kani::any::<u8>() % 4 {
        0 => PromotionPieceKind::Knight,
        1 => PromotionPieceKind::Bishop,
        2 => PromotionPieceKind::Rook,
        _ => PromotionPieceKind::Queen,
    };
    let c: u8 = kani::any();
    kani::assume(c < 6);
    let m = match c {
        0 => Move::quiet(s, d),
        1 => Move::capture(s, d),
        2 => Move::castles(s, d),
        3 => Move::en_passant(s, d),
        4 => Move::quiet_promotion(s, d, p),
        _ => Move::capture_promotion(s, d, p),
    };
    let u = UciMove::from(m);
    kani::cover!(c == 5);
    assert!(u.src == s && u.dst == d && u.promotion == if c >= 4 { Some(p) } else { None });
}
