//@@ module: engine/eval/phased_eval.rs
//@@ tag: c16

//@ obligation: C16.blend.proper
//@ domain: complete
//@ functions: engine/eval/phased_eval.rs::PhasedEval::for_phase, engine/eval/phased_eval.rs::PhasedEval::new, engine/eval/phased_eval.rs::PhasedEval::midgame, engine/eval/phased_eval.rs::PhasedEval::endgame
//@ timeout: 600
//@ note: for ALL (midgame, endgame) pairs in the symmetric i16 range -32767..=32767 and ALL phase values >= 0 (game phase above its nominal maximum of 24 included: up to nine queens a side): the blend lies between the two assessments (weights never negative), the i16 conversion cannot fail, no overflow
#[kani::proof]
fn vk_c16_blend_proper() {
    let mg: i16 = kani::any();
    let eg: i16 = kani::any();
    let phase: i16 = kani::any();
    kani::assume(phase >= 0);
    // domain of the packed representation: both halves in the symmetric range (i16::MIN itself is not representable
    // together with a negative other half; evaluation terms are far inside, see C16.range)
    kani::assume(mg > i16::MIN && eg > i16::MIN);
    let pe = PhasedEval::new(mg, eg);
    kani::cover!(phase > 24 && mg != eg);
    kani::cover!(phase < 24 && mg < 0 && eg > 0);
    assert!(pe.midgame().0 == mg && pe.endgame().0 == eg);
    let r = pe.for_phase(phase).0;
    let (lo, hi) = if mg < eg { (mg, eg) } else { (eg, mg) };
    assert!(lo <= r && r <= hi);
}

//@ obligation: C16.blend.endpoints
//@ domain: complete
//@ functions: engine/eval/phased_eval.rs::PhasedEval::for_phase
//@ timeout: 600
//@ note: phase 0 gives the pure endgame value, phase >= 24 the pure middlegame value
#[kani::proof]
fn vk_c16_blend_endpoints() {
    let mg: i16 = kani::any();
    let eg: i16 = kani::any();
    let phase: i16 = kani::any();
    kani::assume(phase >= 24);
    kani::assume(mg > i16::MIN && eg > i16::MIN);
    let pe = PhasedEval::new(mg, eg);
    kani::cover!(phase > 30);
    assert!(pe.for_phase(0).0 == eg);
    assert!(pe.for_phase(phase).0 == mg);
}

//@ obligation: C15.packed.halves
//@ property: C15 C16
//@ domain: complete
//@ functions: engine/eval/phased_eval.rs::PhasedEval::new, engine/eval/phased_eval.rs::PhasedEval::midgame, engine/eval/phased_eval.rs::PhasedEval::endgame, engine/eval/phased_eval.rs::impl std::ops::Add for PhasedEval / fn add, engine/eval/phased_eval.rs::impl std::ops::Sub for PhasedEval / fn sub, engine/eval/phased_eval.rs::impl std::ops::Neg for PhasedEval / fn neg, engine/eval/phased_eval.rs::impl std::ops::AddAssign for PhasedEval / fn add_assign, engine/eval/phased_eval.rs::impl std::ops::SubAssign for PhasedEval / fn sub_assign
//@ timeout: 600
//@ note: the two 16-bit halves of the packed i32 behave as independent signed sums: for all quadruples in the symmetric i16 range (-32767..=32767) whose true component sums/differences stay inside that range, + - neg += -= act component-wise, without i32 overflow
#[kani::proof]
fn vk_c15_packed_halves() {
    let (a, b, c, d): (i16, i16, i16, i16) = (kani::any(), kani::any(), kani::any(), kani::any());
    kani::assume(a > i16::MIN && b > i16::MIN && c > i16::MIN && d > i16::MIN);
    let x = PhasedEval::new(a, b);
    let y = PhasedEval::new(c, d);
    let fits = |v: i32| v > i16::MIN as i32 && v <= i16::MAX as i32;
    kani::cover!(a < 0 && b > 0 && c < 0 && d < 0);
    if fits(a as i32 + c as i32) && fits(b as i32 + d as i32) {
        let z = x + y;
        assert!(z.midgame().0 == a + c && z.endgame().0 == b + d);
        let mut w = x;
        w += y;
        assert!(w == z);
    }
    if fits(a as i32 - c as i32) && fits(b as i32 - d as i32) {
        let z = x - y;
        assert!(z.midgame().0 == a - c && z.endgame().0 == b - d);
        let mut w = x;
        w -= y;
        assert!(w == z);
    }
    {
        let z = -x;
        assert!(z.midgame().0 == -a && z.endgame().0 == -b);
    }
}

//@ obligation: C15.phase.contribution
//@ property: C15
//@ domain: complete
//@ functions: engine/eval/phased_eval.rs::piece_phase_value_contribution
//@ timeout: 300
//@ note: total on the six piece kinds with the documented weights 0/1/1/2/4/0
#[kani::proof]
fn vk_c15_phase_contribution() {
    let k: usize = kani::any();
    kani::assume(k < 6);
    let kind = PieceKind::ALL[k];
    kani::cover!(kind == PieceKind::Queen);
    let want = [0, 1, 1, 2, 4, 0][k];
    assert!(piece_phase_value_contribution(kind) == want);
}

//@ obligation: C16.canary.blend
//@ canary: true
//@ timeout: 300
#[kani::proof]
fn vk_c16_canary_blend() {
    let mg: i16 = kani::any();
    let eg: i16 = kani::any();
    let r = PhasedEval::new(mg, eg).for_phase(12).0;
    assert!(r == mg); // must FAIL
}
