//@@ module: chess/game.rs
//@@ tag: symgame
//@@ needs: chess__board@sym.rs
// Symbolic `Game` values, built literally (all fields are pub), so no 64-iteration constructor loop is executed.
use crate::chess::board::verif_kani_sym as sym;
use crate::verif_support::geo;
use crate::engine::eval::PhasedEval;

pub fn any_rights() -> ByPlayer<CastleRights> {
    ByPlayer::new(
        CastleRights { king_side: kani::any(), queen_side: kani::any() },
        CastleRights { king_side: kani::any(), queen_side: kani::any() },
    )
}

pub fn any_square_opt() -> Option<Square> {
    if kani::any() {
        Some(geo::any_square())
    } else {
        None
    }
}

/// arbitrary side to move, rights, ep target, clocks (< 2^31), key and accumulators; empty history
pub fn game_with_board(board: Board) -> Game {
    let halfmove_clock: u32 = kani::any();
    let plies: u32 = kani::any();
    kani::assume(halfmove_clock < 0x8000_0000 && plies < 0x8000_0000);
    let (mg, eg): (i16, i16) = (kani::any(), kani::any());
    kani::assume(-20000 < mg && mg < 20000 && -20000 < eg && eg < 20000);
    let phase: i16 = kani::any();
    kani::assume(0 <= phase && phase <= 200);
    Game {
        player: geo::any_player(),
        board,
        castle_rights: any_rights(),
        en_passant_target: any_square_opt(),
        halfmove_clock,
        plies,
        zobrist: ZobristHash(kani::any()),
        incremental_eval: IncrementalEvalFields { phase_value: phase, piece_square_tables: PhasedEval::new(mg, eg) },
        history: Vec::new(),
    }
}
