//@@ module: engine/eval/pawn_structure.rs
//@@ tag: c16
//@@ needs: chess__board@sym.rs
use crate::verif_support::geo;

fn flip_sq(s: Square) -> Square {
    Square::from_index(s.idx() ^ 56)
}

//@ obligation: C16.passed_mask.geometry
//@ domain: complete
//@ functions: engine/eval/pawn_structure.rs::generate_passed_pawn_mask
//@ timeout: 600
//@ note: for both colours and all 64 squares: the mask of enemy pawns that stop a pawn from being passed is exactly the squares on the pawn's file and the two adjacent files that lie STRICTLY AHEAD of it (seen from its owner), and is empty for the two ranks on which it cannot matter (own back rank, last-but-one rank)
#[kani::proof]
#[kani::unwind(10)]
fn vk_c16_passed_mask_geometry() {
    let s = geo::any_square();
    let player = geo::any_player();
    let got = generate_passed_pawn_mask(player, s).as_u64();
    let (f, r) = (geo::file(s.idx()), geo::rank(s.idx()));
    let rel = if player == Player::White { r } else { 7 - r };
    let mut want = 0u64;
    if rel != 0 && rel != 6 {
        let mut rr: i8 = 0;
        while rr < 8 {
            let ahead = if player == Player::White { rr > r } else { rr < r };
            if ahead {
                want |= geo::bit(f - 1, rr) | geo::bit(f, rr) | geo::bit(f + 1, rr);
            }
            rr += 1;
        }
    }
    kani::cover!(want.count_ones() > 10 && player == Player::Black);
    assert!(got == want);
}

//@ obligation: C16.passed_mask.mirror
//@ domain: complete
//@ functions: engine/eval/pawn_structure.rs::generate_passed_pawn_mask
//@ timeout: 600
//@ note: colour symmetry of the passed-pawn test: the black mask for the vertically flipped square is the vertical flip of the white mask, for all 64 squares
#[kani::proof]
#[kani::unwind(10)]
fn vk_c16_passed_mask_mirror() {
    let s = geo::any_square();
    let w = generate_passed_pawn_mask(Player::White, s);
    let b = generate_passed_pawn_mask(Player::Black, flip_sq(s));
    kani::cover!(w.any());
    assert!(b == w.flip_vertically());
}

//@ obligation: C16.passed_tables.mirror
//@ domain: complete
//@ functions: engine/eval/pawn_structure.rs::init, engine/eval/pawn_structure.rs::enemy_passed_pawn_mask, engine/eval/pawn_structure.rs::pst_value, engine/eval/pawn_structure.rs::white_pst, engine/eval/pawn_structure.rs::black_pst
//@ timeout: 1500
//@ mem_gb: 6
//@ note: after the REAL init (executed on the engine's concrete parameter tables): for every square, black's passed-pawn mask and bonus at the flipped square are the flip / the negation of white's
#[kani::proof]
#[kani::unwind(66)]
fn vk_c16_passed_tables_mirror() {
    init();
    let s = geo::any_square();
    kani::cover!(true);
    assert!(enemy_passed_pawn_mask(Player::Black, flip_sq(s)) == enemy_passed_pawn_mask(Player::White, s).flip_vertically());
    assert!(pst_value(Player::Black, flip_sq(s)) == -pst_value(Player::White, s));
}

// ---------------------------------------------------------------------------------------------------------------
// The passed-pawn bonus as a function against a spec, piecewise: one iteration of its only loop (block verbatim).
//   bonus(player) = sum over the player's pawns p with (enemy_mask(player, p) & their pawns) == 0 of PST(player, p)
// ---------------------------------------------------------------------------------------------------------------
use crate::chess::board::verif_kani_sym as sym;

//@@ loopstep: engine/eval/pawn_structure.rs :: fn calculate_passed_pawn_bonus :: for pawn in our_pawns => #[allow(unused_mut, unused_variables)] fn passed_step<const TRACE: bool>(board: &Board, player: Player, trace: &mut Trace, st: (PhasedEval, Bitboard, Bitboard)) -> PhasedEval ;; let (mut bonus, our_pawns, their_pawns) = st; let mut verif_iter = 0u8; ;; if verif_iter == 1 { return bonus; } verif_iter += 1; ;; bonus

//@@ prefix: engine/eval/pawn_structure.rs :: fn calculate_passed_pawn_bonus :: for pawn in our_pawns => #[allow(unused_mut, unused_variables)] fn passed_init<const TRACE: bool>(board: &Board, player: Player, trace: &mut Trace) -> (PhasedEval, Bitboard, Bitboard) ;; (bonus, our_pawns, their_pawns)

//@ obligation: C16.passed.bonus_step
//@ property: C16
//@ domain: complete
//@ functions: engine/eval/pawn_structure.rs::calculate_passed_pawn_bonus
//@ timeout: 900
//@ mem_gb: 6
//@ note: the passed-pawn bonus piecewise: the text before the loop takes exactly the player's pawns and the enemy's pawns from the board and starts at zero; one iteration of the loop (block verbatim) from ANY running bonus and ANY two pawn sets adds PST(player, p) for the member p it runs for exactly when no enemy pawn lies in the mask of p (C16.passed_mask.geometry: the squares strictly ahead on the three files), and nothing otherwise; arbitrary table contents
//@ assumes: loop iterations depend on each other only through the accumulator; table contents are C16.passed_mask.* / C16.passed_tables.*
#[kani::proof]
#[kani::unwind(10)]
fn vk_c16_passed_bonus_step() {
    let mb = sym::any_mailbox();
    let board = sym::board_of(&mb);
    let player = geo::any_player();
    let mut t = Trace::new();
    // arbitrary table contents for the squares looked up
    let q = geo::any_square();
    unsafe {
        ENEMY_PASSED_PAWN_MASKS[player.array_idx()][q.array_idx()] = Bitboard::new(kani::any());
        let (a, b): (i16, i16) = (kani::any(), kani::any());
        kani::assume(-2000 <= a && a <= 2000 && -2000 <= b && b <= 2000);
        PASSED_PAWN_PST[player.array_idx()][q.array_idx()] = PhasedEval::new(a, b);
    }
    let (b0, ours, theirs) = passed_init::<false>(&board, player, &mut t);
    assert!(b0 == PhasedEval::ZERO && ours == board.pawns(player) && theirs == board.pawns(player.other()));
    let (x, y): (i16, i16) = (kani::any(), kani::any());
    kani::assume(-8000 <= x && x <= 8000 && -8000 <= y && y <= 8000);
    let bonus0 = PhasedEval::new(x, y);
    let ours = Bitboard::new(kani::any());
    let theirs = Bitboard::new(kani::any());
    let got = passed_step::<false>(&board, player, &mut t, (bonus0, ours, theirs));
    if ours.is_empty() {
        assert!(got == bonus0);
    } else {
        let p = ours.lsb().single();
        kani::cover!(p == q);
        let passed = (enemy_passed_pawn_mask(player, p) & theirs).is_empty();
        kani::cover!(passed && p == q);
        assert!(got == if passed { bonus0 + pst_value(player, p) } else { bonus0 });
    }
}
