//@@ module: engine/eval/pawn_structure.rs
//@@ tag: c16
use crate::verif_support::geo;

fn flip_sq(s: Square) -> Square {
    Square::from_index(s.idx() ^ 56)
}

//@ obligation: C16.passed_mask.geometry
//@ domain: complete
//@ functions: engine/eval/pawn_structure.rs::generate_passed_pawn_mask
//@ timeout: 600
//@ note: for both colours and all 64 squares: the mask of enemy pawns that stop a pawn from being passed is exactly the squares on the pawn's file and the two adjacent files that lie STRICTLY AHEAD of it (seen from its owner), and is empty for the two ranks on which it cannot matter (own back rank, last-but-one rank)
#[kani::proof]
#[kani::unwind(10)]
fn vk_c16_passed_mask_geometry() {
    let s = geo::any_square();
    let player = geo::any_player();
    let got = generate_passed_pawn_mask(player, s).as_u64();
    let (f, r) = (geo::file(s.idx()), geo::rank(s.idx()));
    let rel = if player == Player::White { r } else { 7 - r };
    let mut want = 0u64;
    if rel != 0 && rel != 6 {
        let mut rr: i8 = 0;
        while rr < 8 {
            let ahead = if player == Player::White { rr > r } else { rr < r };
            if ahead {
                want |= geo::bit(f - 1, rr) | geo::bit(f, rr) | geo::bit(f + 1, rr);
            }
            rr += 1;
        }
    }
    kani::cover!(want.count_ones() > 10 && player == Player::Black);
    assert!(got == want);
}

//@ obligation: C16.passed_mask.mirror
//@ domain: complete
//@ functions: engine/eval/pawn_structure.rs::generate_passed_pawn_mask
//@ timeout: 600
//@ note: colour symmetry of the passed-pawn test: the black mask for the vertically flipped square is the vertical flip of the white mask, for all 64 squares
#[kani::proof]
#[kani::unwind(10)]
fn vk_c16_passed_mask_mirror() {
    let s = geo::any_square();
    let w = generate_passed_pawn_mask(Player::White, s);
    let b = generate_passed_pawn_mask(Player::Black, flip_sq(s));
    kani::cover!(w.any());
    assert!(b == w.flip_vertically());
}

//@ obligation: C16.passed_tables.mirror
//@ domain: complete
//@ functions: engine/eval/pawn_structure.rs::init, engine/eval/pawn_structure.rs::enemy_passed_pawn_mask, engine/eval/pawn_structure.rs::pst_value, engine/eval/pawn_structure.rs::white_pst, engine/eval/pawn_structure.rs::black_pst
//@ timeout: 1500
//@ mem_gb: 6
//@ note: after the REAL init (executed on the engine's concrete parameter tables): for every square, black's passed-pawn mask and bonus at the flipped square are the flip / the negation of white's
#[kani::proof]
#[kani::unwind(66)]
fn vk_c16_passed_tables_mirror() {
    init();
    let s = geo::any_square();
    kani::cover!(true);
    assert!(enemy_passed_pawn_mask(Player::Black, flip_sq(s)) == enemy_passed_pawn_mask(Player::White, s).flip_vertically());
    assert!(pst_value(Player::Black, flip_sq(s)) == -pst_value(Player::White, s));
}
