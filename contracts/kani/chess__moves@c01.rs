//@@ module: chess/moves.rs
//@@ tag: c01
use crate::verif_support::geo;

fn any_promo() -> PromotionPieceKind {
    match kani::any::<u8>() % 4 {
        0 => PromotionPieceKind::Knight,
        1 => PromotionPieceKind::Bishop,
        2 => PromotionPieceKind::Rook,
        _ => PromotionPieceKind::Queen,
    }
}

//@ obligation: C01.codec.roundtrip
//@ property: C01 C17
//@ domain: complete
//@ functions: chess/moves.rs::Move::new, chess/moves.rs::Move::quiet, chess/moves.rs::Move::capture, chess/moves.rs::Move::castles, chess/moves.rs::Move::en_passant, chess/moves.rs::Move::quiet_promotion, chess/moves.rs::Move::capture_promotion, chess/moves.rs::Move::src, chess/moves.rs::Move::dst, chess/moves.rs::Move::promotion, chess/moves.rs::Move::is_capture, chess/moves.rs::Move::is_en_passant, chess/moves.rs::Move::is_castling, chess/moves.rs::Move::flags, chess/moves.rs::Flags::from_u8
//@ timeout: 300
//@ note: all 64x64 (src != dst) x 12 constructors: decode(encode) == identity on (src, dst, promotion piece), the labels capture / en passant / castling / promotion are exactly those of the constructor used and mutually consistent, the NonZeroU16 payload is never zero (new_unchecked sound), and Flags::from_u8 is only ever applied to a valid discriminant (transmute sound)
#[kani::proof]
fn vk_c01_codec_roundtrip() {
    let s = geo::any_square();
    let d = geo::any_square();
    kani::assume(s != d);
    let p = any_promo();
    let class: u8 = kani::any();
    kani::assume(class < 6);
    let m = match class {
        0 => Move::quiet(s, d),
        1 => Move::capture(s, d),
        2 => Move::castles(s, d),
        3 => Move::en_passant(s, d),
        4 => Move::quiet_promotion(s, d, p),
        _ => Move::capture_promotion(s, d, p),
    };
    kani::cover!(class == 5 && p == PromotionPieceKind::Knight);
    assert!(m.src() == s && m.dst() == d);
    assert!(m.promotion() == if class >= 4 { Some(p) } else { None });
    assert!(m.is_capture() == (class == 1 || class == 3 || class == 5));
    assert!(m.is_en_passant() == (class == 3));
    assert!(m.is_castling() == (class == 2));
    assert!(m.data() != 0);
}

//@ obligation: C01.codec.injective
//@ property: C01 C17
//@ domain: complete
//@ functions: chess/moves.rs::Move::new
//@ timeout: 300
//@ note: two moves are equal (derived PartialEq on the 16-bit payload) iff they agree on src, dst and all labels -- so "listed twice" for the generator means equal payload, and (src,dst,promotion) identifies a move among moves with consistent labels
#[kani::proof]
fn vk_c01_codec_injective() {
    let (s1, d1, s2, d2) = (geo::any_square(), geo::any_square(), geo::any_square(), geo::any_square());
    kani::assume(s1 != d1 && s2 != d2);
    let (c1, c2): (u8, u8) = (kani::any(), kani::any());
    kani::assume(c1 < 6 && c2 < 6);
    let (p1, p2) = (any_promo(), any_promo());
    let mk = |c: u8, s: Square, d: Square, p: PromotionPieceKind| match c {
        0 => Move::quiet(s, d),
        1 => Move::capture(s, d),
        2 => Move::castles(s, d),
        3 => Move::en_passant(s, d),
        4 => Move::quiet_promotion(s, d, p),
        _ => Move::capture_promotion(s, d, p),
    };
    let (m1, m2) = (mk(c1, s1, d1, p1), mk(c2, s2, d2, p2));
    kani::cover!(m1 == m2);
    let same = s1 == s2 && d1 == d2 && c1 == c2 && (c1 < 4 || p1 == p2);
    assert!((m1 == m2) == same);
}

//@ obligation: C01.canary.codec
//@ canary: true
//@ timeout: 300
#[kani::proof]
fn vk_c01_canary_codec() {
    let s = geo::any_square();
    let d = geo::any_square();
    kani::assume(s != d);
    assert!(Move::quiet(s, d).dst().idx() < 63); // must FAIL
}

//@ obligation: C17.expect_matching
//@ property: C17
//@ domain: bounded(list of <= 4 moves)
//@ functions: chess/moves.rs::impl MoveListExt for MoveList / fn expect_matching
//@ timeout: 900
//@ mem_gb: 6
//@ note: for every duplicate-free list of up to 4 moves and every (from, to, promotion) triple taken from one of them: the move returned carries exactly that triple and is an element of the list; since two legal moves never share the triple (C01.codec.injective + legality), it is THE move the GUI sent -- with its capture / en-passant / castling label as generated
//@ assumes: the triple designates a listed move (the property quantifies over legal games; otherwise the function panics 'Illegal move')
#[kani::proof]
#[kani::unwind(6)]
fn vk_c17_expect_matching() {
    let mut list = MoveList::new();
    let n: usize = kani::any();
    kani::assume(1 <= n && n <= 4);
    let mut ms = [Move::quiet(Square::from_index(0), Square::from_index(1)); 4];
    let mut i = 0;
    while i < 4 {
        if i < n {
            let (s, d) = (geo::any_square(), geo::any_square());
            kani::assume(s != d);
            let c: u8 = kani::any();
            kani::assume(c < 6);
            let p = any_promo();
            ms[i] = match c {
                0 => Move::quiet(s, d),
                1 => Move::capture(s, d),
                2 => Move::castles(s, d),
                3 => Move::en_passant(s, d),
                4 => Move::quiet_promotion(s, d, p),
                _ => Move::capture_promotion(s, d, p),
            };
            // legal moves of one position never share (from, to, promotion)
            let mut j = 0;
            while j < i {
                kani::assume(!(ms[j].src() == ms[i].src() && ms[j].dst() == ms[i].dst() && ms[j].promotion() == ms[i].promotion()));
                j += 1;
            }
            list.push(ms[i]);
        }
        i += 1;
    }
    let k: usize = kani::any();
    kani::assume(k < n);
    let want = ms[k];
    let got = list.expect_matching(want.src(), want.dst(), want.promotion());
    kani::cover!(k == 3);
    assert!(got == want);
}
