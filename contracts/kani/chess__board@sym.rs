//@@ module: chess/board.rs
//@@ tag: sym
// Symbolic boards for the full-board obligations.  `board()` builds the three redundant views of an ARBITRARY
// placement (13^64 mailboxes, legal or not) without any loop, so harnesses can keep a small unwinding bound for the
// ray walks.  That the result is what the real constructor Board::try_from builds from the same mailbox is obligation
// C02.board.try_from_agrees.
use crate::verif_support::geo;

pub type Mailbox = [Option<Piece>; 64];

#[inline(always)]
pub fn decode_piece(k: u8) -> Option<Piece> {
    match k {
        1 => Some(Piece::WHITE_PAWN),
        2 => Some(Piece::WHITE_KNIGHT),
        3 => Some(Piece::WHITE_BISHOP),
        4 => Some(Piece::WHITE_ROOK),
        5 => Some(Piece::WHITE_QUEEN),
        6 => Some(Piece::WHITE_KING),
        7 => Some(Piece::BLACK_PAWN),
        8 => Some(Piece::BLACK_KNIGHT),
        9 => Some(Piece::BLACK_BISHOP),
        10 => Some(Piece::BLACK_ROOK),
        11 => Some(Piece::BLACK_QUEEN),
        12 => Some(Piece::BLACK_KING),
        _ => None,
    }
}

pub fn any_piece_opt() -> Option<Piece> {
    let k: u8 = kani::any();
    kani::assume(k < 13);
    decode_piece(k)
}

pub fn any_piece() -> Piece {
    let k: u8 = kani::any();
    kani::assume(1 <= k && k < 13);
    decode_piece(k).unwrap()
}

/// a fully symbolic mailbox (no loop)
pub fn any_mailbox() -> Mailbox {
    [
        any_piece_opt(), any_piece_opt(), any_piece_opt(), any_piece_opt(), any_piece_opt(), any_piece_opt(), any_piece_opt(), any_piece_opt(),
        any_piece_opt(), any_piece_opt(), any_piece_opt(), any_piece_opt(), any_piece_opt(), any_piece_opt(), any_piece_opt(), any_piece_opt(),
        any_piece_opt(), any_piece_opt(), any_piece_opt(), any_piece_opt(), any_piece_opt(), any_piece_opt(), any_piece_opt(), any_piece_opt(),
        any_piece_opt(), any_piece_opt(), any_piece_opt(), any_piece_opt(), any_piece_opt(), any_piece_opt(), any_piece_opt(), any_piece_opt(),
        any_piece_opt(), any_piece_opt(), any_piece_opt(), any_piece_opt(), any_piece_opt(), any_piece_opt(), any_piece_opt(), any_piece_opt(),
        any_piece_opt(), any_piece_opt(), any_piece_opt(), any_piece_opt(), any_piece_opt(), any_piece_opt(), any_piece_opt(), any_piece_opt(),
        any_piece_opt(), any_piece_opt(), any_piece_opt(), any_piece_opt(), any_piece_opt(), any_piece_opt(), any_piece_opt(), any_piece_opt(),
        any_piece_opt(), any_piece_opt(), any_piece_opt(), any_piece_opt(), any_piece_opt(), any_piece_opt(), any_piece_opt(), any_piece_opt(),
    ]
}

#[inline(always)]
pub fn code_of(p: Option<Piece>) -> u8 {
    match p {
        None => 0,
        Some(p) => 1 + p.kind.array_idx() as u8 + if p.player == Player::Black { 6 } else { 0 },
    }
}

#[inline(always)]
fn bb_of_code(c: &[u8; 64], x: u8) -> u64 {
    (((c[0] == x) as u64) << 0) | (((c[1] == x) as u64) << 1) | (((c[2] == x) as u64) << 2) | (((c[3] == x) as u64) << 3) | (((c[4] == x) as u64) << 4) | (((c[5] == x) as u64) << 5) | (((c[6] == x) as u64) << 6) | (((c[7] == x) as u64) << 7) | (((c[8] == x) as u64) << 8) | (((c[9] == x) as u64) << 9) | (((c[10] == x) as u64) << 10) | (((c[11] == x) as u64) << 11) | (((c[12] == x) as u64) << 12) | (((c[13] == x) as u64) << 13) | (((c[14] == x) as u64) << 14) | (((c[15] == x) as u64) << 15) | (((c[16] == x) as u64) << 16) | (((c[17] == x) as u64) << 17) | (((c[18] == x) as u64) << 18) | (((c[19] == x) as u64) << 19) | (((c[20] == x) as u64) << 20) | (((c[21] == x) as u64) << 21) | (((c[22] == x) as u64) << 22) | (((c[23] == x) as u64) << 23) | (((c[24] == x) as u64) << 24) | (((c[25] == x) as u64) << 25) | (((c[26] == x) as u64) << 26) | (((c[27] == x) as u64) << 27) | (((c[28] == x) as u64) << 28) | (((c[29] == x) as u64) << 29) | (((c[30] == x) as u64) << 30) | (((c[31] == x) as u64) << 31) | (((c[32] == x) as u64) << 32) | (((c[33] == x) as u64) << 33) | (((c[34] == x) as u64) << 34) | (((c[35] == x) as u64) << 35) | (((c[36] == x) as u64) << 36) | (((c[37] == x) as u64) << 37) | (((c[38] == x) as u64) << 38) | (((c[39] == x) as u64) << 39) | (((c[40] == x) as u64) << 40) | (((c[41] == x) as u64) << 41) | (((c[42] == x) as u64) << 42) | (((c[43] == x) as u64) << 43) | (((c[44] == x) as u64) << 44) | (((c[45] == x) as u64) << 45) | (((c[46] == x) as u64) << 46) | (((c[47] == x) as u64) << 47) | (((c[48] == x) as u64) << 48) | (((c[49] == x) as u64) << 49) | (((c[50] == x) as u64) << 50) | (((c[51] == x) as u64) << 51) | (((c[52] == x) as u64) << 52) | (((c[53] == x) as u64) << 53) | (((c[54] == x) as u64) << 54) | (((c[55] == x) as u64) << 55) | (((c[56] == x) as u64) << 56) | (((c[57] == x) as u64) << 57) | (((c[58] == x) as u64) << 58) | (((c[59] == x) as u64) << 59) | (((c[60] == x) as u64) << 60) | (((c[61] == x) as u64) << 61) | (((c[62] == x) as u64) << 62) | (((c[63] == x) as u64) << 63)
}

/// the Board whose three views describe `mb` (loop-free, no symbolic array writes)
pub fn board_of(mb: &Mailbox) -> Board {
    let c: [u8; 64] = [code_of(mb[0]), code_of(mb[1]), code_of(mb[2]), code_of(mb[3]), code_of(mb[4]), code_of(mb[5]), code_of(mb[6]), code_of(mb[7]), code_of(mb[8]), code_of(mb[9]), code_of(mb[10]), code_of(mb[11]), code_of(mb[12]), code_of(mb[13]), code_of(mb[14]), code_of(mb[15]), code_of(mb[16]), code_of(mb[17]), code_of(mb[18]), code_of(mb[19]), code_of(mb[20]), code_of(mb[21]), code_of(mb[22]), code_of(mb[23]), code_of(mb[24]), code_of(mb[25]), code_of(mb[26]), code_of(mb[27]), code_of(mb[28]), code_of(mb[29]), code_of(mb[30]), code_of(mb[31]), code_of(mb[32]), code_of(mb[33]), code_of(mb[34]), code_of(mb[35]), code_of(mb[36]), code_of(mb[37]), code_of(mb[38]), code_of(mb[39]), code_of(mb[40]), code_of(mb[41]), code_of(mb[42]), code_of(mb[43]), code_of(mb[44]), code_of(mb[45]), code_of(mb[46]), code_of(mb[47]), code_of(mb[48]), code_of(mb[49]), code_of(mb[50]), code_of(mb[51]), code_of(mb[52]), code_of(mb[53]), code_of(mb[54]), code_of(mb[55]), code_of(mb[56]), code_of(mb[57]), code_of(mb[58]), code_of(mb[59]), code_of(mb[60]), code_of(mb[61]), code_of(mb[62]), code_of(mb[63])];
    let w: [u64; 6] = [bb_of_code(&c, 1), bb_of_code(&c, 2), bb_of_code(&c, 3), bb_of_code(&c, 4), bb_of_code(&c, 5), bb_of_code(&c, 6)];
    let b: [u64; 6] = [bb_of_code(&c, 7), bb_of_code(&c, 8), bb_of_code(&c, 9), bb_of_code(&c, 10), bb_of_code(&c, 11), bb_of_code(&c, 12)];
    Board {
        pieces: [
            Bitboard::new(w[0] | b[0]), Bitboard::new(w[1] | b[1]), Bitboard::new(w[2] | b[2]),
            Bitboard::new(w[3] | b[3]), Bitboard::new(w[4] | b[4]), Bitboard::new(w[5] | b[5]),
        ],
        colors: ByPlayer::new(
            Bitboard::new(w[0] | w[1] | w[2] | w[3] | w[4] | w[5]),
            Bitboard::new(b[0] | b[1] | b[2] | b[3] | b[4] | b[5]),
        ),
        squares: *mb,
    }
}

pub fn board() -> Board {
    board_of(&any_mailbox())
}

pub fn empty_board() -> Board {
    Board {
        pieces: [Bitboard::EMPTY; 6],
        colors: ByPlayer::new(Bitboard::EMPTY, Bitboard::EMPTY),
        squares: [None; 64],
    }
}

/// mailbox view of a board (the `squares` field)
pub fn mailbox_of(b: &Board) -> Mailbox {
    b.squares
}

/// well-formedness of one square: the three views agree about square i
pub fn wf_at(b: &Board, i: u8) -> bool {
    let bit = 1u64 << i;
    let mut kinds = 0u8;
    let mut k = 0;
    while k < 6 {
        if b.pieces[k].as_u64() & bit != 0 {
            kinds += 1;
        }
        k += 1;
    }
    let w = b.colors.white().as_u64() & bit != 0;
    let bl = b.colors.black().as_u64() & bit != 0;
    match b.squares[i as usize] {
        None => kinds == 0 && !w && !bl,
        Some(p) => {
            kinds == 1
                && b.pieces[p.kind.array_idx()].as_u64() & bit != 0
                && (w == (p.player == Player::White))
                && (bl == (p.player == Player::Black))
        }
    }
}

/// all fields of two boards equal (bitboards and mailbox)
pub fn boards_equal(a: &Board, b: &Board) -> bool {
    let mut ok = true;
    let mut k = 0;
    while k < 6 {
        ok = ok && a.pieces[k] == b.pieces[k];
        k += 1;
    }
    ok = ok && a.colors.white() == b.colors.white() && a.colors.black() == b.colors.black();
    ok = ok && a.squares[0] == b.squares[0];
    ok = ok && a.squares[1] == b.squares[1];
    ok = ok && a.squares[2] == b.squares[2];
    ok = ok && a.squares[3] == b.squares[3];
    ok = ok && a.squares[4] == b.squares[4];
    ok = ok && a.squares[5] == b.squares[5];
    ok = ok && a.squares[6] == b.squares[6];
    ok = ok && a.squares[7] == b.squares[7];
    ok = ok && a.squares[8] == b.squares[8];
    ok = ok && a.squares[9] == b.squares[9];
    ok = ok && a.squares[10] == b.squares[10];
    ok = ok && a.squares[11] == b.squares[11];
    ok = ok && a.squares[12] == b.squares[12];
    ok = ok && a.squares[13] == b.squares[13];
    ok = ok && a.squares[14] == b.squares[14];
    ok = ok && a.squares[15] == b.squares[15];
    ok = ok && a.squares[16] == b.squares[16];
    ok = ok && a.squares[17] == b.squares[17];
    ok = ok && a.squares[18] == b.squares[18];
    ok = ok && a.squares[19] == b.squares[19];
    ok = ok && a.squares[20] == b.squares[20];
    ok = ok && a.squares[21] == b.squares[21];
    ok = ok && a.squares[22] == b.squares[22];
    ok = ok && a.squares[23] == b.squares[23];
    ok = ok && a.squares[24] == b.squares[24];
    ok = ok && a.squares[25] == b.squares[25];
    ok = ok && a.squares[26] == b.squares[26];
    ok = ok && a.squares[27] == b.squares[27];
    ok = ok && a.squares[28] == b.squares[28];
    ok = ok && a.squares[29] == b.squares[29];
    ok = ok && a.squares[30] == b.squares[30];
    ok = ok && a.squares[31] == b.squares[31];
    ok = ok && a.squares[32] == b.squares[32];
    ok = ok && a.squares[33] == b.squares[33];
    ok = ok && a.squares[34] == b.squares[34];
    ok = ok && a.squares[35] == b.squares[35];
    ok = ok && a.squares[36] == b.squares[36];
    ok = ok && a.squares[37] == b.squares[37];
    ok = ok && a.squares[38] == b.squares[38];
    ok = ok && a.squares[39] == b.squares[39];
    ok = ok && a.squares[40] == b.squares[40];
    ok = ok && a.squares[41] == b.squares[41];
    ok = ok && a.squares[42] == b.squares[42];
    ok = ok && a.squares[43] == b.squares[43];
    ok = ok && a.squares[44] == b.squares[44];
    ok = ok && a.squares[45] == b.squares[45];
    ok = ok && a.squares[46] == b.squares[46];
    ok = ok && a.squares[47] == b.squares[47];
    ok = ok && a.squares[48] == b.squares[48];
    ok = ok && a.squares[49] == b.squares[49];
    ok = ok && a.squares[50] == b.squares[50];
    ok = ok && a.squares[51] == b.squares[51];
    ok = ok && a.squares[52] == b.squares[52];
    ok = ok && a.squares[53] == b.squares[53];
    ok = ok && a.squares[54] == b.squares[54];
    ok = ok && a.squares[55] == b.squares[55];
    ok = ok && a.squares[56] == b.squares[56];
    ok = ok && a.squares[57] == b.squares[57];
    ok = ok && a.squares[58] == b.squares[58];
    ok = ok && a.squares[59] == b.squares[59];
    ok = ok && a.squares[60] == b.squares[60];
    ok = ok && a.squares[61] == b.squares[61];
    ok = ok && a.squares[62] == b.squares[62];
    ok = ok && a.squares[63] == b.squares[63];
    ok
}
