//@@ module: engine/search/mod.rs
//@@ tag: c12
//@@ noglob: the table types are re-declared as counting ghosts
// `struct PersistentState` and its whole impl are copied VERBATIM from /repo on every run into this module, where every
// table type names a COUNTING GHOST: constructing one registers an instance that is "dirty until reset", `reset()` cleans
// it.  The obligation is the frame condition of `ucinewgame`: after PersistentState::reset() NO table that lives in the
// persistent state is still dirty -- whatever fields the struct has (a field added later with one of these table types and
// forgotten in reset() is refuted; a field of a type unknown here no longer type-checks => anchor lost, exit 2).
// The tablebase handle is exempt (it holds no search results; its ghost does not count).
pub static mut INSTANCES: u32 = 0;
pub static mut CLEAN: u32 = 0;

macro_rules! counting_table {
    ($name:ident $(, $arg:ty)?) => {
        pub struct $name {
            clean: bool,
        }
        impl $name {
            pub fn new($(_a: $arg)?) -> Self {
                unsafe {
                    INSTANCES += 1;
                }
                // a table in use is dirty (it has seen searches) until it is reset
                $name { clean: false }
            }
            pub fn reset(&mut self) {
                if !self.clean {
                    self.clean = true;
                    unsafe {
                        CLEAN += 1;
                    }
                }
            }
        }
    };
}
counting_table!(SearchTranspositionTable, usize);
counting_table!(HistoryTable);
counting_table!(CountermoveTable);
counting_table!(KillersTable);
pub struct Tablebase;
impl Tablebase {
    pub fn new() -> Self {
        Tablebase
    }
}

//@@ item: engine/search/mod.rs :: struct PersistentState
//@@ item: engine/search/mod.rs :: impl PersistentState

//@ obligation: C12.reset.covers_every_table
//@ property: C12
//@ domain: complete
//@ functions: engine/search/mod.rs::PersistentState::new, engine/search/mod.rs::PersistentState::reset
//@ timeout: 300
//@ note: frame condition of ucinewgame: for every hash size, EVERY table constructed into the persistent state (transposition, history, and any counter-move / killer table that may be moved there) has been reset when PersistentState::reset() returns; there is at least the transposition table and the history table
//@ assumes: what each table's own reset() does is C19.tt.reset / C12.history_reset; the tablebase handle holds no search results
#[kani::proof]
fn vk_c12_reset_covers_every_table() {
    let mb: usize = kani::any();
    unsafe {
        INSTANCES = 0;
        CLEAN = 0;
    }
    let mut ps = PersistentState::new(mb);
    ps.reset();
    unsafe {
        kani::cover!(INSTANCES == 2);
        assert!(INSTANCES >= 2);
        assert!(CLEAN == INSTANCES, "a table that survives from one search to the next is not cleared by ucinewgame");
    }
}
