//@@ module: chess/bitboard.rs
//@@ tag: c07
// Contracts of the Bitboard shift primitives against the coordinate geometry (support/geo.rs).
use crate::verif_support::geo;

//@ obligation: C07.bitboard.shift_single
//@ domain: complete
//@ functions: chess/bitboard.rs::Bitboard::in_direction, chess/bitboard.rs::Bitboard::north, chess/bitboard.rs::Bitboard::south, chess/bitboard.rs::Bitboard::east, chess/bitboard.rs::Bitboard::west, chess/bitboard.rs::Bitboard::north_east, chess/bitboard.rs::Bitboard::north_west, chess/bitboard.rs::Bitboard::south_east, chess/bitboard.rs::Bitboard::south_west, chess/square.rs::Square::bb
//@ timeout: 300
//@ note: for every square and every direction the shift of the one-square board is the coordinate step, empty when it leaves the board (no wrap-around)
#[kani::proof]
fn vk_c07_shift_single() {
    let s = geo::any_square();
    let d = geo::any_direction();
    let (df, dr) = geo::delta(d);
    let got = s.bb().in_direction(d).as_u64();
    let want = geo::bit(geo::file(s.idx()) + df, geo::rank(s.idx()) + dr);
    kani::cover!(want == 0);
    kani::cover!(want != 0);
    assert!(s.bb().as_u64() == geo::bit(geo::file(s.idx()), geo::rank(s.idx())));
    assert!(got == want);
}

//@ obligation: C07.bitboard.shift_linear
//@ domain: complete
//@ functions: chess/bitboard.rs::Bitboard::in_direction
//@ timeout: 300
//@ note: bit-parallelism: shift(a|b) == shift(a)|shift(b) and shift(0)==0 for all boards, so shift_single lifts to every board
#[kani::proof]
fn vk_c07_shift_linear() {
    let a = Bitboard::new(kani::any());
    let b = Bitboard::new(kani::any());
    let d = geo::any_direction();
    kani::cover!(a.any() && b.any());
    assert!((a | b).in_direction(d) == (a.in_direction(d) | b.in_direction(d)));
    assert!(Bitboard::EMPTY.in_direction(d) == Bitboard::EMPTY);
}

//@ obligation: C07.bitboard.forward_backward
//@ domain: complete
//@ functions: chess/bitboard.rs::Bitboard::forward, chess/bitboard.rs::Bitboard::backward
//@ timeout: 300
#[kani::proof]
fn vk_c07_forward_backward() {
    let a = Bitboard::new(kani::any());
    kani::cover!(a.any());
    assert!(a.forward(Player::White) == a.north() && a.forward(Player::Black) == a.south());
    assert!(a.backward(Player::White) == a.south() && a.backward(Player::Black) == a.north());
}

//@ obligation: C07.bitboard.square_iterator
//@ domain: complete
//@ functions: chess/bitboard.rs::impl Iterator for SquareIterator / fn next, chess/bitboard.rs::Bitboard::pop_lsb_inplace, chess/bitboard.rs::Bitboard::lsb, chess/square.rs::Square::from_array_index
//@ timeout: 300
//@ note: one step of `for s in bitboard`: yields the lowest set square (index < 64, a member) and removes exactly it; None iff empty => by induction on popcount every member is visited exactly once
#[kani::proof]
fn vk_c07_square_iterator() {
    let x: u64 = kani::any();
    let mut it = Bitboard::new(x).into_iter();
    let r = it.next();
    kani::cover!(x == 0);
    kani::cover!(x.count_ones() > 3);
    match r {
        None => assert!(x == 0),
        Some(s) => {
            assert!(x != 0 && s.idx() < 64);
            let b = 1u64 << s.idx();
            assert!(x & b != 0 && (x & (b - 1)) == 0 && it.0.as_u64() == x & !b);
        }
    }
}

//@ obligation: C07.canary.bitboard
//@ canary: true
//@ timeout: 300
#[kani::proof]
fn vk_c07_canary_bitboard() {
    let s = geo::any_square();
    let d = geo::any_direction();
    let got = s.bb().in_direction(d).as_u64();
    assert!(got != 0); // must FAIL: edge squares step off the board
}
