//@@ module: chess/game.rs
//@@ tag: c11rep
//@@ noglob: Game / History are re-declared as ghost stand-ins carrying only the fields the function reads
// The text of Game::is_repeated_position is copied verbatim from /repo on every run into an impl of a ghost `Game`
// whose `history` is a bounded vector (array + length) exposing the same `.iter()` (a std slice iterator) -- CBMC cannot
// carry a real Vec<History> of even 6 entries within 8 GB (measured).  ASSUMED: Vec::iter() iterates the elements in
// order, like the slice iterator used here.
use crate::chess::zobrist::ZobristHash;

pub const HIST_N: usize = 8;
pub struct History {
    pub zobrist: ZobristHash,
}
pub struct SmallHistory {
    pub items: [History; HIST_N],
    pub n: usize,
}
impl SmallHistory {
    pub fn iter(&self) -> std::slice::Iter<'_, History> {
        self.items[..self.n].iter()
    }
    pub fn len(&self) -> usize {
        self.n
    }
    pub fn is_empty(&self) -> bool {
        self.n == 0
    }
    pub fn get(&self, i: usize) -> Option<&History> {
        self.items[..self.n].get(i)
    }
    pub fn last(&self) -> Option<&History> {
        self.items[..self.n].last()
    }
}
impl std::ops::Index<usize> for SmallHistory {
    type Output = History;
    fn index(&self, i: usize) -> &History {
        &self.items[..self.n][i]
    }
}
pub struct Game {
    pub history: SmallHistory,
    pub halfmove_clock: u32,
    pub zobrist: ZobristHash,
}
impl Game {
    //@@ body: chess/game.rs :: impl Game / fn is_repeated_position => is_repeated_position
}

//@ obligation: C11.repetition.window
//@ property: C11
//@ domain: bounded(history length <= 8)
//@ functions: chess/game.rs::Game::is_repeated_position
//@ timeout: 900
//@ mem_gb: 6
//@ note: for every history of up to 8 earlier positions with arbitrary keys, every halfmove clock (0, inside, equal to, beyond the history length -- the FEN-start case) and every current key: the position counts as repeated exactly when one of the last min(clock, length) history entries carries the current key -- the window edge included
//@ assumes: equal 64-bit keys stand for identical positions (C03); the last `halfmove clock` history entries are the positions since the last capture or pawn move (C02: every move pushes the key of the position it leaves and resets / advances the clock); Vec::iter order
#[kani::proof]
#[kani::unwind(10)]
fn vk_c11_repetition_window() {
    let n: usize = kani::any();
    kani::assume(n <= HIST_N);
    let keys: [u64; HIST_N] = kani::any();
    let g = Game {
        history: SmallHistory { items: [
            History { zobrist: ZobristHash(keys[0]) }, History { zobrist: ZobristHash(keys[1]) },
            History { zobrist: ZobristHash(keys[2]) }, History { zobrist: ZobristHash(keys[3]) },
            History { zobrist: ZobristHash(keys[4]) }, History { zobrist: ZobristHash(keys[5]) },
            History { zobrist: ZobristHash(keys[6]) }, History { zobrist: ZobristHash(keys[7]) },
        ], n },
        halfmove_clock: kani::any(),
        zobrist: ZobristHash(kani::any()),
    };
    let clock = g.halfmove_clock as usize;
    let window = if clock < n { clock } else { n };
    let mut want = false;
    let mut i = 0;
    while i < HIST_N {
        // entry i (0 = oldest) is inside the window iff it is one of the last `window` entries
        if i < n && i + window >= n && keys[i] == g.zobrist.0 {
            want = true;
        }
        i += 1;
    }
    kani::cover!(want && clock == n && n == HIST_N);
    kani::cover!(!want && n > 2);
    assert!(g.is_repeated_position() == want);
}

// ---------------------------------------------------------------------------------------------------------------
// C11.fifty: Game::is_stalemate_by_fifty_move_rule (verbatim) against the CONTRACT of its callee generate_legal_moves
// (rebound by scope: fills the list with an arbitrary number of moves -- what C01 says is "the legal moves").
// ---------------------------------------------------------------------------------------------------------------
pub mod fifty {
    use crate::chess::moves::{Move, MoveList};
    use crate::chess::square::Square;

    pub static mut GEN_CALLS: u8 = 0;
    pub static mut LEGAL_N: u8 = 0;
    pub struct Game {
        pub halfmove_clock: u32,
    }
    /// CONTRACT of movegen::generate_legal_moves: pushes the legal moves of `game` (here: an arbitrary number 0..=3 of them)
    pub fn generate_legal_moves(_game: &Game, list: &mut MoveList) {
        let n: u8 = kani::any();
        kani::assume(n <= 3);
        unsafe {
            GEN_CALLS += 1;
            LEGAL_N = n;
        }
        let mut i = 0;
        while i < 3 {
            if i < n {
                list.push(Move::quiet(Square::from_index(i), Square::from_index(i + 8)));
            }
            i += 1;
        }
    }
    impl Game {
        /// other position queries a body might consult: arbitrary answers (the rule may not depend on them)
        pub fn is_king_in_check(&self) -> bool {
            kani::any()
        }
        pub fn moves(&self) -> MoveList {
            let mut l = MoveList::new();
            generate_legal_moves(self, &mut l);
            l
        }
        //@@ body: chess/game.rs :: impl Game / fn is_stalemate_by_fifty_move_rule => is_stalemate_by_fifty_move_rule pub
    }
}

//@ obligation: C11.fifty.rule
//@ property: C11
//@ domain: complete
//@ functions: chess/game.rs::Game::is_stalemate_by_fifty_move_rule
//@ timeout: 600
//@ mem_gb: 4
//@ note: for every halfmove clock (all u32) and every number of legal moves: the fifty-move draw is declared exactly when the clock has reached 100 AND the side to move still has a legal move (so a mate or stalemate on move 100 is not called a fifty-move draw)
//@ assumes: callee contract of generate_legal_moves (C01: the list is exactly the legal moves); the halfmove clock counts plies since the last capture or pawn move (C02.make_undo.*)
#[kani::proof]
#[kani::unwind(5)]
fn vk_c11_fifty_rule() {
    let clock: u32 = kani::any();
    let g = fifty::Game { halfmove_clock: clock };
    unsafe {
        fifty::GEN_CALLS = 0;
        fifty::LEGAL_N = 0;
    }
    let got = g.is_stalemate_by_fifty_move_rule();
    let n = unsafe { fifty::LEGAL_N };
    kani::cover!(clock >= 100 && n == 0);
    kani::cover!(clock == 100 && n > 0);
    if clock >= 100 {
        assert!(unsafe { fifty::GEN_CALLS } == 1, "the legal moves are consulted (once) when the clock has run out");
        assert!(got == (n > 0), "draw exactly when the side to move still has a legal move");
    } else {
        assert!(!got);
    }
}
