//@@ module: engine/eval/material.rs
//@@ tag: c16
//@@ needs: chess__board@sym.rs chess__game@sym.rs
use crate::chess::board::verif_kani_sym as sym;
use crate::chess::game::verif_kani_symgame as symgame;
use crate::chess::piece::Piece;

//@ obligation: C16.terms_mirror.bishop_pair
//@ domain: complete
//@ functions: engine/eval/material.rs::bishop_pair_eval
//@ timeout: 900
//@ mem_gb: 6
//@ note: fully symbolic board: the bishop-pair term of the colour-swapped board is the negation of the term of the board (white's bonus iff white has two or more bishops, black's likewise)
#[kani::proof]
#[kani::unwind(10)]
fn vk_c16_terms_mirror_bishop_pair() {
    let mb = sym::any_mailbox();
    let mut sw: sym::Mailbox = mb;
    let mut i = 0;
    // colour swap (the term does not look at squares)
    let swapped: sym::Mailbox = {
        let mut out: sym::Mailbox = [None; 64];
        let mut r = 0;
        while r < 8 {
            let mut f = 0;
            while f < 8 {
                out[(7 - r) * 8 + f] = mb[r * 8 + f].map(|p| Piece::new(p.player.other(), p.kind));
                f += 1;
            }
            r += 1;
        }
        out
    };
    let g1 = symgame::game_with_board(sym::board_of(&mb));
    let g2 = symgame::game_with_board(sym::board_of(&swapped));
    let mut t = Trace::new();
    let a = bishop_pair_eval::<false>(&g1, &mut t);
    let b = bishop_pair_eval::<false>(&g2, &mut t);
    kani::cover!(g1.board.bishops(Player::White).count() == 2 && g1.board.bishops(Player::Black).count() == 1);
    assert!(b == -a);
    std::mem::forget(g1);
    std::mem::forget(g2);
}
