//@@ module: chess/fen/fen_parser.rs
//@@ tag: c06

//@ obligation: C06.plies.total
//@ domain: complete
//@ functions: chess/fen/fen_parser.rs::plies_from_fullmove_number
//@ timeout: 300
//@ note: for ALL u32 fullmove numbers (0 and > 2^31 included) and both sides: no arithmetic under/overflow (a FEN counter field can never crash the reader)
#[kani::proof]
fn vk_c06_plies_total() {
    let n: u32 = kani::any();
    let black: bool = kani::any();
    let player = if black { Player::Black } else { Player::White };
    kani::cover!(n == 0);
    kani::cover!(n > 0x8000_0000);
    let _ = plies_from_fullmove_number(n, player);
}

//@ obligation: C06.plies.clock_codec
//@ domain: complete
//@ functions: chess/fen/fen_parser.rs::plies_from_fullmove_number, chess/game.rs::Game::turn
//@ timeout: 300
//@ note: for every fullmove number a legal game can have (1 <= n <= 2^31) and both sides: the writer's move number computed from the stored plies (plies/2 + 1, the expression of Game::turn) is n again and the parity of plies encodes the side -- the FEN counters round-trip
#[kani::proof]
fn vk_c06_plies_clock_codec() {
    let n: u32 = kani::any();
    let black: bool = kani::any();
    kani::assume(1 <= n && n <= 0x8000_0000);
    let player = if black { Player::Black } else { Player::White };
    let plies = plies_from_fullmove_number(n, player);
    kani::cover!(black && n > 1000);
    assert!(plies / 2 + 1 == n);
    assert!((plies % 2 == 1) == black);
}

//@ obligation: C06.canary.plies
//@ canary: true
//@ timeout: 300
#[kani::proof]
fn vk_c06_canary_plies() {
    let n: u32 = kani::any();
    kani::assume(1 <= n && n <= 1000);
    assert!(plies_from_fullmove_number(n, Player::White) % 4 == 0); // must FAIL
}
