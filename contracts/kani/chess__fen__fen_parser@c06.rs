//@@ module: chess/fen/fen_parser.rs
//@@ tag: c06

//@ obligation: C06.plies.total
//@ domain: complete
//@ functions: chess/fen/fen_parser.rs::plies_from_fullmove_number
//@ timeout: 300
//@ note: for ALL u32 fullmove numbers (0 and > 2^31 included) and both sides: no arithmetic under/overflow (a FEN counter field can never crash the reader)
#[kani::proof]
fn vk_c06_plies_total() {
    let n: u32 = kani::any();
    let black: bool = kani::any();
    let player = if black { Player::Black } else { Player::White };
    kani::cover!(n == 0);
    kani::cover!(n > 0x8000_0000);
    let _ = plies_from_fullmove_number(n, player);
}

//@ obligation: C06.plies.clock_codec
//@ domain: complete
//@ functions: chess/fen/fen_parser.rs::plies_from_fullmove_number, chess/game.rs::Game::turn
//@ timeout: 300
//@ note: for every fullmove number a legal game can have (1 <= n <= 2^31) and both sides: the writer's move number computed from the stored plies (plies/2 + 1, the expression of Game::turn) is n again and the parity of plies encodes the side -- the FEN counters round-trip
#[kani::proof]
fn vk_c06_plies_clock_codec() {
    let n: u32 = kani::any();
    let black: bool = kani::any();
    kani::assume(1 <= n && n <= 0x8000_0000);
    let player = if black { Player::Black } else { Player::White };
    let plies = plies_from_fullmove_number(n, player);
    kani::cover!(black && n > 1000);
    assert!(plies / 2 + 1 == n);
    assert!((plies % 2 == 1) == black);
}

//@ obligation: C06.canary.plies
//@ canary: true
//@ timeout: 300
#[kani::proof]
fn vk_c06_canary_plies() {
    let n: u32 = kani::any();
    kani::assume(1 <= n && n <= 1000);
    assert!(plies_from_fullmove_number(n, Player::White) % 4 == 0); // must FAIL
}

// ---- assembling the board from the eight parsed ranks (closure of fen_position, copied verbatim on every run) ----
//@@ closure: chess/fen/fen_parser.rs :: fn fen_position :: |(line8, line7, line6, line5, line4, line3, line2, line1)| => fn fen_position__closure((line8, line7, line6, line5, line4, line3, line2, line1): (FenRank, FenRank, FenRank, FenRank, FenRank, FenRank, FenRank, FenRank)) -> Board

fn any_rank(len: usize) -> FenRank {
    let mut v: Vec<Option<Piece>> = Vec::new();
    let mut i = 0;
    while i < 9 {
        if i < len {
            v.push(if kani::any() { Some(Piece::WHITE_ROOK) } else { None });
        }
        i += 1;
    }
    FenRank(v)
}

//@ obligation: C06.position.assemble
//@ domain: complete
//@ functions: chess/fen/fen_parser.rs::fen_position
//@ timeout: 1800
//@ mem_gb: 10
//@ note: the code that assembles the board from the eight parsed ranks (closure of fen_position): given eight ranks of EXACTLY eight squares each -- what fen_line's width check guarantees -- it cannot panic (length assertion, array conversion) and places rank r / file f at square r*8+f (first rank of the text = rank 8)
//@ assumes: fen_line rejects every rank that does not describe exactly eight squares (reviewed width check in fen_line; the nom combinators are outside CBMC's reach)
#[kani::proof]
#[kani::unwind(66)]
fn vk_c06_position_assemble() {
    let r = [any_rank(8), any_rank(8), any_rank(8), any_rank(8), any_rank(8), any_rank(8), any_rank(8), any_rank(8)];
    let f: usize = kani::any();
    let rk: usize = kani::any();
    kani::assume(f < 8 && rk < 8);
    // r[0] is the first rank in the text, i.e. rank 8
    let want = r[7 - rk].0[f];
    let [a, b, c, d, e, g, h, i] = r;
    let board = fen_position__closure((a, b, c, d, e, g, h, i));
    kani::cover!(want.is_some());
    assert!(board.piece_at(Square::from_index((rk * 8 + f) as u8)) == want);
}

//@ obligation: C06.position.widths_unchecked
//@ status: experimental
//@ domain: bounded(first rank of 7..=9 squares, the others of 8)
//@ functions: chess/fen/fen_parser.rs::fen_position
//@ timeout: 1800
//@ mem_gb: 10
//@ note: the same closure when the first rank has 7, 8 or 9 squares: it must not panic whatever the parser hands it.  Refuted on the pinned tree (assert_eq!(len, 64) fails for '44p/8/8/8/8/8/8/8'), which is the crash repaired by the width check in fen_line; kept unregistered to document the weakest precondition of the closure.
#[kani::proof]
#[kani::unwind(75)]
fn vk_c06_position_widths_unchecked() {
    let l0: usize = kani::any();
    kani::assume(7 <= l0 && l0 <= 9);
    let _ = fen_position__closure((any_rank(l0), any_rank(8), any_rank(8), any_rank(8), any_rank(8), any_rank(8), any_rank(8), any_rank(8)));
}
