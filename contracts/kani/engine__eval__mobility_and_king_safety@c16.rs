//@@ module: engine/eval/mobility_and_king_safety.rs
//@@ tag: c16
//@@ needs: chess__board@sym.rs chess__game@sym.rs chess__bitboard@iter.rs
use crate::chess::board::verif_kani_sym as sym;
use crate::chess::game::verif_kani_symgame as symgame;
use crate::chess::piece::{Piece, PieceKind};
use crate::verif_support::{geo, rules};

/// colour-swapped, vertically flipped mailbox
fn mirror(mb: &sym::Mailbox) -> sym::Mailbox {
    let mut out: sym::Mailbox = [None; 64];
    let mut r = 0;
    while r < 8 {
        let mut f = 0;
        while f < 8 {
            out[(7 - r) * 8 + f] = mb[r * 8 + f].map(|p| Piece::new(p.player.other(), p.kind));
            f += 1;
        }
        r += 1;
    }
    out
}

//@ obligation: C16.terms_mirror.mobility
//@ status: experimental
//@ domain: bounded(<= 2 knights, bishops, rooks, queens of the evaluated side)
//@ functions: engine/eval/mobility_and_king_safety.rs::mobility_and_opp_king_safety_for
//@ timeout: 3000
//@ mem_gb: 12
//@ note: colour symmetry of the mobility / king-attack term: for every board (both kings once; at most two knights, bishops, rooks and queens of the evaluated side -- the unwinding bound of the four piece loops) the term computed for White equals the term computed for Black on the colour-swapped, vertically flipped board
//@ assumes: table lookups == geometry (C07); piece-count bound 2 per kind
#[kani::proof]
#[kani::unwind(10)]
//@@stubs-tables
fn vk_c16_terms_mirror_mobility() {
    let mb = sym::any_mailbox();
    kani::assume(rules::count_piece(&mb, Piece::WHITE_KING) == 1 && rules::count_piece(&mb, Piece::BLACK_KING) == 1);
    let b1 = sym::board_of(&mb);
    kani::assume(b1.knights(Player::White).count() <= 2 && b1.bishops(Player::White).count() <= 2);
    kani::assume(b1.rooks(Player::White).count() <= 2 && b1.queens(Player::White).count() <= 2);
    let g1 = symgame::game_with_board(b1);
    let g2 = symgame::game_with_board(sym::board_of(&mirror(&mb)));
    let mut t = Trace::new();
    let w = mobility_and_opp_king_safety_for::<false>(&g1, Player::White, &mut t);
    let b = mobility_and_opp_king_safety_for::<false>(&g2, Player::Black, &mut t);
    kani::cover!(g1.board.queens(Player::White).count() == 1 && g1.board.knights(Player::White).count() == 2);
    assert!(w == b);
    std::mem::forget(g1);
    std::mem::forget(g2);
}


use crate::chess::bitboard::verif_kani_iter as iter;

//@ obligation: C16.terms_mirror.mobility_per_piece
//@ domain: complete
//@ functions: engine/eval/mobility_and_king_safety.rs::mobility_and_opp_king_safety_for
//@ timeout: 2400
//@ mem_gb: 10
//@ note: colour symmetry of the mobility / king-attack term in one-shot contract form, NO bound on the number of pieces: on a fully symbolic board (both kings once) the term is computed for White with each of its four piece loops run for ONE arbitrary member, then for Black on the colour-swapped, vertically flipped board with each loop run for the MIRRORED member: the loops iterate mirrored sets (same loops non-empty) and the two terms are equal -- so every piece's contribution (safe-square count -> table entry, enemy-pawn-attack mask included) and the king-zone count are colour-symmetric
//@ assumes: table lookups == geometry (C07); one-shot iterator contract (C07.bitboard.square_iterator) and loop bodies that only ACCUMULATE (eval += .., attacked |= ..), so the whole-loop result is the fold of per-member results
#[kani::proof]
#[kani::unwind(10)]
//@@stubs-tables
#[kani::stub(<crate::chess::bitboard::SquareIterator as std::iter::Iterator>::next, iter::one_shot_square_next)]
fn vk_c16_terms_mirror_mobility_per_piece() {
    let mb = sym::any_mailbox();
    kani::assume(rules::count_piece(&mb, Piece::WHITE_KING) == 1 && rules::count_piece(&mb, Piece::BLACK_KING) == 1);
    let g1 = symgame::game_with_board(sym::board_of(&mb));
    let g2 = symgame::game_with_board(sym::board_of(&mirror(&mb)));
    let mut t = Trace::new();
    iter::rec_reset();
    let w = mobility_and_opp_king_safety_for::<false>(&g1, Player::White, &mut t);
    iter::replay_mirrored();
    let b = mobility_and_opp_king_safety_for::<false>(&g2, Player::Black, &mut t);
    iter::replay_done();
    kani::cover!(iter::calls() == 4);
    kani::cover!(g1.board.pawns(Player::Black).any() && iter::calls() >= 1);
    assert!(w == b);
    std::mem::forget(g1);
    std::mem::forget(g2);
}

//@ obligation: C16.canary.mobility
//@ canary: true
//@ timeout: 2400
//@ mem_gb: 10
#[kani::proof]
#[kani::unwind(10)]
//@@stubs-tables
#[kani::stub(<crate::chess::bitboard::SquareIterator as std::iter::Iterator>::next, iter::one_shot_square_next)]
fn vk_c16_canary_mobility() {
    let mb = sym::any_mailbox();
    kani::assume(rules::count_piece(&mb, Piece::WHITE_KING) == 1 && rules::count_piece(&mb, Piece::BLACK_KING) == 1);
    let g1 = symgame::game_with_board(sym::board_of(&mb));
    let mut t = Trace::new();
    iter::rec_reset();
    let w = mobility_and_opp_king_safety_for::<false>(&g1, Player::White, &mut t);
    let b = mobility_and_opp_king_safety_for::<false>(&g1, Player::Black, &mut t);
    assert!(w == b); // must FAIL: the two sides of one board differ
    std::mem::forget(g1);
}
