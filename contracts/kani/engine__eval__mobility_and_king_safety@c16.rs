//@@ module: engine/eval/mobility_and_king_safety.rs
//@@ tag: c16
//@@ needs: chess__board@sym.rs chess__game@sym.rs chess__bitboard@iter.rs
use crate::chess::board::verif_kani_sym as sym;
use crate::chess::game::verif_kani_symgame as symgame;
use crate::chess::piece::{Piece, PieceKind};
use crate::verif_support::{geo, rules};

/// colour-swapped, vertically flipped mailbox
fn mirror(mb: &sym::Mailbox) -> sym::Mailbox {
    let mut out: sym::Mailbox = [None; 64];
    let mut r = 0;
    while r < 8 {
        let mut f = 0;
        while f < 8 {
            out[(7 - r) * 8 + f] = mb[r * 8 + f].map(|p| Piece::new(p.player.other(), p.kind));
            f += 1;
        }
        r += 1;
    }
    out
}

//@ obligation: C16.terms_mirror.mobility
//@ status: experimental
//@ domain: bounded(<= 2 knights, bishops, rooks, queens of the evaluated side)
//@ functions: engine/eval/mobility_and_king_safety.rs::mobility_and_opp_king_safety_for
//@ timeout: 3000
//@ mem_gb: 12
//@ note: colour symmetry of the mobility / king-attack term: for every board (both kings once; at most two knights, bishops, rooks and queens of the evaluated side -- the unwinding bound of the four piece loops) the term computed for White equals the term computed for Black on the colour-swapped, vertically flipped board
//@ assumes: table lookups == geometry (C07); piece-count bound 2 per kind
#[kani::proof]
#[kani::unwind(10)]
//@@stubs-tables
fn vk_c16_terms_mirror_mobility() {
    let mb = sym::any_mailbox();
    kani::assume(rules::count_piece(&mb, Piece::WHITE_KING) == 1 && rules::count_piece(&mb, Piece::BLACK_KING) == 1);
    let b1 = sym::board_of(&mb);
    kani::assume(b1.knights(Player::White).count() <= 2 && b1.bishops(Player::White).count() <= 2);
    kani::assume(b1.rooks(Player::White).count() <= 2 && b1.queens(Player::White).count() <= 2);
    let g1 = symgame::game_with_board(b1);
    let g2 = symgame::game_with_board(sym::board_of(&mirror(&mb)));
    let mut t = Trace::new();
    let w = mobility_and_opp_king_safety_for::<false>(&g1, Player::White, &mut t);
    let b = mobility_and_opp_king_safety_for::<false>(&g2, Player::Black, &mut t);
    kani::cover!(g1.board.queens(Player::White).count() == 1 && g1.board.knights(Player::White).count() == 2);
    assert!(w == b);
    std::mem::forget(g1);
    std::mem::forget(g2);
}


use crate::chess::bitboard::verif_kani_iter as iter;

//@ obligation: C16.terms_mirror.mobility_per_piece
//@ tier: thorough
//@ kani_args: --solver kissat
//@ domain: complete
//@ functions: engine/eval/mobility_and_king_safety.rs::mobility_and_opp_king_safety_for
//@ timeout: 7200
//@ mem_gb: 10
//@ note: colour symmetry of the mobility / king-attack term in one-shot contract form, NO bound on the number of pieces: on a fully symbolic board (both kings once) the term is computed for White with each of its four piece loops run for ONE arbitrary member, then for Black on the colour-swapped, vertically flipped board with each loop run for the MIRRORED member: the loops iterate mirrored sets (same loops non-empty) and the two terms are equal -- so every piece's contribution (safe-square count -> table entry, enemy-pawn-attack mask included) and the king-zone count are colour-symmetric
//@ assumes: table lookups == geometry (C07); one-shot iterator contract (C07.bitboard.square_iterator) and loop bodies that only ACCUMULATE (eval += .., attacked |= ..), so the whole-loop result is the fold of per-member results
#[kani::proof]
#[kani::unwind(10)]
//@@stubs-tables
#[kani::stub(<crate::chess::bitboard::SquareIterator as std::iter::Iterator>::next, iter::one_shot_square_next)]
fn vk_c16_terms_mirror_mobility_per_piece() {
    let mb = sym::any_mailbox();
    kani::assume(rules::count_piece(&mb, Piece::WHITE_KING) == 1 && rules::count_piece(&mb, Piece::BLACK_KING) == 1);
    let g1 = symgame::game_with_board(sym::board_of(&mb));
    let g2 = symgame::game_with_board(sym::board_of(&mirror(&mb)));
    let mut t = Trace::new();
    iter::rec_reset();
    let w = mobility_and_opp_king_safety_for::<false>(&g1, Player::White, &mut t);
    iter::replay_mirrored();
    let b = mobility_and_opp_king_safety_for::<false>(&g2, Player::Black, &mut t);
    iter::replay_done();
    kani::cover!(iter::calls() == 4);
    kani::cover!(g1.board.pawns(Player::Black).any() && iter::calls() >= 1);
    assert!(w == b);
    std::mem::forget(g1);
    std::mem::forget(g2);
}

//@ obligation: C16.canary.mobility
//@ tier: thorough
//@ canary: true
//@ timeout: 2400
//@ mem_gb: 10
#[kani::proof]
#[kani::unwind(10)]
//@@stubs-tables
#[kani::stub(<crate::chess::bitboard::SquareIterator as std::iter::Iterator>::next, iter::one_shot_square_next)]
fn vk_c16_canary_mobility() {
    let mb = sym::any_mailbox();
    kani::assume(rules::count_piece(&mb, Piece::WHITE_KING) == 1 && rules::count_piece(&mb, Piece::BLACK_KING) == 1);
    let g1 = symgame::game_with_board(sym::board_of(&mb));
    let mut t = Trace::new();
    iter::rec_reset();
    let w = mobility_and_opp_king_safety_for::<false>(&g1, Player::White, &mut t);
    let b = mobility_and_opp_king_safety_for::<false>(&g1, Player::Black, &mut t);
    assert!(w == b); // must FAIL: the two sides of one board differ
    std::mem::forget(g1);
}

// ---------------------------------------------------------------------------------------------------------------
// FUNCTION AGAINST A SPEC FUNCTION, piecewise (prefix / one iteration of each of the four loops / tail, each verbatim):
//   term(player) =   sum over the player's knights, bishops, rooks, queens p of
//                        TABLE_kind[ popcount( attacks_kind(p, occupancy) & SAFE ) ]
//                  - ATTACKED_KING_SQUARES[ popcount( (union of all those attack sets) & king_zone(enemy king) ) ]
//   SAFE = complement of the squares attacked by the ENEMY's pawns (coordinate geometry, no file wrap).
// The spec mentions colours only through "the player's pieces", "the enemy's pawns" and the direction those pawns
// capture in, so it is colour-symmetric by form; the engine function equals it piece by piece.  Also decides that every
// table index is in range (8 / 13 / 14 / 27 / 8 at most).
// ---------------------------------------------------------------------------------------------------------------
use crate::chess::bitboard::Bitboard;
use crate::chess::square::Square;
use crate::engine::eval::params::{ATTACKED_KING_SQUARES, BISHOP_MOBILITY, KNIGHT_MOBILITY, QUEEN_MOBILITY, ROOK_MOBILITY};

pub struct MSt {
    pub eval: PhasedEval,
    pub blockers: Bitboard,
    pub mobility_safe_squares: Bitboard,
    pub attacked_squares: Bitboard,
}

//@@ prefix: engine/eval/mobility_and_king_safety.rs :: fn mobility_and_opp_king_safety_for :: for p in game.board.knights(player) => #[allow(unused_mut, unused_variables)] fn mob_init<const TRACE: bool>(game: &Game, player: Player, trace: &mut Trace) -> MSt ;; MSt { eval, blockers, mobility_safe_squares, attacked_squares }

//@@ loopstep: engine/eval/mobility_and_king_safety.rs :: fn mobility_and_opp_king_safety_for :: for p in game.board.knights(player) => #[allow(unused_mut, unused_variables)] fn mob_knights_step<const TRACE: bool>(game: &Game, player: Player, trace: &mut Trace, st: MSt) -> MSt ;; let MSt { mut eval, blockers, mobility_safe_squares, mut attacked_squares } = st; let mut verif_iter = 0u8; ;; if verif_iter == 1 { return MSt { eval, blockers, mobility_safe_squares, attacked_squares }; } verif_iter += 1; ;; MSt { eval, blockers, mobility_safe_squares, attacked_squares }

//@@ loopstep: engine/eval/mobility_and_king_safety.rs :: fn mobility_and_opp_king_safety_for :: for p in game.board.bishops(player) => #[allow(unused_mut, unused_variables)] fn mob_bishops_step<const TRACE: bool>(game: &Game, player: Player, trace: &mut Trace, st: MSt) -> MSt ;; let MSt { mut eval, blockers, mobility_safe_squares, mut attacked_squares } = st; let mut verif_iter = 0u8; ;; if verif_iter == 1 { return MSt { eval, blockers, mobility_safe_squares, attacked_squares }; } verif_iter += 1; ;; MSt { eval, blockers, mobility_safe_squares, attacked_squares }

//@@ loopstep: engine/eval/mobility_and_king_safety.rs :: fn mobility_and_opp_king_safety_for :: for p in game.board.rooks(player) => #[allow(unused_mut, unused_variables)] fn mob_rooks_step<const TRACE: bool>(game: &Game, player: Player, trace: &mut Trace, st: MSt) -> MSt ;; let MSt { mut eval, blockers, mobility_safe_squares, mut attacked_squares } = st; let mut verif_iter = 0u8; ;; if verif_iter == 1 { return MSt { eval, blockers, mobility_safe_squares, attacked_squares }; } verif_iter += 1; ;; MSt { eval, blockers, mobility_safe_squares, attacked_squares }

//@@ loopstep: engine/eval/mobility_and_king_safety.rs :: fn mobility_and_opp_king_safety_for :: for p in game.board.queens(player) => #[allow(unused_mut, unused_variables)] fn mob_queens_step<const TRACE: bool>(game: &Game, player: Player, trace: &mut Trace, st: MSt) -> MSt ;; let MSt { mut eval, blockers, mobility_safe_squares, mut attacked_squares } = st; let mut verif_iter = 0u8; ;; if verif_iter == 1 { return MSt { eval, blockers, mobility_safe_squares, attacked_squares }; } verif_iter += 1; ;; MSt { eval, blockers, mobility_safe_squares, attacked_squares }

//@@ suffix: engine/eval/mobility_and_king_safety.rs :: fn mobility_and_opp_king_safety_for :: let enemy_king = => #[allow(unused_mut, unused_variables)] fn mob_tail<const TRACE: bool>(game: &Game, player: Player, trace: &mut Trace, st: MSt) -> PhasedEval ;; let MSt { mut eval, blockers, mobility_safe_squares, mut attacked_squares } = st;

fn any_mst() -> MSt {
    let (a, b): (i16, i16) = (kani::any(), kani::any());
    kani::assume(-8000 <= a && a <= 8000 && -8000 <= b && b <= 8000);
    MSt {
        eval: PhasedEval::new(a, b),
        blockers: Bitboard::new(kani::any()),
        mobility_safe_squares: Bitboard::new(kani::any()),
        attacked_squares: Bitboard::new(kani::any()),
    }
}
fn pop(x: u64) -> usize {
    x.count_ones() as usize
}

//@ obligation: C16.mobility.safe_squares
//@ property: C16
//@ domain: complete
//@ functions: engine/eval/mobility_and_king_safety.rs::mobility_and_opp_king_safety_for
//@ timeout: 900
//@ mem_gb: 6
//@ note: the text of the function before its first loop, on a fully symbolic board for either side: the running term starts at zero, the attacked set empty, the blockers are the board's occupancy, and the mobility-safe squares are EXACTLY the complement of the squares attacked by the enemy's pawns by coordinate geometry (one rank forward for that colour, one file to either side, no wrap across the a/h files)
//@ assumes: none beyond Kani/CBMC
#[kani::proof]
#[kani::unwind(10)]
fn vk_c16_mobility_safe_squares() {
    let mb = sym::any_mailbox();
    let g = symgame::game_with_board(sym::board_of(&mb));
    let player = geo::any_player();
    let them = player.other();
    let mut t = Trace::new();
    let st = mob_init::<false>(&g, player, &mut t);
    let mut attacked = 0u64;
    let mut r: u8 = 0;
    while r < 8 {
        let mut f: u8 = 0;
        while f < 8 {
            let i = r * 8 + f;
            if mb[i as usize] == Some(Piece::new(them, PieceKind::Pawn)) {
                attacked |= geo::pawn(i, them == Player::White);
            }
            f += 1;
        }
        r += 1;
    }
    kani::cover!(attacked != 0 && player == Player::White);
    assert!(st.mobility_safe_squares.as_u64() == !attacked);
    assert!(st.eval == PhasedEval::ZERO && st.attacked_squares.is_empty());
    assert!(st.blockers == g.board.occupancy());
    std::mem::forget(g);
}

fn check_step(kind: PieceKind) {
    let mb = sym::any_mailbox();
    let g = symgame::game_with_board(sym::board_of(&mb));
    let player = geo::any_player();
    let set = g.board.pieces_of_kind(kind, player);
    let st = any_mst();
    let (e0, blockers, safe, att0) = (st.eval, st.blockers, st.mobility_safe_squares, st.attacked_squares);
    let mut t = Trace::new();
    let post = match kind {
        PieceKind::Knight => mob_knights_step::<false>(&g, player, &mut t, st),
        PieceKind::Bishop => mob_bishops_step::<false>(&g, player, &mut t, st),
        PieceKind::Rook => mob_rooks_step::<false>(&g, player, &mut t, st),
        _ => mob_queens_step::<false>(&g, player, &mut t, st),
    };
    kani::cover!(set.count() >= 2);
    assert!(post.blockers == blockers && post.mobility_safe_squares == safe);
    if set.is_empty() {
        assert!(post.eval == e0 && post.attacked_squares == att0);
    } else {
        // the iteration ran for a member of exactly the player's pieces of this kind
        let p = set.lsb().single().idx();
        let moves = match kind {
            PieceKind::Knight => geo::knight(p),
            PieceKind::Bishop => geo::bishop(p, blockers.as_u64()),
            PieceKind::Rook => geo::rook(p, blockers.as_u64()),
            _ => geo::bishop(p, blockers.as_u64()) | geo::rook(p, blockers.as_u64()),
        };
        let n = pop(moves & safe.as_u64());
        let add = match kind {
            PieceKind::Knight => KNIGHT_MOBILITY[n],
            PieceKind::Bishop => BISHOP_MOBILITY[n],
            PieceKind::Rook => ROOK_MOBILITY[n],
            _ => QUEEN_MOBILITY[n],
        };
        assert!(post.attacked_squares.as_u64() == att0.as_u64() | moves);
        assert!(post.eval == e0 + add);
    }
    std::mem::forget(g);
}

//@ obligation: C16.mobility.step_knights
//@ property: C16 C04
//@ domain: complete
//@ functions: engine/eval/mobility_and_king_safety.rs::mobility_and_opp_king_safety_for
//@ timeout: 900
//@ mem_gb: 6
//@ note: one iteration of the knights loop (block verbatim) from ANY running state: it runs for a member of exactly the player's knights, adds KNIGHT_MOBILITY[popcount(knight geometry(p) & safe)] (index in range), ORs the attack set into the attacked squares and touches nothing else; an empty set leaves the state unchanged
//@ assumes: table lookups == geometry (C07); loop iterations depend on each other only through the two accumulators
#[kani::proof]
#[kani::unwind(10)]
//@@stubs-tables
fn vk_c16_mobility_step_knights() {
    check_step(PieceKind::Knight);
}

//@ obligation: C16.mobility.step_bishops
//@ property: C16 C04
//@ domain: complete
//@ functions: engine/eval/mobility_and_king_safety.rs::mobility_and_opp_king_safety_for
//@ timeout: 900
//@ mem_gb: 6
//@ note: as C16.mobility.step_knights for the bishops loop: BISHOP_MOBILITY[popcount(diagonal rays(p, blockers) & safe)], at most 13
//@ assumes: as C16.mobility.step_knights
#[kani::proof]
#[kani::unwind(10)]
//@@stubs-tables
fn vk_c16_mobility_step_bishops() {
    check_step(PieceKind::Bishop);
}

//@ obligation: C16.mobility.step_rooks
//@ property: C16 C04
//@ domain: complete
//@ functions: engine/eval/mobility_and_king_safety.rs::mobility_and_opp_king_safety_for
//@ timeout: 900
//@ mem_gb: 6
//@ note: as C16.mobility.step_knights for the rooks loop: ROOK_MOBILITY[popcount(orthogonal rays(p, blockers) & safe)], at most 14
//@ assumes: as C16.mobility.step_knights
#[kani::proof]
#[kani::unwind(10)]
//@@stubs-tables
fn vk_c16_mobility_step_rooks() {
    check_step(PieceKind::Rook);
}

//@ obligation: C16.mobility.step_queens
//@ property: C16 C04
//@ domain: complete
//@ functions: engine/eval/mobility_and_king_safety.rs::mobility_and_opp_king_safety_for
//@ timeout: 900
//@ mem_gb: 6
//@ note: as C16.mobility.step_knights for the queens loop: QUEEN_MOBILITY[popcount((diagonal | orthogonal rays)(p, blockers) & safe)], at most 27
//@ assumes: as C16.mobility.step_knights
#[kani::proof]
#[kani::unwind(10)]
//@@stubs-tables
fn vk_c16_mobility_step_queens() {
    check_step(PieceKind::Queen);
}

//@ obligation: C16.mobility.king_zone_tail
//@ property: C16 C04
//@ domain: complete
//@ functions: engine/eval/mobility_and_king_safety.rs::mobility_and_opp_king_safety_for
//@ timeout: 900
//@ mem_gb: 6
//@ note: the text of the function after its last loop, from ANY running state on a fully symbolic board with exactly one enemy king: the result is the running term minus ATTACKED_KING_SQUARES[popcount(attacked squares & king geometry(enemy king))] (index at most 8)
//@ assumes: table lookups == geometry (C07)
#[kani::proof]
#[kani::unwind(10)]
//@@stubs-tables
fn vk_c16_mobility_king_zone_tail() {
    let mb = sym::any_mailbox();
    let player = geo::any_player();
    let them = player.other();
    kani::assume(rules::count_piece(&mb, Piece::new(them, PieceKind::King)) == 1);
    let g = symgame::game_with_board(sym::board_of(&mb));
    let st = any_mst();
    let (e0, att0) = (st.eval, st.attacked_squares);
    let mut t = Trace::new();
    let got = mob_tail::<false>(&g, player, &mut t, st);
    let k = rules::king_square(&mb, them);
    let n = pop(att0.as_u64() & geo::king(k));
    kani::cover!(n == 8);
    assert!(got == e0 - ATTACKED_KING_SQUARES[n]);
    std::mem::forget(g);
}
