//@@ module: engine/eval/pawn_structure.rs
//@@ tag: c16fn
//@@ needs: chess__board@sym.rs chess__game@sym.rs
// The passed-pawn term as a whole is a FUNCTION OF THE BOARD: the bodies of eval_passed_pawns and
// eval_passed_pawns_by_player (verbatim from /repo on every run) against the contract of calculate_passed_pawn_bonus -- an
// arbitrary but DETERMINISTIC function of (the two pawn sets, the player), which is all the real one reads (C16.passed.bonus_step).
// Each body is called on TWO arbitrary boards in a row and the SECOND answer must be what the contract gives for the second
// board: a term that depends on anything else -- an earlier call (a cache with a colliding key, a static accumulator), the side
// to move, other pieces -- is refuted.  (The evaluation being a function of the position alone is what C15 concludes and what
// colour symmetry in C16 presupposes.)
use crate::chess::board::verif_kani_sym as sym;
use crate::chess::game::verif_kani_symgame as symgame;

/// CONTRACT of calculate_passed_pawn_bonus: some deterministic function of (our pawns, their pawns, player) with small values
fn calculate_passed_pawn_bonus<const TRACE: bool>(board: &Board, player: Player, _trace: &mut Trace) -> PhasedEval {
    contract_bonus(board, player)
}
fn contract_bonus(board: &Board, player: Player) -> PhasedEval {
    let ours = board.pawns(player).as_u64();
    let theirs = board.pawns(player.other()).as_u64();
    let mix = ours.rotate_left(7) ^ theirs.rotate_left(29) ^ (ours >> 17) ^ (theirs >> 41);
    let a = (mix & 0x3ff) as i16 - 512;
    let b = ((mix >> 10) & 0x3ff) as i16 - 512;
    if player == Player::White { PhasedEval::new(a, b) } else { PhasedEval::new(-b, a) }
}

//@@ body: engine/eval/pawn_structure.rs :: fn eval_passed_pawns => eval_passed_pawns__body
//@@ body: engine/eval/pawn_structure.rs :: fn eval_passed_pawns_by_player => eval_passed_pawns_by_player__body

//@ obligation: C16.passed.term_is_function_of_board
//@ property: C16 C15
//@ domain: complete
//@ functions: engine/eval/pawn_structure.rs::eval_passed_pawns, engine/eval/pawn_structure.rs::eval_passed_pawns_by_player
//@ timeout: 1800
//@ mem_gb: 8
//@ note: for two arbitrary boards evaluated one after the other (any placement each, any side to move), the passed-pawn term returned for the SECOND board is exactly white bonus + black bonus of the second board (resp. the pair of the two) as given by the callee contract -- so the term depends on the board alone, not on what was evaluated before, and not on the side to move
//@ assumes: callee contract: calculate_passed_pawn_bonus is a deterministic function of the two pawn sets and the player (C16.passed.bonus_step); the two packed halves of the contract's values stay small (no i16 overflow in the sum)
#[kani::proof]
#[kani::unwind(10)]
fn vk_c16_passed_term_is_function_of_board() {
    let mb1 = sym::any_mailbox();
    let mb2 = sym::any_mailbox();
    let g1 = symgame::game_with_board(sym::board_of(&mb1));
    let g2 = symgame::game_with_board(sym::board_of(&mb2));
    let mut t = Trace::new();
    let _first = eval_passed_pawns__body::<false>(&g1, &mut t);
    let second = eval_passed_pawns__body::<false>(&g2, &mut t);
    let want_w = contract_bonus(&g2.board, Player::White);
    let want_b = contract_bonus(&g2.board, Player::Black);
    kani::cover!(g1.board.pawns(Player::White) == g2.board.pawns(Player::Black) && g1.board.pawns(Player::Black) == g2.board.pawns(Player::White) && g1.board.pawns(Player::White) != g1.board.pawns(Player::Black));
    assert!(second == want_w + want_b, "the passed-pawn term of a board depends on something other than that board");
    let _ = eval_passed_pawns_by_player__body(&g1.board);
    let pair = eval_passed_pawns_by_player__body(&g2.board);
    assert!(*pair.white() == want_w && *pair.black() == want_b, "per-player passed-pawn terms depend on something other than the board");
    std::mem::forget(g1);
    std::mem::forget(g2);
}
