//@@ module: chess/san/san_writer.rs
//@@ tag: c18txt
//@@ noglob: Game and required_ambiguity_resolution are re-declared here (callee contracts)
// Body of `format_move` (verbatim from /repo on every run) against CONTRACTS of everything it calls on the position:
//   * `game.board.piece_at(from)`  -> the mover (an arbitrary piece of the side to move);
//   * `game.clone()`               -> a scratch copy (ghost flag);
//   * `copy.make_move(mv)`         -> must be called on the COPY, with exactly this move, once (C02 gives its meaning);
//   * `copy.is_king_in_check()`    -> must be asked of the copy AFTER the move; answers an ARBITRARY recorded bool
//                                     (its meaning -- the opponent's king is attacked in the position after the move --
//                                     is C02.make_undo.* + C01.in_check.exact);
//   * `required_ambiguity_resolution(game, mv)` -> an arbitrary recorded answer (None for pawns and kings), asked of the
//                                     caller's position (C18.disambiguation.minimal gives its meaning).
// No board is needed, so the obligation ranges over EVERY (piece kind, from, to, move class, promotion piece, side,
// disambiguation answer, check answer).  The String machinery (format!, to_string, Square::notation) is the real
// library code, executed symbolically.
use super::{san, squares, AmbiguityResolution, Move, PieceKind, PromotionPieceKind};
use crate::chess::piece::Piece;
use crate::chess::player::Player;
use crate::chess::square::Square;
use crate::verif_support::geo;

pub static mut EXPECT_MV: Option<Move> = None;
pub static mut EXPECT_FROM: u8 = 0;
pub static mut MADE: u8 = 0;
pub static mut CHECK_ASKED: u8 = 0;
pub static mut CHECK_ANSWER: bool = false;
pub static mut AMB_CALLS: u8 = 0;
pub static mut AMB_ANSWER: u8 = 0;
pub static mut AMB_FIXED: Option<u8> = None;

pub struct Board {
    pub mover: Piece,
}
impl Board {
    pub fn piece_at(&self, s: Square) -> Option<Piece> {
        assert!(s.idx() == unsafe { EXPECT_FROM }, "only the mover's square is looked up");
        Some(self.mover)
    }
}
pub struct Game {
    pub board: Board,
    pub player: Player,
    pub is_copy: bool,
    pub moved: bool,
}
impl Clone for Game {
    fn clone(&self) -> Self {
        Game { board: Board { mover: self.board.mover }, player: self.player, is_copy: true, moved: self.moved }
    }
}
impl Game {
    pub fn make_move(&mut self, mv: Move) {
        assert!(self.is_copy && !self.moved, "the move is played once, on a scratch copy");
        unsafe {
            assert!(EXPECT_MV == Some(mv), "the move played on the scratch copy is the move being written");
            MADE += 1;
        }
        self.moved = true;
        self.player = self.player.other();
    }
    pub fn is_king_in_check(&self) -> bool {
        assert!(self.is_copy && self.moved, "check is judged in the position AFTER the move");
        unsafe {
            CHECK_ASKED += 1;
            CHECK_ANSWER
        }
    }
}

fn required_ambiguity_resolution(game: &Game, mv: Move) -> AmbiguityResolution {
    assert!(!game.is_copy && !game.moved, "disambiguation is computed in the position BEFORE the move");
    unsafe {
        assert!(EXPECT_MV == Some(mv));
        AMB_CALLS += 1;
    }
    let kind = game.board.mover.kind;
    let a: u8 = match unsafe { AMB_FIXED } { Some(a) => a, None => kani::any() };
    kani::assume(a < 4);
    let a = if kind == PieceKind::Pawn || kind == PieceKind::King { 0 } else { a };
    unsafe {
        AMB_ANSWER = a;
    }
    match a {
        0 => AmbiguityResolution::None,
        1 => AmbiguityResolution::File,
        2 => AmbiguityResolution::Rank,
        _ => AmbiguityResolution::Exact,
    }
}

//@@ body: chess/san/san_writer.rs :: fn format_move => format_move__body

pub const QUIET: u8 = 0;
pub const CAPTURE: u8 = 1;
pub const EN_PASSANT: u8 = 2;
pub const CASTLE_K: u8 = 3;
pub const CASTLE_Q: u8 = 4;
pub const PROMO: u8 = 5;
pub const CAP_PROMO: u8 = 6;

fn file_ch(s: u8) -> u8 {
    b'a' + (s % 8)
}
fn rank_ch(s: u8) -> u8 {
    b'1' + (s / 8)
}
fn any_promo() -> PromotionPieceKind {
    match kani::any::<u8>() % 4 {
        0 => PromotionPieceKind::Knight,
        1 => PromotionPieceKind::Bishop,
        2 => PromotionPieceKind::Rook,
        _ => PromotionPieceKind::Queen,
    }
}

/// the conventional SAN text of the move, written independently of the engine's formatting code
fn spec_text(kind: PieceKind, mv: Move, class: u8, amb: u8, gives_check: bool) -> ([u8; 10], usize) {
    let mut t = [0u8; 10];
    let mut n = 0;
    let (from, to) = (mv.src().idx(), mv.dst().idx());
    if class == CASTLE_K || class == CASTLE_Q {
        t[0] = b'O';
        t[1] = b'-';
        t[2] = b'O';
        n = 3;
        if class == CASTLE_Q {
            t[3] = b'-';
            t[4] = b'O';
            n = 5;
        }
    } else {
        let is_capture = class == CAPTURE || class == EN_PASSANT || class == CAP_PROMO;
        match kind {
            PieceKind::Pawn => {
                if is_capture {
                    t[n] = file_ch(from);
                    n += 1;
                }
            }
            PieceKind::Knight => { t[n] = b'N'; n += 1; }
            PieceKind::Bishop => { t[n] = b'B'; n += 1; }
            PieceKind::Rook => { t[n] = b'R'; n += 1; }
            PieceKind::Queen => { t[n] = b'Q'; n += 1; }
            PieceKind::King => { t[n] = b'K'; n += 1; }
        }
        if amb == 1 || amb == 3 {
            t[n] = file_ch(from);
            n += 1;
        }
        if amb == 2 || amb == 3 {
            t[n] = rank_ch(from);
            n += 1;
        }
        if is_capture {
            t[n] = b'x';
            n += 1;
        }
        t[n] = file_ch(to);
        t[n + 1] = rank_ch(to);
        n += 2;
        if let Some(p) = mv.promotion() {
            t[n] = b'=';
            t[n + 1] = match p {
                PromotionPieceKind::Knight => b'N',
                PromotionPieceKind::Bishop => b'B',
                PromotionPieceKind::Rook => b'R',
                PromotionPieceKind::Queen => b'Q',
            };
            n += 2;
        }
    }
    if gives_check {
        t[n] = b'+';
        n += 1;
    }
    (t, n)
}

fn check_text(class: u8) {
    check_text_k(class, None, None)
}
fn check_text_k(class: u8, fixed_kind: Option<usize>, fixed_amb: Option<u8>) {
    let player = geo::any_player();
    let home: u8 = if player == Player::White { 0 } else { 56 };
    let (from, to) = (geo::any_square(), geo::any_square());
    kani::assume(from != to);
    let k: usize = match fixed_kind { Some(k) => k, None => kani::any() };
    kani::assume(k < 6);
    let kind = PieceKind::ALL[k];
    unsafe { AMB_FIXED = fixed_amb; }
    // shape of each move class (what C01 establishes for generated moves)
    let mv = if class == QUIET {
        // a king leaving its home square for a castling destination without castling is not a legal quiet move
        // (two files) -- the writer tells castling from the squares, so exclude that impossible shape
        kani::assume(!(kind == PieceKind::King && from.idx() == home + 4 && (to.idx() == home + 6 || to.idx() == home + 2)));
        Move::quiet(from, to)
    } else if class == CAPTURE {
        kani::assume(!(kind == PieceKind::King && from.idx() == home + 4 && (to.idx() == home + 6 || to.idx() == home + 2)));
        Move::capture(from, to)
    } else if class == EN_PASSANT {
        kani::assume(kind == PieceKind::Pawn);
        Move::en_passant(from, to)
    } else if class == CASTLE_K {
        kani::assume(kind == PieceKind::King && from.idx() == home + 4 && to.idx() == home + 6);
        Move::castles(from, to)
    } else if class == CASTLE_Q {
        kani::assume(kind == PieceKind::King && from.idx() == home + 4 && to.idx() == home + 2);
        Move::castles(from, to)
    } else if class == PROMO {
        kani::assume(kind == PieceKind::Pawn);
        Move::quiet_promotion(from, to, any_promo())
    } else {
        kani::assume(kind == PieceKind::Pawn);
        Move::capture_promotion(from, to, any_promo())
    };
    let gives_check: bool = kani::any();
    unsafe {
        EXPECT_MV = Some(mv);
        EXPECT_FROM = from.idx();
        MADE = 0;
        CHECK_ASKED = 0;
        AMB_CALLS = 0;
        AMB_ANSWER = 0;
        CHECK_ANSWER = gives_check;
    }
    let game = Game { board: Board { mover: Piece::new(player, kind) }, player, is_copy: false, moved: false };
    let got = format_move__body(&game, mv);
    let castle = class == CASTLE_K || class == CASTLE_Q;
    let amb = unsafe { AMB_ANSWER };
    let (t, n) = spec_text(kind, mv, class, amb, gives_check);
    kani::cover!(gives_check && amb == 3);
    kani::cover!(!gives_check && player == Player::Black);
    unsafe {
        assert!(MADE == 1 && CHECK_ASKED == 1, "the suffix comes from playing the move once on a scratch copy and asking whether the side to move is in check");
        assert!(castle || AMB_CALLS == 1);
    }
    let b = got.as_bytes();
    assert!(b.len() == n, "SAN text has the conventional length (check suffix exactly when the move gives check, castling included)");
    let mut i = 0;
    while i < 10 {
        if i < n {
            assert!(b[i] == t[i], "SAN text equals the conventional text");
        }
        i += 1;
    }
}

//@ obligation: C18.text.piece_moves
//@ status: experimental
//@ domain: complete
//@ functions: chess/san/san_writer.rs::format_move
//@ timeout: 3000
//@ mem_gb: 12
//@ note: body of format_move against callee contracts, for every piece kind, from/to pair, side, quiet move or capture, disambiguation answer and check answer: the text is exactly [piece letter | capturing pawn's file][from-file][from-rank]['x']<destination>['+'], '+' exactly when the position after the move (move played once, on a scratch copy) has the side to move in check
//@ assumes: callee contracts (C02.make_undo.*, C01.in_check.exact, C18.disambiguation.minimal); real String/format! machinery as compiled by Kani
#[kani::proof]
#[kani::unwind(12)]
fn vk_c18_text_piece_moves() {
    let class = if kani::any() { QUIET } else { CAPTURE };
    check_text(class);
}

//@ obligation: C18.text.pawn_specials
//@ status: experimental
//@ domain: complete
//@ functions: chess/san/san_writer.rs::format_move
//@ timeout: 3000
//@ mem_gb: 12
//@ note: as C18.text.piece_moves for en passant (<file>x<destination>), promotions (<destination>=<N|B|R|Q>) and capturing promotions (<file>x<destination>=<N|B|R|Q>), each with '+' exactly when the move gives check
//@ assumes: as C18.text.piece_moves
#[kani::proof]
#[kani::unwind(12)]
fn vk_c18_text_pawn_specials() {
    let c: u8 = kani::any();
    kani::assume(c == EN_PASSANT || c == PROMO || c == CAP_PROMO);
    check_text(c);
}

//@ obligation: C18.text.castling
//@ status: experimental
//@ domain: complete
//@ functions: chess/san/san_writer.rs::format_move
//@ timeout: 3000
//@ mem_gb: 12
//@ note: castling is written O-O / O-O-O and -- 'castling included' in the property -- carries '+' exactly when it gives check
//@ assumes: as C18.text.piece_moves
#[kani::proof]
#[kani::unwind(12)]
fn vk_c18_text_castling() {
    let class = if kani::any() { CASTLE_K } else { CASTLE_Q };
    check_text(class);
}

//@ obligation: C18.canary.text
//@ status: experimental
//@ canary: true
//@ timeout: 3000
//@ mem_gb: 12
#[kani::proof]
#[kani::unwind(12)]
fn vk_c18_canary_text() {
    let player = geo::any_player();
    let (from, to) = (geo::any_square(), geo::any_square());
    kani::assume(from != to);
    let mv = Move::en_passant(from, to);
    unsafe {
        EXPECT_MV = Some(mv);
        EXPECT_FROM = from.idx();
        CHECK_ANSWER = kani::any();
    }
    let game = Game { board: Board { mover: Piece::new(player, PieceKind::Pawn) }, player, is_copy: false, moved: false };
    let got = format_move__body(&game, mv);
    assert!(got.as_bytes().len() == 4); // must FAIL: en passant can give check ("exd6+")
}

//@ obligation: C18.text.probe_knight_exact_capture
//@ status: experimental
//@ kani_args: --no-memory-safety-checks --no-overflow-checks
//@ domain: complete
//@ functions: chess/san/san_writer.rs::format_move
//@ timeout: 1200
//@ mem_gb: 8
#[kani::proof]
#[kani::unwind(12)]
fn vk_c18_text_probe() {
    check_text_k(CAPTURE, Some(1), Some(3));
}

// ---------------------------------------------------------------------------------------------------------------
// The obligations above do NOT fit CBMC (the real String / format! machinery: > 12 GB in symbolic execution even for one
// concrete piece kind and with memory-safety checks off), so they are kept as *experimental*.  What does fit is the
// PROTOCOL half of the suffix clause, with the text formatting stubbed out (std::fmt::format -> empty string):
// ---------------------------------------------------------------------------------------------------------------
fn fake_format(_args: std::fmt::Arguments<'_>) -> String {
    String::new()
}

//@ obligation: C18.suffix.decided_for_every_move
//@ domain: complete
//@ functions: chess/san/san_writer.rs::format_move
//@ timeout: 1200
//@ mem_gb: 8
//@ note: body of format_move against callee contracts with the text formatting stubbed out, for every piece kind, from/to pair, side and move class -- CASTLING INCLUDED, as the property says: on every path that returns a text, the move was played exactly once on a scratch copy and that copy was asked whether the side to move is in check (the answer the '+' suffix has to follow); the disambiguation is asked of the position before the move. That the answer is then rendered as '+' is NOT decided here (String machinery does not fit CBMC).
//@ assumes: callee contracts (C02.make_undo.*, C01.in_check.exact, C18.disambiguation.minimal); std::fmt::format stubbed (text not examined)
#[kani::proof]
#[kani::unwind(12)]
#[kani::stub(std::fmt::format, fake_format)]
fn vk_c18_suffix_decided_for_every_move() {
    let class: u8 = kani::any();
    kani::assume(class <= CAP_PROMO);
    let player = geo::any_player();
    let home: u8 = if player == Player::White { 0 } else { 56 };
    let (from, to) = (geo::any_square(), geo::any_square());
    kani::assume(from != to);
    let k: usize = kani::any();
    kani::assume(k < 6);
    let kind = PieceKind::ALL[k];
    let mv = if class == QUIET {
        Move::quiet(from, to)
    } else if class == CAPTURE {
        Move::capture(from, to)
    } else if class == EN_PASSANT {
        kani::assume(kind == PieceKind::Pawn);
        Move::en_passant(from, to)
    } else if class == CASTLE_K {
        kani::assume(kind == PieceKind::King && from.idx() == home + 4 && to.idx() == home + 6);
        Move::castles(from, to)
    } else if class == CASTLE_Q {
        kani::assume(kind == PieceKind::King && from.idx() == home + 4 && to.idx() == home + 2);
        Move::castles(from, to)
    } else if class == PROMO {
        kani::assume(kind == PieceKind::Pawn);
        Move::quiet_promotion(from, to, any_promo())
    } else {
        kani::assume(kind == PieceKind::Pawn);
        Move::capture_promotion(from, to, any_promo())
    };
    unsafe {
        EXPECT_MV = Some(mv);
        EXPECT_FROM = from.idx();
        MADE = 0;
        CHECK_ASKED = 0;
        AMB_CALLS = 0;
        AMB_FIXED = None;
        CHECK_ANSWER = kani::any();
    }
    let game = Game { board: Board { mover: Piece::new(player, kind) }, player, is_copy: false, moved: false };
    let _text = format_move__body(&game, mv);
    kani::cover!(class == CASTLE_Q);
    kani::cover!(class == CAP_PROMO);
    unsafe {
        assert!(MADE == 1 && CHECK_ASKED == 1, "every move, castling included: the check suffix is decided by playing the move once on a scratch copy");
    }
}

//@ obligation: C18.canary.suffix
//@ canary: true
//@ timeout: 600
#[kani::proof]
#[kani::unwind(12)]
#[kani::stub(std::fmt::format, fake_format)]
fn vk_c18_canary_suffix() {
    let player = geo::any_player();
    let (from, to) = (geo::any_square(), geo::any_square());
    kani::assume(from != to);
    let mv = Move::quiet(from, to);
    unsafe {
        EXPECT_MV = Some(mv);
        EXPECT_FROM = from.idx();
        MADE = 0;
        CHECK_ASKED = 0;
        AMB_FIXED = None;
        CHECK_ANSWER = kani::any();
    }
    let game = Game { board: Board { mover: Piece::new(player, PieceKind::Knight) }, player, is_copy: false, moved: false };
    let _text = format_move__body(&game, mv);
    assert!(unsafe { MADE } == 0); // must FAIL: the move is played on the scratch copy
}
