//@@ module: chess/zobrist.rs
//@@ tag: c03distinct
//@@ cargo-dep: ppv-lite86 = { version = "0.2.20", features = ["no_simd"] }
// The key components come from rand's StdRng (ChaCha12) with a FIXED seed: a closed computation.  The SIMD back end of the
// ChaCha implementation detects CPU features with inline assembly (unsupported by Kani), so for THIS obligation the staged
// crate selects the dependency's portable back end (cargo feature no_simd of ppv-lite86) -- recorded in the evidence.
// ASSUMPTION: the portable and the SIMD back ends of ppv-lite86 compute the same ChaCha stream (they are the crate's two
// implementations of one function; rand_chacha's test vectors run against both).

//@ obligation: C03.components_distinct
//@ status: experimental
//@ tier: thorough
//@ domain: complete
//@ functions: chess/zobrist.rs::init
//@ timeout: 7200
//@ mem_gb: 16
//@ note: the REAL zobrist::init (fixed seed, so a closed computation) is executed by CBMC and the 838 component words it produces are pairwise distinct and non-zero (checked for an arbitrary pair of component indices over the flattened tables)
//@ assumes: rand_chacha / rand as compiled with ppv-lite86's portable back end. RESULTS OF THE ATTEMPTS: (1) with the default SIMD back end Kani stops with 'TerminatorKind::InlineAsm is not currently supported' (CPU-feature detection); (2) with the portable back end selected for the staged crate (cargo-dep directive) the crate compiles and CBMC starts, but the closed ChaCha computation of 838 words exceeds 16 GB after 20 min of symbolic execution -- so this clause stays UNDECIDED (experimental), as anticipated in DESIGN C03
#[kani::proof]
#[kani::unwind(840)]
fn vk_c03_components_distinct() {
    init();
    let mut flat = [0u64; 838];
    let mut n = 0;
    unsafe {
        let mut p = 0;
        while p < 2 {
            let mut s = 0;
            while s < 64 {
                let mut k = 0;
                while k < 6 {
                    flat[n] = components::PIECE_SQUARE[p][s][k];
                    n += 1;
                    k += 1;
                }
                s += 1;
            }
            let mut c = 0;
            while c < 2 {
                flat[n] = components::CASTLING[p][c];
                n += 1;
                c += 1;
            }
            p += 1;
        }
        let mut s = 0;
        while s < 64 {
            flat[n] = components::EN_PASSANT_SQUARE[s];
            n += 1;
            s += 1;
        }
        flat[n] = components::NO_EN_PASSANT_SQUARE;
        n += 1;
        flat[n] = components::SIDE_TO_PLAY;
        n += 1;
    }
    assert!(n == 838);
    let (i, j): (usize, usize) = (kani::any(), kani::any());
    kani::assume(i < 838 && j < 838 && i != j);
    kani::cover!(true);
    assert!(flat[i] != 0 && flat[i] != flat[j]);
}
