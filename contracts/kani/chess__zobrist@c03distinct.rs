//@@ module: chess/zobrist.rs
//@@ tag: c03distinct

//@ obligation: C03.components_distinct
//@ status: experimental
//@ tier: thorough
//@ domain: complete
//@ functions: chess/zobrist.rs::init
//@ timeout: 7200
//@ mem_gb: 16
//@ note: the REAL zobrist::init (fixed seed, so a closed computation) is executed by CBMC and the 838 component words it produces are pairwise distinct and non-zero (checked for an arbitrary pair of component indices over the flattened tables)
//@ assumes: rand_chacha / rand as compiled. RESULT OF THE ATTEMPT: Kani stops with 'TerminatorKind::InlineAsm is not currently supported' (CPU-feature detection inside rand_chacha), so this clause stays UNDECIDED -- as anticipated in DESIGN C03
#[kani::proof]
#[kani::unwind(840)]
fn vk_c03_components_distinct() {
    init();
    let mut flat = [0u64; 838];
    let mut n = 0;
    unsafe {
        let mut p = 0;
        while p < 2 {
            let mut s = 0;
            while s < 64 {
                let mut k = 0;
                while k < 6 {
                    flat[n] = components::PIECE_SQUARE[p][s][k];
                    n += 1;
                    k += 1;
                }
                s += 1;
            }
            let mut c = 0;
            while c < 2 {
                flat[n] = components::CASTLING[p][c];
                n += 1;
                c += 1;
            }
            p += 1;
        }
        let mut s = 0;
        while s < 64 {
            flat[n] = components::EN_PASSANT_SQUARE[s];
            n += 1;
            s += 1;
        }
        flat[n] = components::NO_EN_PASSANT_SQUARE;
        n += 1;
        flat[n] = components::SIDE_TO_PLAY;
        n += 1;
    }
    assert!(n == 838);
    let (i, j): (usize, usize) = (kani::any(), kani::any());
    kani::assume(i < 838 && j < 838 && i != j);
    kani::cover!(true);
    assert!(flat[i] != 0 && flat[i] != flat[j]);
}
