//@@ module: engine/search/iterative_deepening.rs
//@@ tag: c08
//@@ noglob: every name the body uses is bound here
// Body of iterative_deepening::search (verbatim from /repo on every run) against callee contracts:
//   should_start_new_search(d)   true for d == 1, otherwise arbitrary (C09.should_stop.contract)
//   aspiration_search            Err (stop) at any call, or Ok(score in +-32000) leaving a NON-EMPTY line in pv
//                                (root clause of C08.negamax.mate_pv; the position has a legal move -- the property's
//                                precondition)
//   reporter                     ghost recorder of the reported depths and line lengths
use crate::chess::moves::Move;
use crate::chess::square::Square;
use crate::engine::eval::Eval;
use crate::engine::search::{SearchScore, MAX_SEARCH_DEPTH};
use std::time::Duration;
// names a driver may legitimately consult when it touches the shared table
use crate::chess::zobrist::ZobristHash;
use crate::engine::search::transposition::{NodeBound, SearchTranspositionTableData};

/// key of the position the driver was given (the root); the ghost working copy carries a DIFFERENT key once an aborted
/// search has left it somewhere inside the tree (C09: an aborted search does not unwind the working copy)
pub const ROOT_KEY: u64 = 0x1234_5678_9abc_def0;
pub static mut TT_WRITES: u16 = 0;

pub static mut ABORTED: bool = false;
pub static mut ASP_CALLS: u16 = 0;
pub static mut LAST_ASP_DEPTH: u8 = 0;
pub static mut REPORTS: u16 = 0;
pub static mut LAST_REPORTED_DEPTH: u8 = 0;
pub static mut LAST_PV_FIRST: Option<Move> = None;
pub static mut MAX_DEPTH_SEEN: u8 = 0;

#[derive(Clone)]
pub struct Game {
    pub zobrist: ZobristHash,
}
#[derive(Clone)]
pub struct PrincipalVariation {
    pub first: Option<Move>,
}
impl PrincipalVariation {
    pub fn first(&self) -> Option<&Move> {
        self.first.as_ref()
    }
}
pub struct GhostTime;
impl GhostTime {
    pub fn should_start_new_search(&self, depth: u8) -> bool {
        unsafe { assert!(!ABORTED, "a new iteration is considered after the search was told to stop"); }
        depth == 1 || kani::any()
    }
    pub fn elapsed(&self) -> Duration {
        Duration::from_nanos(kani::any())
    }
}
pub struct GhostTT {
    pub generation: u8,
}
impl GhostTT {
    pub fn occupancy(&self) -> usize {
        kani::any()
    }
    /// CONTRACT of a table write at this level: an entry describes the position whose key it is filed under -- the key must
    /// be the ROOT position's (the only position this driver knows anything about) and the move must be one the completed
    /// search returned for the root (legal there).  After an aborted iteration the working copy is NOT the root any more.
    pub fn insert(&mut self, key: &ZobristHash, data: SearchTranspositionTableData) {
        unsafe {
            TT_WRITES += 1;
            assert!(key.0 == ROOT_KEY, "table entry filed under the key of a position the search was aborted in, not the root's");
            assert!(data.best_move.is_none() || data.best_move == LAST_PV_FIRST, "table entry for the root carries a move no completed iteration returned");
        }
    }
}
pub struct SearchRestrictions {
    pub depth: Option<u8>,
}
pub struct SearchContext<'a> {
    pub search_restrictions: &'a SearchRestrictions,
    pub max_depth_reached: u8,
    pub time_control: GhostTime,
    pub tt: GhostTT,
    pub nodes_visited: u64,
    pub tbhits: u64,
}
//@@ item: engine/search/mod.rs :: struct SearchInfo
//@@ item: engine/search/mod.rs :: struct SearchStats
pub trait Reporter {
    fn report_search_progress(&mut self, game: &Game, progress: SearchInfo);
}
pub struct GhostReporter;
impl Reporter for GhostReporter {
    fn report_search_progress(&mut self, _g: &Game, info: SearchInfo) {
        unsafe {
            // C08: depths are reported 1, 2, 3, ... without gaps, each for the iteration just completed, with a non-empty line
            assert!(info.depth == LAST_REPORTED_DEPTH + 1, "reported depths must increase one by one");
            assert!(info.depth == LAST_ASP_DEPTH, "the report is for the iteration just completed");
            assert!(info.pv.first.is_some(), "reported line must be non-empty");
            assert!(!ABORTED, "an aborted iteration must not be reported");
            LAST_REPORTED_DEPTH = info.depth;
            REPORTS += 1;
            if info.depth > MAX_DEPTH_SEEN {
                MAX_DEPTH_SEEN = info.depth;
            }
        }
    }
}
mod util {
    pub mod metrics {
        pub fn nodes_per_second(_n: u64, _t: std::time::Duration) -> u64 {
            kani::any()
        }
    }
}
fn aspiration_search(_g: &mut Game, depth: u8, eval: Option<Eval>, pv: &mut PrincipalVariation, _ctx: &mut SearchContext<'_>) -> Result<Eval, ()> {
    unsafe {
        assert!(!ABORTED, "no further search after the first Err");
        // precondition assumed by C04.aspiration.window_arith: from depth 2 on the previous score is passed on
        assert!(depth == 1 || eval.is_some(), "aspiration needs the previous iteration's score");
        if let Some(e) = eval {
            assert!(-32000 <= e.0 && e.0 <= 32000);
        }
        assert!(depth == LAST_ASP_DEPTH + 1, "iterations must be searched in order 1, 2, 3, ...");
        ASP_CALLS += 1;
        LAST_ASP_DEPTH = depth;
        if kani::any() {
            ABORTED = true;
            // the working copy is left wherever the stop was observed
            let k: u64 = kani::any();
            _g.zobrist = ZobristHash(k);
            // an aborted iteration may have rewritten the line, but only with a searched legal move at its head
            // (C09.unwind.negamax): model as "arbitrary non-empty or unchanged"
            if kani::any() {
                pv.first = Some(Move::quiet(Square::from_index(8), Square::from_index(16)));
            }
            return Err(());
        }
    }
    let m = Move::quiet(Square::from_index(kani::any::<u8>() % 32), Square::from_index(32 + kani::any::<u8>() % 32));
    pv.first = Some(m);
    unsafe { LAST_PV_FIRST = Some(m); }
    let e: i16 = kani::any();
    kani::assume(-32000 <= e && e <= 32000);
    Ok(Eval(e))
}

//@@ body: engine/search/iterative_deepening.rs :: fn search => search__body

fn run(limit: Option<u8>) -> (Option<Move>, PrincipalVariation) {
    let restr = SearchRestrictions { depth: limit };
    let mut ctx = SearchContext { search_restrictions: &restr, max_depth_reached: kani::any(), time_control: GhostTime, tt: GhostTT { generation: kani::any() }, nodes_visited: kani::any(), tbhits: kani::any() };
    let mut pv = PrincipalVariation { first: None };
    let mut rep = GhostReporter;
    unsafe {
        ABORTED = false;
        ASP_CALLS = 0;
        LAST_ASP_DEPTH = 0;
        REPORTS = 0;
        LAST_REPORTED_DEPTH = 0;
        LAST_PV_FIRST = None;
        MAX_DEPTH_SEEN = 0;
        TT_WRITES = 0;
    }
    let r = search__body(&mut Game { zobrist: ZobristHash(ROOT_KEY) }, &mut ctx, &mut pv, &mut rep);
    (r, pv)
}

//@ obligation: C08.depths.iterative
//@ property: C08 C09 C04
//@ domain: bounded(depth limit <= 6; the loop body is identical for every depth)
//@ functions: engine/search/iterative_deepening.rs::search
//@ timeout: 1500
//@ mem_gb: 6
//@ note: body of the iterative-deepening loop against callee contracts, for every depth limit 1..=6 and every stop pattern: iterations are searched in order 1,2,3,..., each completed iteration is reported exactly once with its own depth and a non-empty line, depths never exceed the limit, depth 1 is always attempted, after the first Err nothing more is searched or reported, the previous score is handed to every later iteration, and the move returned is the head of the line of the LAST COMPLETED iteration (None only if not even depth 1 completed)
//@ assumes: callee contracts listed at the top of the contract file
#[kani::proof]
#[kani::unwind(9)]
fn vk_c08_depths_iterative() {
    let limit: u8 = kani::any();
    kani::assume(1 <= limit && limit <= 6);
    let (r, _pv) = run(Some(limit));
    unsafe {
        kani::cover!(REPORTS == 6);
        kani::cover!(ABORTED && REPORTS >= 2);
        assert!(ASP_CALLS >= 1, "depth 1 is always attempted");
        assert!(MAX_DEPTH_SEEN <= limit && LAST_ASP_DEPTH <= limit);
        assert!(REPORTS as u8 == LAST_REPORTED_DEPTH);
        assert!(ASP_CALLS as u8 == LAST_ASP_DEPTH);
        if ABORTED {
            assert!(REPORTS + 1 == ASP_CALLS);
        } else {
            assert!(REPORTS == ASP_CALLS);
        }
        assert!(r == LAST_PV_FIRST);
        assert!(r.is_some() == (REPORTS >= 1));
    }
}
