//@@ module: chess/movegen/gen.rs
//@@ tag: c01
//@@ needs: chess__bitboard@iter.rs chess__board@sym.rs chess__game@sym.rs
// Contracts of the thirteen piece generators (DESIGN C01.gen.*), stated against the ONE-SHOT ITERATOR CONTRACT
// (contracts/kani/chess__bitboard@iter.rs): for every value of the bitboard arguments, every loop iterates exactly the
// set the contract names, and for an arbitrary member the body pushes exactly the moves the contract names (kind flags
// included), once, appended to the list.  No loop is unrolled, so there is no bound on the number of pieces.
use crate::chess::bitboard::verif_kani_iter as iter;
use crate::chess::board::verif_kani_sym as sym;
use crate::chess::game::verif_kani_symgame as symgame;
use crate::chess::piece::{Piece, PieceKind};
use crate::chess::player::Player;
use crate::verif_support::{geo, rules};
use crate::chess::piece::PromotionPieceKind as _PPK;

const SENTINEL: Move = Move::quiet(Square::from_index(0), Square::from_index(63));

fn fresh_list() -> MoveList {
    let mut l = MoveList::new();
    l.push(SENTINEL);
    l
}

/// the list is the sentinel followed by exactly `want[..n]`
fn assert_pushed(list: &MoveList, want: &[Move]) {
    assert!(list.len() == 1 + want.len());
    assert!(list[0] == SENTINEL);
    let mut i = 0;
    while i < want.len() {
        assert!(list[1 + i] == want[i]);
        i += 1;
    }
}

fn bb(x: u64) -> Bitboard {
    Bitboard::new(x)
}

//@ obligation: C01.gen.knight_captures
//@ property: C01
//@ domain: complete
//@ functions: chess/movegen/gen.rs::generate_knight_captures
//@ timeout: 900
//@ mem_gb: 4
//@ note: for all five bitboard arguments: sources are the knights not on any pin ray; for a source a the destinations are knight-steps from a inside the check mask holding an enemy piece; each pushed once as Move::capture
//@ assumes: one-shot iterator contract (C07.bitboard.square_iterator) and independence of loop iterations; table lookups == geometry (C07); ArrayVec::push appends within capacity
#[kani::proof]
#[kani::unwind(10)]
#[kani::stub(<crate::chess::bitboard::SquareIterator as std::iter::Iterator>::next, iter::one_shot_square_next)]
//@@stubs-tables
fn vk_c01_gen_knight_captures() {
    let (pieces, theirs, check_mask, op, dp): (u64, u64, u64, u64, u64) = (kani::any(), kani::any(), kani::any(), kani::any(), kani::any());
    iter::rec_reset();
    let mut list = fresh_list();
    generate_knight_captures(&mut list, bb(pieces), bb(theirs), bb(check_mask), bb(op), bb(dp));
    let mut want: [Move; 1] = [SENTINEL; 1];
    let mut n = 0;
    if let Some(a) = iter::rec_expect(pieces & !(op | dp)) {
        let ai = a.idx();
        if let Some(t) = iter::rec_expect(geo::knight(ai) & check_mask & theirs) {
            want[0] = Move::capture(a, t);
            n = 1;
        }
    }
    iter::rec_done();
    kani::cover!(n == 1);
    assert_pushed(&list, &want[..n]);
}

//@ obligation: C01.gen.knight_quiets
//@ property: C01
//@ domain: complete
//@ functions: chess/movegen/gen.rs::generate_knight_quiets
//@ timeout: 900
//@ mem_gb: 4
//@ note: as knight_captures with empty destination squares and Move::quiet
//@ assumes: one-shot iterator contract (C07.bitboard.square_iterator) and independence of loop iterations; table lookups == geometry (C07); ArrayVec::push appends within capacity
#[kani::proof]
#[kani::unwind(10)]
#[kani::stub(<crate::chess::bitboard::SquareIterator as std::iter::Iterator>::next, iter::one_shot_square_next)]
//@@stubs-tables
fn vk_c01_gen_knight_quiets() {
    let (pieces, all, check_mask, op, dp): (u64, u64, u64, u64, u64) = (kani::any(), kani::any(), kani::any(), kani::any(), kani::any());
    iter::rec_reset();
    let mut list = fresh_list();
    generate_knight_quiets(&mut list, bb(pieces), bb(all), bb(check_mask), bb(op), bb(dp));
    let mut want: [Move; 1] = [SENTINEL; 1];
    let mut n = 0;
    if let Some(a) = iter::rec_expect(pieces & !(op | dp)) {
        let ai = a.idx();
        if let Some(t) = iter::rec_expect(geo::knight(ai) & check_mask & !all) {
            want[0] = Move::quiet(a, t);
            n = 1;
        }
    }
    iter::rec_done();
    kani::cover!(n == 1);
    assert_pushed(&list, &want[..n]);
}

//@ obligation: C01.gen.diagonal_slider_captures
//@ property: C01
//@ domain: complete
//@ functions: chess/movegen/gen.rs::generate_diagonal_slider_captures
//@ timeout: 900
//@ mem_gb: 4
//@ note: sources: bishops/queens not on an orthogonal pin ray; destinations: bishop rays from a (blockers = all pieces) inside the check mask, restricted to the diagonal pin ray when a is on one, holding an enemy piece
//@ assumes: one-shot iterator contract (C07.bitboard.square_iterator) and independence of loop iterations; table lookups == geometry (C07); ArrayVec::push appends within capacity
#[kani::proof]
#[kani::unwind(10)]
#[kani::stub(<crate::chess::bitboard::SquareIterator as std::iter::Iterator>::next, iter::one_shot_square_next)]
//@@stubs-tables
fn vk_c01_gen_diagonal_slider_captures() {
    let (pieces, theirs, all, check_mask, op, dp): (u64, u64, u64, u64, u64, u64) = (kani::any(), kani::any(), kani::any(), kani::any(), kani::any(), kani::any());
    iter::rec_reset();
    let mut list = fresh_list();
    generate_diagonal_slider_captures(&mut list, bb(pieces), bb(theirs), bb(all), bb(check_mask), bb(op), bb(dp));
    let mut want: [Move; 1] = [SENTINEL; 1];
    let mut n = 0;
    if let Some(a) = iter::rec_expect(pieces & !op) {
        let ai = a.idx();
        if let Some(t) = iter::rec_expect(geo::bishop(ai, all) & check_mask & (if dp & (1u64 << ai) != 0 { dp } else { u64::MAX }) & theirs) {
            want[0] = Move::capture(a, t);
            n = 1;
        }
    }
    iter::rec_done();
    kani::cover!(n == 1);
    assert_pushed(&list, &want[..n]);
}

//@ obligation: C01.gen.diagonal_slider_quiets
//@ property: C01
//@ domain: complete
//@ functions: chess/movegen/gen.rs::generate_diagonal_slider_quiets
//@ timeout: 900
//@ mem_gb: 4
//@ note: as diagonal_slider_captures with empty destinations and Move::quiet
//@ assumes: one-shot iterator contract (C07.bitboard.square_iterator) and independence of loop iterations; table lookups == geometry (C07); ArrayVec::push appends within capacity
#[kani::proof]
#[kani::unwind(10)]
#[kani::stub(<crate::chess::bitboard::SquareIterator as std::iter::Iterator>::next, iter::one_shot_square_next)]
//@@stubs-tables
fn vk_c01_gen_diagonal_slider_quiets() {
    let (pieces, all, check_mask, op, dp): (u64, u64, u64, u64, u64) = (kani::any(), kani::any(), kani::any(), kani::any(), kani::any());
    iter::rec_reset();
    let mut list = fresh_list();
    generate_diagonal_slider_quiets(&mut list, bb(pieces), bb(all), bb(check_mask), bb(op), bb(dp));
    let mut want: [Move; 1] = [SENTINEL; 1];
    let mut n = 0;
    if let Some(a) = iter::rec_expect(pieces & !op) {
        let ai = a.idx();
        if let Some(t) = iter::rec_expect(geo::bishop(ai, all) & check_mask & (if dp & (1u64 << ai) != 0 { dp } else { u64::MAX }) & !all) {
            want[0] = Move::quiet(a, t);
            n = 1;
        }
    }
    iter::rec_done();
    kani::cover!(n == 1);
    assert_pushed(&list, &want[..n]);
}

//@ obligation: C01.gen.orthogonal_slider_captures
//@ property: C01
//@ domain: complete
//@ functions: chess/movegen/gen.rs::generate_orthogonal_slider_captures
//@ timeout: 900
//@ mem_gb: 4
//@ note: sources: rooks/queens not on a diagonal pin ray; destinations: rook rays from a inside the check mask, restricted to the orthogonal pin ray when a is on one, holding an enemy piece
//@ assumes: one-shot iterator contract (C07.bitboard.square_iterator) and independence of loop iterations; table lookups == geometry (C07); ArrayVec::push appends within capacity
#[kani::proof]
#[kani::unwind(10)]
#[kani::stub(<crate::chess::bitboard::SquareIterator as std::iter::Iterator>::next, iter::one_shot_square_next)]
//@@stubs-tables
fn vk_c01_gen_orthogonal_slider_captures() {
    let (pieces, theirs, all, check_mask, op, dp): (u64, u64, u64, u64, u64, u64) = (kani::any(), kani::any(), kani::any(), kani::any(), kani::any(), kani::any());
    iter::rec_reset();
    let mut list = fresh_list();
    generate_orthogonal_slider_captures(&mut list, bb(pieces), bb(theirs), bb(all), bb(check_mask), bb(op), bb(dp));
    let mut want: [Move; 1] = [SENTINEL; 1];
    let mut n = 0;
    if let Some(a) = iter::rec_expect(pieces & !dp) {
        let ai = a.idx();
        if let Some(t) = iter::rec_expect(geo::rook(ai, all) & check_mask & (if op & (1u64 << ai) != 0 { op } else { u64::MAX }) & theirs) {
            want[0] = Move::capture(a, t);
            n = 1;
        }
    }
    iter::rec_done();
    kani::cover!(n == 1);
    assert_pushed(&list, &want[..n]);
}

//@ obligation: C01.gen.orthogonal_slider_quiets
//@ property: C01
//@ domain: complete
//@ functions: chess/movegen/gen.rs::generate_orthogonal_slider_quiets
//@ timeout: 900
//@ mem_gb: 4
//@ note: as orthogonal_slider_captures with empty destinations and Move::quiet
//@ assumes: one-shot iterator contract (C07.bitboard.square_iterator) and independence of loop iterations; table lookups == geometry (C07); ArrayVec::push appends within capacity
#[kani::proof]
#[kani::unwind(10)]
#[kani::stub(<crate::chess::bitboard::SquareIterator as std::iter::Iterator>::next, iter::one_shot_square_next)]
//@@stubs-tables
fn vk_c01_gen_orthogonal_slider_quiets() {
    let (pieces, all, check_mask, op, dp): (u64, u64, u64, u64, u64) = (kani::any(), kani::any(), kani::any(), kani::any(), kani::any());
    iter::rec_reset();
    let mut list = fresh_list();
    generate_orthogonal_slider_quiets(&mut list, bb(pieces), bb(all), bb(check_mask), bb(op), bb(dp));
    let mut want: [Move; 1] = [SENTINEL; 1];
    let mut n = 0;
    if let Some(a) = iter::rec_expect(pieces & !dp) {
        let ai = a.idx();
        if let Some(t) = iter::rec_expect(geo::rook(ai, all) & check_mask & (if op & (1u64 << ai) != 0 { op } else { u64::MAX }) & !all) {
            want[0] = Move::quiet(a, t);
            n = 1;
        }
    }
    iter::rec_done();
    kani::cover!(n == 1);
    assert_pushed(&list, &want[..n]);
}

// ---- CONTRACT FUNCTION standing in for attackers::generate_attackers_of in the generators that test squares for
// attack: it records the position / colour / square it was asked about and answers with an ARBITRARY attacker set.
// What the real function answers is pinned down by C01.attackers.exact (bit a set iff the enemy piece on a attacks the
// square under the rules); the generator's contract is: it asks about the RIGHT position and square and pushes the move
// iff the answer is "no attacker".
pub const ATT_N: usize = 4;
pub static mut ATT_CALLS: usize = 0;
pub static mut ATT_PLAYER: [Option<Player>; ATT_N] = [None; ATT_N];
pub static mut ATT_SQUARE: [u8; ATT_N] = [0; ATT_N];
pub static mut ATT_ANSWER: [u64; ATT_N] = [0; ATT_N];
pub static mut ATT_POSITION_OK: [bool; ATT_N] = [false; ATT_N];
/// what position the harness expects the attack test to be made on: the original mailbox with up to three squares
/// rewritten (set by the harness before the call, or -- for en passant, where the capturer is only known once the loop
/// has yielded it -- completed from the iterator record at call time)
pub static mut EXPECT_MB: Option<sym::Mailbox> = None;
pub static mut EXPECT_LIFT: Option<u8> = None; // square emptied (our king)
pub static mut EXPECT_EP: Option<(u8, u8, Player)> = None; // (ep square, victim square, mover): capturer = last yielded square
pub fn attackers_contract(board: &crate::chess::board::Board, player: Player, square: Square) -> Bitboard {
    let ans: u64 = kani::any();
    unsafe {
        assert!(ATT_CALLS < ATT_N);
        let mut want = EXPECT_MB.unwrap();
        if let Some(k) = EXPECT_LIFT {
            want[k as usize] = None;
        }
        if let Some((ep, victim, mover)) = EXPECT_EP {
            let capturer = iter::yielded(iter::calls() - 1);
            want[capturer.array_idx()] = None;
            want[victim as usize] = None;
            want[ep as usize] = Some(Piece::new(mover, PieceKind::Pawn));
        }
        ATT_POSITION_OK[ATT_CALLS] = sym::boards_equal(board, &sym::board_of(&want));
        ATT_PLAYER[ATT_CALLS] = Some(player);
        ATT_SQUARE[ATT_CALLS] = square.idx();
        ATT_ANSWER[ATT_CALLS] = ans;
        ATT_CALLS += 1;
    }
    Bitboard::new(ans)
}
/// the k-th attack query was about the expected position, colour `player`, square `sq`; returns "no attacker"
fn att_expect(k: usize, player: Player, sq: u8) -> bool {
    unsafe {
        assert!(k < ATT_CALLS, "an attack test is missing");
        assert!(ATT_PLAYER[k] == Some(player) && ATT_SQUARE[k] == sq, "attack test about the wrong colour / square");
        assert!(ATT_POSITION_OK[k], "attack test on the wrong position");
        ATT_ANSWER[k] == 0
    }
}
fn att_reset(mb: &sym::Mailbox) {
    unsafe {
        ATT_CALLS = 0;
        EXPECT_MB = Some(*mb);
        EXPECT_LIFT = None;
        EXPECT_EP = None;
    }
}

// ---------------------------------------------------------------------------------------------------------------
// pawns, king, castling: these read the position, so the board is the fully symbolic board and the bitboard
// arguments are the ones the orchestrating functions pass (C01.orchestrate.*); check mask and pin masks stay arbitrary.
// ---------------------------------------------------------------------------------------------------------------

fn fwd(player: Player) -> i8 {
    if player == Player::White { 1 } else { -1 }
}
fn rel_rank(player: Player, sq: u8) -> i8 {
    let r = geo::rank(sq);
    if player == Player::White { r } else { 7 - r }
}
fn has(set: u64, sq: u8) -> bool {
    set & (1u64 << sq) != 0
}
/// the square `n` steps forward of `sq` for `player`, if on the board
fn ahead(player: Player, sq: u8, n: i8) -> Option<u8> {
    let r = geo::rank(sq) + n * fwd(player);
    if 0 <= r && r < 8 { Some((r * 8 + geo::file(sq)) as u8) } else { None }
}
/// set builder over the 64 squares (constant 8x8 loop)
fn set_of(pred: impl Fn(u8) -> bool) -> u64 {
    let mut out = 0u64;
    let mut r: u8 = 0;
    while r < 8 {
        let mut f: u8 = 0;
        while f < 8 {
            let s = r * 8 + f;
            if pred(s) {
                out |= 1u64 << s;
            }
            f += 1;
        }
        r += 1;
    }
    out
}

/// can this pawn advance one square as far as occupancy, check mask and a diagonal pin are concerned?
fn can_push_once(player: Player, pawns: u64, all: u64, check_mask: u64, dp: u64, s: u8) -> bool {
    has(pawns, s) && !has(dp, s) && matches!(ahead(player, s, 1), Some(t) if !has(all, t) && has(check_mask, t))
}

//@ obligation: C01.gen.pawn_quiets
//@ property: C01
//@ domain: complete
//@ functions: chess/movegen/gen.rs::generate_pawn_quiets
//@ timeout: 1500
//@ mem_gb: 6
//@ note: for all bitboard arguments and both colours, in coordinates: (1) under-promotions R,N,B for every pawn on its 7th rank that can advance (square ahead empty and in the check mask, pawn not diagonally pinned) unless it is orthogonally pinned; (2) single pushes for the other pawns that can advance, unless orthogonally pinned off the file (pin ray does not contain the target); (3) double pushes from the start rank when both squares ahead are empty, the target is in the check mask, same pin rule -- each once, as Move::quiet / Move::quiet_promotion
//@ assumes: one-shot iterator contract and independence of loop iterations; ArrayVec::push appends within capacity
#[kani::proof]
#[kani::unwind(10)]
#[kani::stub(<crate::chess::bitboard::SquareIterator as std::iter::Iterator>::next, iter::one_shot_square_next)]
fn vk_c01_gen_pawn_quiets() {
    let game = symgame::game_with_board(sym::empty_board());
    let player = game.player;
    let (pawns, all, check_mask, op, dp): (u64, u64, u64, u64, u64) = (kani::any(), kani::any(), kani::any(), kani::any(), kani::any());
    iter::rec_reset();
    let mut list = fresh_list();
    generate_pawn_quiets(&mut list, &game, bb(pawns), bb(all), bb(check_mask), bb(op), bb(dp));
    let mut want: [Move; 5] = [SENTINEL; 5];
    let mut n = 0;
    // (1) under-promotions
    let s1 = set_of(|s| can_push_once(player, pawns, all, check_mask, dp, s) && rel_rank(player, s) == 6);
    if let Some(a) = iter::rec_expect(s1) {
        if !has(op, a.idx()) {
            let t = Square::from_index(ahead(player, a.idx(), 1).unwrap());
            want[n] = Move::quiet_promotion(a, t, PromotionPieceKind::Rook);
            want[n + 1] = Move::quiet_promotion(a, t, PromotionPieceKind::Knight);
            want[n + 2] = Move::quiet_promotion(a, t, PromotionPieceKind::Bishop);
            n += 3;
        }
    }
    // (2) single pushes
    let s2 = set_of(|s| can_push_once(player, pawns, all, check_mask, dp, s) && rel_rank(player, s) != 6);
    if let Some(a) = iter::rec_expect(s2) {
        let t = ahead(player, a.idx(), 1).unwrap();
        if !has(op, a.idx()) || has(op, t) {
            want[n] = Move::quiet(a, Square::from_index(t));
            n += 1;
        }
    }
    // (3) double pushes
    let s3 = set_of(|s| {
        has(pawns, s) && !has(dp, s) && rel_rank(player, s) == 1
            && matches!((ahead(player, s, 1), ahead(player, s, 2)), (Some(m), Some(t)) if !has(all, m) && !has(all, t) && has(check_mask, t))
    });
    if let Some(a) = iter::rec_expect(s3) {
        let t = ahead(player, a.idx(), 2).unwrap();
        if !has(op, a.idx()) || has(op, t) {
            want[n] = Move::quiet(a, Square::from_index(t));
            n += 1;
        }
    }
    iter::rec_done();
    kani::cover!(n == 5);
    assert_pushed(&list, &want[..n]);
}

/// destinations of a capturing pawn: the two forward diagonals, inside the targets, on the pin ray if diagonally pinned
fn pawn_capture_dests(player: Player, a: u8, targets: u64, dp: u64) -> u64 {
    geo::pawn(a, player == Player::White) & targets & (if has(dp, a) { dp } else { u64::MAX })
}

//@ obligation: C01.gen.pawn_captures
//@ property: C01
//@ domain: complete
//@ functions: chess/movegen/gen.rs::generate_pawn_captures
//@ timeout: 2400
//@ mem_gb: 8
//@ note: fully symbolic board (exactly one king of the mover), arbitrary check/pin masks, both colours: (1) capturing promotions Q,R,N,B and (3) plain captures for pawns not orthogonally pinned onto enemy pieces inside the check mask (along the pin ray if diagonally pinned); (2) queen push-promotions; (4) EN PASSANT IN FIDE TERMS: for a pawn that attacks the ep square, is not orthogonally pinned, with the check mask containing the ep square or the victim, and either not diagonally pinned or capturing along the pin ray, the move is pushed iff AFTER THE CAPTURE (capturer on the ep square, victim removed) the mover's king is not attacked under the rules
//@ assumes: one-shot iterator contract and independence of loop iterations; table lookups == geometry (C07); ArrayVec::push appends within capacity
#[kani::proof]
#[kani::unwind(10)]
#[kani::stub(<crate::chess::bitboard::SquareIterator as std::iter::Iterator>::next, iter::one_shot_square_next)]
#[kani::stub(crate::chess::movegen::attackers::generate_attackers_of, attackers_contract)]
//@@stubs-tables
fn vk_c01_gen_pawn_captures() {
    let mb = sym::any_mailbox();
    let game = symgame::game_with_board(sym::board_of(&mb));
    let player = game.player;
    let them = player.other();
    kani::assume(rules::count_piece(&mb, Piece::new(player, PieceKind::King)) == 1);
    let king = rules::king_square(&mb, player);
    // legal position: an ep target is an empty square on the mover's 6th rank with the enemy pawn in front of it
    if let Some(ep) = game.en_passant_target {
        kani::assume(rel_rank(player, ep.idx()) == 5 && mb[ep.array_idx()].is_none());
        kani::assume(mb[ahead(player, ep.idx(), -1).unwrap() as usize] == Some(Piece::new(them, PieceKind::Pawn)));
    }
    let pawns = game.board.pawns(player).as_u64();
    let theirs = game.board.occupancy_for(them).as_u64();
    let all = game.board.occupancy().as_u64();
    let (check_mask, op, dp): (u64, u64, u64) = (kani::any(), kani::any(), kani::any());
    iter::rec_reset();
    att_reset(&mb);
    if let Some(ep) = game.en_passant_target {
        // FIDE: the king must be safe in the position AFTER the capture: capturer on the ep square, victim removed
        unsafe { EXPECT_EP = Some((ep.idx(), ahead(player, ep.idx(), -1).unwrap(), player)); }
    }
    let mut list = fresh_list();
    generate_pawn_captures(&mut list, &game, bb(pawns), Square::from_index(king), bb(theirs), bb(all), bb(check_mask), bb(op), bb(dp));
    let mut want: [Move; 7] = [SENTINEL; 7];
    let mut n = 0;
    let mut att_used = 0;
    let targets = theirs & check_mask;
    // (1) capturing promotions
    let s1 = set_of(|s| has(pawns, s) && !has(op, s) && rel_rank(player, s) == 6);
    if let Some(a) = iter::rec_expect(s1) {
        if let Some(t) = iter::rec_expect(pawn_capture_dests(player, a.idx(), targets, dp)) {
            want[n] = Move::capture_promotion(a, t, PromotionPieceKind::Queen);
            want[n + 1] = Move::capture_promotion(a, t, PromotionPieceKind::Rook);
            want[n + 2] = Move::capture_promotion(a, t, PromotionPieceKind::Knight);
            want[n + 3] = Move::capture_promotion(a, t, PromotionPieceKind::Bishop);
            n += 4;
        }
    }
    // (2) queen promotions by pushing
    let s2 = set_of(|s| can_push_once(player, pawns, all, check_mask, dp, s) && rel_rank(player, s) == 6);
    if let Some(a) = iter::rec_expect(s2) {
        if !has(op, a.idx()) {
            want[n] = Move::quiet_promotion(a, Square::from_index(ahead(player, a.idx(), 1).unwrap()), PromotionPieceKind::Queen);
            n += 1;
        }
    }
    // (3) plain captures
    let s3 = set_of(|s| has(pawns, s) && !has(op, s) && rel_rank(player, s) != 6);
    if let Some(a) = iter::rec_expect(s3) {
        if let Some(t) = iter::rec_expect(pawn_capture_dests(player, a.idx(), targets, dp)) {
            want[n] = Move::capture(a, t);
            n += 1;
        }
    }
    // (4) en passant
    if let Some(ep) = game.en_passant_target {
        let epi = ep.idx();
        let victim = ahead(player, epi, -1).unwrap();
        if has(check_mask, epi) || has(check_mask, victim) {
            let s4 = set_of(|s| has(pawns, s) && !has(op, s) && has(geo::pawn(s, player == Player::White), epi));
            if let Some(a) = iter::rec_expect(s4) {
                if !has(dp, a.idx()) || has(dp, epi) {
                    // the attack test must be about the position AFTER the capture, our colour, our king's square
                    if att_expect(0, player, king) {
                        want[n] = Move::en_passant(a, ep);
                        n += 1;
                    }
                    att_used = 1;
                }
            }
        }
    }
    iter::rec_done();
    assert!(unsafe { ATT_CALLS } == att_used);
    kani::cover!(n >= 6);
    kani::cover!(game.en_passant_target.is_some() && n >= 1 && list.len() >= 2 && list[list.len() - 1].is_en_passant());
    assert_pushed(&list, &want[..n]);
}

//@ obligation: C01.gen.king_captures
//@ property: C01
//@ domain: complete
//@ functions: chess/movegen/gen.rs::generate_king_captures
//@ timeout: 2400
//@ mem_gb: 8
//@ note: fully symbolic board with the mover's king on `king`: the candidate destinations are the king-ring squares holding an enemy piece, and for an arbitrary one the capture is pushed iff, with our king lifted off the board, no enemy piece attacks that square under the rules (so squares behind the king on a slider's ray and defended pieces are excluded)
//@ assumes: one-shot iterator contract and independence of loop iterations; table lookups == geometry (C07)
#[kani::proof]
#[kani::unwind(10)]
#[kani::stub(<crate::chess::bitboard::SquareIterator as std::iter::Iterator>::next, iter::one_shot_square_next)]
#[kani::stub(crate::chess::movegen::attackers::generate_attackers_of, attackers_contract)]
//@@stubs-tables
fn vk_c01_gen_king_captures() {
    king_gen(true);
}

//@ obligation: C01.gen.king_quiets
//@ property: C01
//@ domain: complete
//@ functions: chess/movegen/gen.rs::generate_king_quiets
//@ timeout: 2400
//@ mem_gb: 8
//@ note: as king_captures for empty king-ring squares, pushed as Move::quiet
//@ assumes: one-shot iterator contract and independence of loop iterations; table lookups == geometry (C07)
#[kani::proof]
#[kani::unwind(10)]
#[kani::stub(<crate::chess::bitboard::SquareIterator as std::iter::Iterator>::next, iter::one_shot_square_next)]
#[kani::stub(crate::chess::movegen::attackers::generate_attackers_of, attackers_contract)]
//@@stubs-tables
fn vk_c01_gen_king_quiets() {
    king_gen(false);
}

fn king_gen(captures: bool) {
    let mb = sym::any_mailbox();
    let game = symgame::game_with_board(sym::board_of(&mb));
    let player = game.player;
    let them = player.other();
    let king = geo::any_square();
    kani::assume(mb[king.array_idx()] == Some(Piece::new(player, PieceKind::King)));
    let theirs = game.board.occupancy_for(them).as_u64();
    let all = game.board.occupancy().as_u64();
    iter::rec_reset();
    att_reset(&mb);
    unsafe { EXPECT_LIFT = Some(king.idx()); }
    let mut list = fresh_list();
    if captures {
        generate_king_captures(&mut list, &game, king, bb(theirs));
    } else {
        generate_king_quiets(&mut list, &game, king, bb(all));
    }
    let mut want: [Move; 1] = [SENTINEL; 1];
    let mut n = 0;
    let ring = geo::king(king.idx());
    let cand = if captures { ring & theirs } else { ring & !all };
    if let Some(t) = iter::rec_expect(cand) {
        // the attack test is about the position with OUR KING LIFTED off the board (so squares behind the king on a
        // slider's ray are seen as attacked), our colour, the destination square
        if att_expect(0, player, t.idx()) {
            want[0] = if captures { Move::capture(king, t) } else { Move::quiet(king, t) };
            n = 1;
        }
        assert!(unsafe { ATT_CALLS } == 1);
    } else {
        assert!(unsafe { ATT_CALLS } == 0);
    }
    iter::rec_done();
    kani::cover!(n == 1);
    kani::cover!(n == 0 && cand != 0);
    assert_pushed(&list, &want[..n]);
}

//@ obligation: C01.gen.castles
//@ property: C01
//@ domain: complete
//@ functions: chess/movegen/gen.rs::generate_castles, chess/movegen/gen.rs::generate_castle_move_for_side, chess/bitboard.rs::mod bitboards / fn castle_squares
//@ timeout: 2400
//@ mem_gb: 8
//@ note: fully symbolic board, both colours (called only when the king is not in check -- C01.orchestrate): king-side castling e1g1/e8g8 is pushed iff the right is held, f and g are empty and neither is attacked; queen-side e1c1/e8c8 iff the right is held, b, c and d are empty and neither c nor d is attacked; king-side first; flagged Move::castles
//@ assumes: table lookups == geometry (C07); rights imply king and rook on their home squares (legal position)
#[kani::proof]
#[kani::unwind(10)]
#[kani::stub(crate::chess::movegen::attackers::generate_attackers_of, attackers_contract)]
//@@stubs-tables
fn vk_c01_gen_castles() {
    let mb = sym::any_mailbox();
    let game = symgame::game_with_board(sym::board_of(&mb));
    let player = game.player;
    let them = player.other();
    let all = game.board.occupancy().as_u64();
    att_reset(&mb);
    let mut list = fresh_list();
    generate_castles(&mut list, &game, bb(all));
    let h: u8 = if player == Player::White { 0 } else { 56 };
    let r = game.castle_rights.for_player(player);
    let empty = |s: u8| mb[s as usize].is_none();
    let mut want: [Move; 2] = [SENTINEL; 2];
    let mut n = 0;
    let mut q = 0; // attack queries consumed, in order: transit square first, then the king's destination
    if r.king_side && empty(h + 5) && empty(h + 6) {
        let transit_safe = att_expect(q, player, h + 5);
        q += 1;
        if transit_safe {
            let dest_safe = att_expect(q, player, h + 6);
            q += 1;
            if dest_safe {
                want[n] = Move::castles(Square::from_index(h + 4), Square::from_index(h + 6));
                n += 1;
            }
        }
    }
    if r.queen_side && empty(h + 1) && empty(h + 2) && empty(h + 3) {
        let transit_safe = att_expect(q, player, h + 3);
        q += 1;
        if transit_safe {
            let dest_safe = att_expect(q, player, h + 2);
            q += 1;
            if dest_safe {
                want[n] = Move::castles(Square::from_index(h + 4), Square::from_index(h + 2));
                n += 1;
            }
        }
    }
    assert!(unsafe { ATT_CALLS } == q);
    kani::cover!(n == 2);
    assert_pushed(&list, &want[..n]);
}

//@ obligation: C01.canary.gen
//@ property: C01
//@ canary: true
//@ timeout: 900
#[kani::proof]
#[kani::unwind(10)]
#[kani::stub(<crate::chess::bitboard::SquareIterator as std::iter::Iterator>::next, iter::one_shot_square_next)]
//@@stubs-tables
fn vk_c01_canary_gen() {
    let (pieces, theirs, check_mask, op, dp): (u64, u64, u64, u64, u64) = (kani::any(), kani::any(), kani::any(), kani::any(), kani::any());
    iter::rec_reset();
    let mut list = fresh_list();
    generate_knight_captures(&mut list, bb(pieces), bb(theirs), bb(check_mask), bb(op), bb(dp));
    assert!(list.len() == 1); // must FAIL: some arguments produce a capture
}
