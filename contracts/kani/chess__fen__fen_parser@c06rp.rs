//@@ module: chess/fen/fen_parser.rs
//@@ tag: c06rp
//@@ noglob: nom / Vec are bound by scope to ghost stand-ins (support/gnom.rs)
// fen_position (the board field as a whole) against a TAGGING contract of fen_line -- kept in a contract file of its own
// because the contract function builds a FenRank value directly: a change of FenRank's representation loses THIS anchor
// only (exit 2 for this obligation) and does not mask what the field-parser obligations of @c06r.rs decide.
use crate::chess::piece::{Piece, PieceKind};
use crate::chess::player::Player;
use crate::chess::square::Square;

fn spec_piece(c: u8) -> Option<Piece> {
    let kind = match c | 32 {
        b'p' => PieceKind::Pawn,
        b'n' => PieceKind::Knight,
        b'b' => PieceKind::Bishop,
        b'r' => PieceKind::Rook,
        b'q' => PieceKind::Queen,
        b'k' => PieceKind::King,
        _ => return None,
    };
    if c < b'A' || (c > b'Z' && c < b'a') || c > b'z' {
        return None;
    }
    Some(Piece::new(if c & 32 == 0 { Player::White } else { Player::Black }, kind))
}
fn tag_piece(t: u8) -> Option<Piece> {
    // thirteen distinguishable square contents, indexed by the tag letter 'a'..='m'
    spec_piece(match t {
        0 => b'P', 1 => b'N', 2 => b'B', 3 => b'R', 4 => b'Q', 5 => b'K',
        6 => b'p', 7 => b'n', 8 => b'b', 9 => b'r', 10 => b'q', 11 => b'k',
        _ => b'-',
    })
}

/// fen_position against a tagging contract of fen_line: shows which line went to which rank, and the separators
pub mod g_pos {
    #![no_implicit_prelude]
    use ::core::prelude::rust_2021::*;
    use ::core::assert_eq;
    use crate::verif_support::gnom as nom;
    use crate::verif_support::gnom::{character::complete::char, combinator::map, sequence::{preceded, tuple}, IResult};
    use crate::chess::piece::Piece;
    use crate::chess::square::{File, Square};

    /// ghost carrier of the assembled board: the by-square array handed to Board's constructor (what the real constructor
    /// builds from it: C02.board.try_from_agrees)
    pub struct Board(pub [Option<Piece>; 64]);
    impl TryFrom<[Option<Piece>; 64]> for Board {
        type Error = ();
        fn try_from(a: [Option<Piece>; 64]) -> Result<Self, ()> {
            Ok(Board(a))
        }
    }

    /// ghost Vec of this scope -- a ROPE of rank tokens: it remembers which tokens were appended in which order (each token
    /// stands for eight squares holding the token's tag piece) and its length; offers exactly what the board assembly uses
    /// (new / extend / len / try_into an array of 64)
    #[derive(Clone, Copy)]
    pub struct Vec<T> {
        pub tags: [u8; 8],
        pub k: usize,
        pub n: usize,
        pub _p: ::core::marker::PhantomData<T>,
    }
    impl<T> Vec<T> {
        pub fn new() -> Self {
            Vec { tags: [0; 8], k: 0, n: 0, _p: ::core::marker::PhantomData }
        }
        pub fn len(&self) -> usize {
            self.n
        }
        pub fn extend(&mut self, o: Vec<T>) {
            let mut i = 0;
            while i < 8 {
                if i < o.k {
                    ::kani::assume(self.k < 8);
                    self.tags[self.k] = o.tags[i];
                    self.k += 1;
                }
                i += 1;
            }
            self.n += o.n;
        }
    }
    impl Vec<Option<Piece>> {
        /// Vec<T> -> [T; 64]: succeeds exactly when the length is 64
        pub fn try_into(self) -> Result<[Option<Piece>; 64], ()> {
            if self.n != 64 || self.k != 8 {
                return Err(());
            }
            let mut a = [None; 64];
            let mut i = 0;
            while i < 64 {
                a[i] = super::tag_piece(self.tags[i / 8]);
                i += 1;
            }
            Ok(a)
        }
    }
    impl<T> ::core::fmt::Debug for Vec<T> {
        fn fmt(&self, _f: &mut ::core::fmt::Formatter<'_>) -> ::core::fmt::Result {
            Ok(())
        }
    }
    //@@ item: chess/fen/fen_parser.rs :: struct FenRank
    /// CONTRACT of fen_line as seen by fen_position: consumes one rank token (here: one tag letter 'a'..='m') and returns
    /// eight squares (here: all holding the tag's piece) -- what a rank token really is: C06.reader.rank
    pub fn fen_line(input: &str) -> IResult<&str, FenRank> {
        let b = input.as_bytes();
        if b.len() >= 1 && b[0] >= b'a' && b[0] <= b'm' {
            let mut v = Vec::new();
            v.tags[0] = b[0] - b'a';
            v.k = 1;
            v.n = 8;
            return Ok((&input[1..], FenRank(v)));
        }
        Err(nom::Err::Error(nom::error::Error::new(input, nom::error::ErrorKind::OneOf)))
    }
    //@@ body: chess/fen/fen_parser.rs :: fn fen_position => fen_position pub
}


const LP: usize = 17;
fn any_ascii_p(buf: &mut [u8; LP]) -> &str {
    let n: usize = kani::any();
    kani::assume(n <= LP);
    let mut i = 0;
    while i < LP {
        buf[i] = kani::any();
        kani::assume(buf[i] < 128);
        i += 1;
    }
    unsafe { core::str::from_utf8_unchecked(&buf[..n]) }
}

//@ obligation: C06.reader.position_layout
//@ domain: bounded(ASCII input of <= 17 bytes: eight one-byte rank tokens, seven separators, two more)
//@ functions: chess/fen/fen_parser.rs::fen_position
//@ timeout: 1800
//@ mem_gb: 8
//@ note: fen_position against a tagging contract of fen_line: it is total, accepts exactly eight rank tokens separated by single '/' (no leading, doubled or trailing separator needed), returns the rest of the input, and the FIRST token becomes rank 8, the last rank 1, each rank's squares in the order the token gave them (a..h) -- for every sequence of tokens; the assembly closure's own safety for eight ranks of eight squares is C06.position.assemble
//@ assumes: ghost nom library; callee contract C06.reader.rank; Board's constructor from the by-square array (C02.board.try_from_agrees)
#[kani::proof]
#[kani::unwind(66)]
fn vk_c06_reader_position_layout() {
    let mut buf = [0u8; LP];
    let s = any_ascii_p(&mut buf);
    let b = s.as_bytes();
    let r = g_pos::fen_position(s);
    // spec: t/t/t/t/t/t/t/t
    let mut ok = b.len() >= 15;
    let mut k = 0;
    while k < 15 {
        if ok {
            if k % 2 == 0 {
                ok = b[k] >= b'a' && b[k] <= b'm';
            } else {
                ok = b[k] == b'/';
            }
        }
        k += 1;
    }
    kani::cover!(ok);
    kani::cover!(!ok && b.len() == 15);
    match r {
        Ok((rest, board)) => {
            assert!(ok, "a board field that is not eight rank tokens separated by '/' was accepted");
            assert!(rest.len() + 15 == s.len());
            let sq: u8 = kani::any();
            kani::assume(sq < 64);
            let token = 7 - (sq / 8) as usize; // rank 8 is written first
            assert!(board.0[sq as usize] == tag_piece(b[token * 2] - b'a'), "rank tokens assigned to the wrong ranks");
        }
        Err(_) => assert!(!ok, "a well-formed board field was rejected"),
    }
}

