//@@ module: chess/movegen/gen.rs
//@@ tag: c01orch
//@@ needs: chess__board@sym.rs chess__game@sym.rs
// Bodies of generate_captures / generate_quiets / generate_legal_moves verified AGAINST THE CONTRACTS OF THEIR CALLEES:
// the three function texts are copied verbatim from /repo on every run (sha256 in the evidence) into this module, where
// the thirteen generator names are bound to RECORDING contract functions (ghost log of which generator was called with
// which arguments).  attackers::generate_attackers_of, pins::get_pins and tables::between stay the real functions
// (their own contracts: C01.attackers.exact, C01.pins.exact, C07).
use crate::chess::board::verif_kani_sym as sym;
use crate::chess::game::verif_kani_symgame as symgame;
use crate::chess::piece::{Piece, PieceKind};
use crate::chess::player::Player;
use crate::verif_support::{geo, rules};

pub const LOG_N: usize = 16;
pub static mut LOG_LEN: usize = 0;
pub static mut LOG_ID: [u8; LOG_N] = [0; LOG_N];
pub static mut LOG_ARGS: [[u64; 7]; LOG_N] = [[0; 7]; LOG_N];

fn log(id: u8, args: [u64; 7]) {
    unsafe {
        assert!(LOG_LEN < LOG_N);
        LOG_ID[LOG_LEN] = id;
        LOG_ARGS[LOG_LEN] = args;
        LOG_LEN += 1;
    }
}
fn expect(k: usize, id: u8, args: [u64; 7]) {
    unsafe {
        assert!(k < LOG_LEN, "a generator call is missing");
        assert!(LOG_ID[k] == id, "generators called in a different order / wrong generator");
        let a = &LOG_ARGS[k];
        assert!(
            a[0] == args[0] && a[1] == args[1] && a[2] == args[2] && a[3] == args[3] && a[4] == args[4] && a[5] == args[5] && a[6] == args[6],
            "generator called with the wrong arguments"
        );
    }
}

const PAWN_C: u8 = 1;
const KNIGHT_C: u8 = 2;
const DIAG_C: u8 = 3;
const ORTH_C: u8 = 4;
const KING_C: u8 = 5;
const PAWN_Q: u8 = 6;
const KNIGHT_Q: u8 = 7;
const DIAG_Q: u8 = 8;
const ORTH_Q: u8 = 9;
const KING_Q: u8 = 10;
const CASTLES: u8 = 11;
const CAPTURES: u8 = 12;
const QUIETS: u8 = 13;

fn u(b: Bitboard) -> u64 {
    b.as_u64()
}

// ---- recording contract functions (same signatures as the real generators) ----
fn generate_pawn_captures(_m: &mut MoveList, _g: &Game, pawns: Bitboard, king: Square, their: Bitboard, all: Bitboard, cm: Bitboard, op: Bitboard, dp: Bitboard) {
    log(PAWN_C, [u(pawns), king.idx() as u64, u(their), u(all), u(cm), u(op), u(dp)]);
}
fn generate_knight_captures(_m: &mut MoveList, pieces: Bitboard, their: Bitboard, cm: Bitboard, op: Bitboard, dp: Bitboard) {
    log(KNIGHT_C, [u(pieces), u(their), u(cm), u(op), u(dp), 0, 0]);
}
fn generate_diagonal_slider_captures(_m: &mut MoveList, pieces: Bitboard, their: Bitboard, all: Bitboard, cm: Bitboard, op: Bitboard, dp: Bitboard) {
    log(DIAG_C, [u(pieces), u(their), u(all), u(cm), u(op), u(dp), 0]);
}
fn generate_orthogonal_slider_captures(_m: &mut MoveList, pieces: Bitboard, their: Bitboard, all: Bitboard, cm: Bitboard, op: Bitboard, dp: Bitboard) {
    log(ORTH_C, [u(pieces), u(their), u(all), u(cm), u(op), u(dp), 0]);
}
fn generate_king_captures(_m: &mut MoveList, _g: &Game, king: Square, their: Bitboard) {
    log(KING_C, [king.idx() as u64, u(their), 0, 0, 0, 0, 0]);
}
fn generate_pawn_quiets(_m: &mut MoveList, _g: &Game, pawns: Bitboard, all: Bitboard, cm: Bitboard, op: Bitboard, dp: Bitboard) {
    log(PAWN_Q, [u(pawns), u(all), u(cm), u(op), u(dp), 0, 0]);
}
fn generate_knight_quiets(_m: &mut MoveList, pieces: Bitboard, all: Bitboard, cm: Bitboard, op: Bitboard, dp: Bitboard) {
    log(KNIGHT_Q, [u(pieces), u(all), u(cm), u(op), u(dp), 0, 0]);
}
fn generate_diagonal_slider_quiets(_m: &mut MoveList, pieces: Bitboard, all: Bitboard, cm: Bitboard, op: Bitboard, dp: Bitboard) {
    log(DIAG_Q, [u(pieces), u(all), u(cm), u(op), u(dp), 0, 0]);
}
fn generate_orthogonal_slider_quiets(_m: &mut MoveList, pieces: Bitboard, all: Bitboard, cm: Bitboard, op: Bitboard, dp: Bitboard) {
    log(ORTH_Q, [u(pieces), u(all), u(cm), u(op), u(dp), 0, 0]);
}
fn generate_king_quiets(_m: &mut MoveList, _g: &Game, king: Square, all: Bitboard) {
    log(KING_Q, [king.idx() as u64, u(all), 0, 0, 0, 0, 0]);
}
fn generate_castles(_m: &mut MoveList, _g: &Game, all: Bitboard) {
    log(CASTLES, [u(all), 0, 0, 0, 0, 0, 0]);
}

// ---- callee contracts for the two position analyses (their own contracts: C01.attackers.exact, C01.pins.exact) ----
pub static mut ATTQ: Option<(usize, Player, u8)> = None; // (address of the board asked about, colour, square)
pub static mut ATTQ_CALLS: u8 = 0;
pub static mut ATT_ANSWER: u64 = 0;
pub static mut PINQ: Option<(usize, Player, u8)> = None;
pub static mut PINQ_CALLS: u8 = 0;
pub static mut PIN_ANSWER: (u64, u64) = (0, 0);
pub fn attackers_contract(board: &crate::chess::board::Board, player: Player, square: Square) -> Bitboard {
    unsafe {
        ATTQ = Some((board as *const _ as usize, player, square.idx()));
        ATTQ_CALLS += 1;
        ATT_ANSWER = kani::any();
        Bitboard::new(ATT_ANSWER)
    }
}
pub fn pins_contract(board: &crate::chess::board::Board, player: Player, king: Square) -> (Bitboard, Bitboard) {
    unsafe {
        PINQ = Some((board as *const _ as usize, player, king.idx()));
        PINQ_CALLS += 1;
        PIN_ANSWER = (kani::any(), kani::any());
        (Bitboard::new(PIN_ANSWER.0), Bitboard::new(PIN_ANSWER.1))
    }
}

//@@ body: chess/movegen/gen.rs :: fn generate_captures => generate_captures__body
//@@ body: chess/movegen/gen.rs :: fn generate_quiets => generate_quiets__body

mod legal_scope {
    use super::*;
    // in this scope the two halves are recorders as well
    pub fn generate_captures(game: &Game, _m: &mut MoveList, cache: &mut MovegenCache) {
        log(CAPTURES, [game as *const Game as u64, 0, 0, 0, 0, 0, 0]);
        cache.checkers = Bitboard::new(0xC0FFEE); // ghost marker: "written by generate_captures"
    }
    pub fn generate_quiets(game: &Game, _m: &mut MoveList, cache: &MovegenCache) {
        log(QUIETS, [game as *const Game as u64, cache.checkers.as_u64(), 0, 0, 0, 0, 0]);
    }
    //@@ body: chess/movegen/gen.rs :: fn generate_legal_moves => generate_legal_moves__body pub
}

fn one_king_game() -> (sym::Mailbox, Game, u8) {
    let mb = sym::any_mailbox();
    let game = symgame::game_with_board(sym::board_of(&mb));
    kani::assume(rules::count_piece(&mb, Piece::new(game.player, PieceKind::King)) == 1);
    let king = rules::king_square(&mb, game.player);
    (mb, game, king)
}

//@ obligation: C01.orchestrate.captures
//@ property: C01
//@ domain: complete
//@ functions: chess/movegen/gen.rs::generate_captures
//@ timeout: 2400
//@ mem_gb: 8
//@ note: fully symbolic board (one king of the mover), the two position analyses replaced by their contracts (arbitrary answers, arguments recorded): checkers = the answer to 'who attacks OUR KING on THIS board' (cached); with two or more checkers ONLY the king generator runs; otherwise the check mask is the squares between the single checker and the king plus the checker (all squares when not in check), the pin masks are get_pins of our king, all three are cached, and the five capture generators are called exactly once each, in order, with (our pieces of the right kind, our king, the enemy pieces, all pieces, check mask, pin masks)
//@ assumes: callee contracts C01.gen.*, C01.attackers.exact, C01.pins.exact; table lookups == geometry (C07)
#[kani::proof]
#[kani::unwind(10)]
#[kani::stub(crate::chess::movegen::attackers::generate_attackers_of, attackers_contract)]
#[kani::stub(crate::chess::movegen::pins::get_pins, pins_contract)]
//@@stubs-tables
fn vk_c01_orchestrate_captures() {
    let (mb, game, king) = one_king_game();
    let (player, them) = (game.player, game.player.other());
    let b = &game.board;
    let mut list = MoveList::new();
    let mut cache = MovegenCache::new();
    unsafe {
        LOG_LEN = 0;
        ATTQ_CALLS = 0;
        PINQ_CALLS = 0;
    }
    generate_captures__body(&game, &mut list, &mut cache);
    let baddr = b as *const _ as usize;
    // checkers = the answer to "who attacks OUR KING'S square on THIS board"
    unsafe {
        assert!(ATTQ_CALLS == 1 && ATTQ == Some((baddr, player, king)));
    }
    let checkers = Bitboard::new(unsafe { ATT_ANSWER });
    // an attacker set is a set of enemy pieces (C01.attackers.exact)
    let (their, all) = (u(b.occupancy_for(them)), u(b.occupancy()));
    assert!(cache.checkers == checkers);
    kani::cover!(checkers.count() == 2);
    kani::cover!(checkers.count() == 1);
    kani::cover!(checkers.count() == 0);
    if checkers.count() > 1 {
        expect(0, KING_C, [king as u64, their, 0, 0, 0, 0, 0]);
        assert!(unsafe { LOG_LEN } == 1 && unsafe { PINQ_CALLS } == 0);
    } else {
        let cm = if checkers.count() == 1 {
            let c = checkers.as_u64().trailing_zeros() as u8;
            geo::between(c, king).unwrap_or(0) | checkers.as_u64()
        } else {
            u64::MAX
        };
        unsafe {
            assert!(PINQ_CALLS == 1 && PINQ == Some((baddr, player, king)));
        }
        let (op, dp) = unsafe { PIN_ANSWER };
        assert!(u(cache.check_mask) == cm && u(cache.orthogonal_pins) == op && u(cache.diagonal_pins) == dp);
        expect(0, PAWN_C, [u(b.pawns(player)), king as u64, their, all, cm, op, dp]);
        expect(1, KNIGHT_C, [u(b.knights(player)), their, cm, op, dp, 0, 0]);
        expect(2, DIAG_C, [u(b.diagonal_sliders(player)), their, all, cm, op, dp, 0]);
        expect(3, ORTH_C, [u(b.orthogonal_sliders(player)), their, all, cm, op, dp, 0]);
        expect(4, KING_C, [king as u64, their, 0, 0, 0, 0, 0]);
        assert!(unsafe { LOG_LEN } == 5);
    }
    assert!(list.len() == 0);
}

//@ obligation: C01.orchestrate.quiets
//@ property: C01
//@ domain: complete
//@ functions: chess/movegen/gen.rs::generate_quiets
//@ timeout: 2400
//@ mem_gb: 8
//@ note: fully symbolic board and an ARBITRARY cache: with two or more cached checkers only the king generator runs; otherwise the five quiet generators run once each, in order, with (our pieces of the right kind, all pieces, the cached check mask and pin masks), and the castling generator runs iff there is no cached checker
//@ assumes: callee contracts C01.gen.*
#[kani::proof]
#[kani::unwind(10)]
//@@stubs-tables
fn vk_c01_orchestrate_quiets() {
    let (mb, game, king) = one_king_game();
    let player = game.player;
    let b = &game.board;
    let cache = MovegenCache {
        checkers: Bitboard::new(kani::any()),
        check_mask: Bitboard::new(kani::any()),
        orthogonal_pins: Bitboard::new(kani::any()),
        diagonal_pins: Bitboard::new(kani::any()),
    };
    let mut list = MoveList::new();
    unsafe { LOG_LEN = 0; }
    generate_quiets__body(&game, &mut list, &cache);
    let all = u(b.occupancy());
    let (cm, op, dp) = (u(cache.check_mask), u(cache.orthogonal_pins), u(cache.diagonal_pins));
    kani::cover!(cache.checkers.count() == 0);
    if cache.checkers.count() > 1 {
        expect(0, KING_Q, [king as u64, all, 0, 0, 0, 0, 0]);
        assert!(unsafe { LOG_LEN } == 1);
    } else {
        expect(0, PAWN_Q, [u(b.pawns(player)), all, cm, op, dp, 0, 0]);
        expect(1, KNIGHT_Q, [u(b.knights(player)), all, cm, op, dp, 0, 0]);
        expect(2, DIAG_Q, [u(b.diagonal_sliders(player)), all, cm, op, dp, 0, 0]);
        expect(3, ORTH_Q, [u(b.orthogonal_sliders(player)), all, cm, op, dp, 0, 0]);
        expect(4, KING_Q, [king as u64, all, 0, 0, 0, 0, 0]);
        if cache.checkers.is_empty() {
            expect(5, CASTLES, [all, 0, 0, 0, 0, 0, 0]);
            assert!(unsafe { LOG_LEN } == 6);
        } else {
            assert!(unsafe { LOG_LEN } == 5);
        }
    }
    assert!(list.len() == 0);
}

//@ obligation: C01.orchestrate.legal
//@ property: C01
//@ domain: complete
//@ functions: chess/movegen/gen.rs::generate_legal_moves
//@ timeout: 900
//@ mem_gb: 4
//@ note: the full list is captures followed by quiets for the same position, and the quiets see the cache the captures wrote
#[kani::proof]
#[kani::unwind(10)]
fn vk_c01_orchestrate_legal() {
    let game = symgame::game_with_board(sym::empty_board());
    let mut list = MoveList::new();
    unsafe { LOG_LEN = 0; }
    legal_scope::generate_legal_moves__body(&game, &mut list);
    let g = &game as *const Game as u64;
    kani::cover!(true);
    expect(0, CAPTURES, [g, 0, 0, 0, 0, 0, 0]);
    expect(1, QUIETS, [g, 0xC0FFEE, 0, 0, 0, 0, 0]);
    assert!(unsafe { LOG_LEN } == 2);
}

//@ obligation: C01.canary.orchestrate
//@ property: C01
//@ canary: true
//@ timeout: 2400
//@ mem_gb: 8
#[kani::proof]
#[kani::unwind(10)]
#[kani::stub(crate::chess::movegen::attackers::generate_attackers_of, attackers_contract)]
#[kani::stub(crate::chess::movegen::pins::get_pins, pins_contract)]
//@@stubs-tables
fn vk_c01_canary_orchestrate() {
    let (mb, game, king) = one_king_game();
    let mut list = MoveList::new();
    let mut cache = MovegenCache::new();
    unsafe { LOG_LEN = 0; }
    generate_captures__body(&game, &mut list, &mut cache);
    assert!(unsafe { LOG_LEN } == 5); // must FAIL: double check calls only the king generator
}
