//@@ module: engine/eval/mod.rs
//@@ tag: c16range
use crate::engine::eval::params::{
    ATTACKED_KING_SQUARES, BISHOP_MOBILITY, BISHOP_PAIR_BONUS, KNIGHT_MOBILITY, PASSED_PAWNS, QUEEN_MOBILITY, ROOK_MOBILITY,
};

fn halves(p: PhasedEval) -> (i32, i32) {
    (p.midgame().0 as i32, p.endgame().0 as i32)
}
fn max2(a: (i32, i32), b: (i32, i32)) -> (i32, i32) {
    (if a.0 > b.0 { a.0 } else { b.0 }, if a.1 > b.1 { a.1 } else { b.1 })
}
fn add2(a: (i32, i32), b: (i32, i32)) -> (i32, i32) {
    (a.0 + b.0, a.1 + b.1)
}
fn mul2(a: (i32, i32), k: i32) -> (i32, i32) {
    (a.0 * k, a.1 * k)
}
fn abs2(a: (i32, i32)) -> (i32, i32) {
    (a.0.abs(), a.1.abs())
}
/// per-half maximum over a table (at least 0)
fn table_max(t: &[PhasedEval]) -> (i32, i32) {
    let mut m = (0, 0);
    let mut i = 0;
    while i < t.len() {
        m = max2(m, halves(t[i]));
        i += 1;
    }
    m
}
fn table_abs_max(t: &[PhasedEval]) -> (i32, i32) {
    let mut m = (0, 0);
    let mut i = 0;
    while i < t.len() {
        m = max2(m, abs2(halves(t[i])));
        i += 1;
    }
    m
}
/// per-half maximum over the 64 squares of (material + piece-square) for a white piece of this kind, after the REAL init
fn kind_max(kind: PieceKind) -> (i32, i32) {
    let mut m = (i32::MIN, i32::MIN);
    let mut s = 0u8;
    while s < 64 {
        m = max2(m, halves(piece_square_tables::piece_contributions(Square::from_index(s), Piece::new(Player::White, kind))));
        s += 1;
    }
    m
}
fn king_min() -> (i32, i32) {
    let mut m = (i32::MAX, i32::MAX);
    let mut s = 0u8;
    while s < 64 {
        let h = halves(piece_square_tables::piece_contributions(Square::from_index(s), Piece::new(Player::White, PieceKind::King)));
        m = (if h.0 < m.0 { h.0 } else { m.0 }, if h.1 < m.1 { h.1 } else { m.1 });
        s += 1;
    }
    m
}

//@ obligation: C16.range.table_bound
//@ property: C16
//@ domain: complete
//@ functions: engine/eval/piece_square_tables.rs::init, engine/eval/piece_square_tables.rs::piece_contributions
//@ timeout: 1800
//@ mem_gb: 8
//@ note: closed computation over the engine's concrete parameter tables after the REAL init: the largest total one side can reach -- king + queen + 2 rooks + 2 bishops + 2 knights + 8 further men of the most valuable kind (every pawn promoted; nine queens included), each at its best square with its best mobility, plus every passed-pawn, bishop-pair and king-attack bonus, plus the worst placement of the bare enemy king -- stays below 31,900 in BOTH packed halves (so the packed i16 halves cannot overflow and the blended score, which lies between them by C16.blend.proper, stays strictly inside the non-mate band); the mirrored bound for the other side follows from C16.pst_tables.mirror / C16.passed_tables.mirror
//@ assumes: composition: the evaluation is a sum of per-piece terms each bounded by the per-kind maxima used here; every extra enemy piece lowers the score (checked: every kind's minimum contribution incl. worst mobility is positive)
#[kani::proof]
#[kani::unwind(66)]
fn vk_c16_range_table_bound() {
    piece_square_tables::init();
    let mob = [(0, 0), table_max(&KNIGHT_MOBILITY), table_max(&BISHOP_MOBILITY), table_max(&ROOK_MOBILITY), table_max(&QUEEN_MOBILITY)];
    let mut passed = (0, 0);
    let mut r = 0;
    while r < 8 {
        passed = max2(passed, table_abs_max(&PASSED_PAWNS[r]));
        r += 1;
    }
    let kinds = [PieceKind::Pawn, PieceKind::Knight, PieceKind::Bishop, PieceKind::Rook, PieceKind::Queen];
    let mut per = [(0, 0); 5];
    let mut best = (0, 0);
    let mut k = 0;
    while k < 5 {
        per[k] = add2(kind_max(kinds[k]), mob[k]);
        if k == 0 {
            per[k] = add2(per[k], passed);
        }
        best = max2(best, per[k]);
        k += 1;
    }
    let base = add2(add2(mul2(per[1], 2), mul2(per[2], 2)), add2(mul2(per[3], 2), per[4]));
    let king = kind_max(PieceKind::King);
    let kmin = king_min();
    let extra = add2(abs2(halves(BISHOP_PAIR_BONUS)), mul2(table_abs_max(&ATTACKED_KING_SQUARES), 2));
    let total = add2(add2(add2(base, mul2(best, 8)), add2(king, extra)), (-kmin.0, -kmin.1));
    kani::cover!(total.0 > 5000);
    assert!(total.0 < 31900 && total.1 < 31900);
}
