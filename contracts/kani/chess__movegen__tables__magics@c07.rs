//@@ module: chess/movegen/tables/magics.rs
//@@ tag: c07
//@@ needs: chess__bitboard@iter.rs
// Contracts of the magic-bitboard machinery.  `walk_*` below are the repo's own first-principles generators
// (attacks::generate_*), which C07.walk.* ties to the coordinate geometry for all inputs.
use crate::verif_support::geo;

const TABLE_LEN: usize = 87988;

/// what initialise_*_not_masks stores for square s (the same expression as in the loop body; that the loop
/// stores it is obligation C07.tables.not_masks_init)
fn set_not_masks_for(s: Square) {
    unsafe {
        ROOK_NOT_MASKS[s.array_idx()] = generate_rook_occupancies(s).invert();
        BISHOP_NOT_MASKS[s.array_idx()] = generate_bishop_occupancies(s).invert();
    }
}

//@ obligation: C07.magic.occupancy_mask
//@ domain: complete
//@ functions: chess/movegen/tables/magics.rs::generate_sliding_occupancies, chess/movegen/tables/magics.rs::generate_rook_occupancies, chess/movegen/tables/magics.rs::generate_bishop_occupancies
//@ timeout: 600
//@ note: relevant-occupancy mask == ray squares that have a further on-board square behind them, for all 64 squares, rook and bishop
#[kani::proof]
#[kani::unwind(10)]
fn vk_c07_occupancy_mask() {
    let s = geo::any_square();
    kani::cover!(true);
    assert!(generate_rook_occupancies(s).as_u64() == geo::rook_mask(s.idx()));
    assert!(generate_bishop_occupancies(s).as_u64() == geo::bishop_mask(s.idx()));
}

//@ obligation: C07.magic.index_in_bounds_rook
//@ domain: complete
//@ functions: chess/movegen/tables/magics.rs::table_index_rook
//@ timeout: 600
//@ mem_gb: 8
//@ note: every rook lookup lands inside the shared 87,988-entry table: all 64 squares x all 2^64 occupancies; this is the safety condition of the get_unchecked read in rook_attacks
#[kani::proof]
#[kani::unwind(10)]
fn vk_c07_index_in_bounds_rook() {
    let s = geo::any_square();
    unsafe { ROOK_NOT_MASKS[s.array_idx()] = generate_rook_occupancies(s).invert(); }
    let occ = Bitboard::new(kani::any());
    kani::cover!(true);
    assert!(std::mem::size_of::<AttacksTable>() == TABLE_LEN * 8);
    assert!(table_index_rook(s, occ) < TABLE_LEN);
}

//@ obligation: C07.magic.index_in_bounds_bishop
//@ domain: complete
//@ functions: chess/movegen/tables/magics.rs::table_index_bishop
//@ timeout: 600
//@ mem_gb: 8
#[kani::proof]
#[kani::unwind(10)]
fn vk_c07_index_in_bounds_bishop() {
    let s = geo::any_square();
    unsafe { BISHOP_NOT_MASKS[s.array_idx()] = generate_bishop_occupancies(s).invert(); }
    let occ = Bitboard::new(kani::any());
    kani::cover!(true);
    assert!(table_index_bishop(s, occ) < TABLE_LEN);
}

//@ obligation: C07.magic.mask_irrelevance_index_rook
//@ domain: complete
//@ functions: chess/movegen/tables/magics.rs::table_index_rook
//@ timeout: 900
//@ mem_gb: 6
//@ note: occupancy bits outside the relevant mask do not change the table index (the not-mask ORs them away)
#[kani::proof]
#[kani::unwind(10)]
fn vk_c07_mask_irrelevance_index_rook() {
    let s = geo::any_square();
    let rm = generate_rook_occupancies(s);
    unsafe { ROOK_NOT_MASKS[s.array_idx()] = rm.invert(); }
    let occ = Bitboard::new(kani::any());
    kani::cover!((occ & !rm).any());
    assert!(table_index_rook(s, occ) == table_index_rook(s, occ & rm));
}

//@ obligation: C07.magic.mask_irrelevance_index_bishop
//@ domain: complete
//@ functions: chess/movegen/tables/magics.rs::table_index_bishop
//@ timeout: 900
//@ mem_gb: 6
#[kani::proof]
#[kani::unwind(10)]
fn vk_c07_mask_irrelevance_index_bishop() {
    let s = geo::any_square();
    let bm = generate_bishop_occupancies(s);
    unsafe { BISHOP_NOT_MASKS[s.array_idx()] = bm.invert(); }
    let occ = Bitboard::new(kani::any());
    kani::cover!((occ & !bm).any());
    assert!(table_index_bishop(s, occ) == table_index_bishop(s, occ & bm));
}

//@ obligation: C07.magic.mask_irrelevance_walk_rook
//@ domain: complete
//@ functions: chess/movegen/tables/attacks.rs::generate_sliding_attacks, chess/movegen/tables/magics.rs::generate_rook_occupancies
//@ timeout: 900
//@ mem_gb: 6
//@ note: occupancy bits outside the relevant mask (board-edge squares, squares off the rays) do not change the ray walk, so the table filled for subsets of the mask answers every occupancy
#[kani::proof]
#[kani::unwind(10)]
fn vk_c07_mask_irrelevance_walk_rook() {
    let s = geo::any_square();
    let occ = Bitboard::new(kani::any());
    let rm = generate_rook_occupancies(s);
    kani::cover!((occ & !rm).any());
    assert!(attacks::generate_rook_attacks(s, occ) == attacks::generate_rook_attacks(s, occ & rm));
}

//@ obligation: C07.magic.mask_irrelevance_walk_bishop
//@ domain: complete
//@ functions: chess/movegen/tables/attacks.rs::generate_sliding_attacks, chess/movegen/tables/magics.rs::generate_bishop_occupancies
//@ timeout: 900
//@ mem_gb: 6
#[kani::proof]
#[kani::unwind(10)]
fn vk_c07_mask_irrelevance_walk_bishop() {
    let s = geo::any_square();
    let occ = Bitboard::new(kani::any());
    let bm = generate_bishop_occupancies(s);
    kani::cover!((occ & !bm).any());
    assert!(attacks::generate_bishop_attacks(s, occ) == attacks::generate_bishop_attacks(s, occ & bm));
}

//@ obligation: C07.magic.subsets_successor
//@ domain: complete
//@ functions: chess/movegen/tables/magics.rs::impl Iterator for SubsetsOf / fn next
//@ timeout: 600
//@ note: carry-rippler step: from state x (a subset of m) `next` yields y = the immediate successor of x among subsets of m in integer order (wrapping to 0 after m), y is a subset of m, and the iterator stops exactly after yielding 0 => started at 0 it yields every subset of m exactly once
#[kani::proof]
fn vk_c07_subsets_successor() {
    let m: u64 = kani::any();
    let x: u64 = kani::any();
    let z: u64 = kani::any(); // arbitrary witness: no subset of m lies strictly between x and y
    kani::assume(x & !m == 0);
    kani::assume(z & !m == 0);
    let mut it = SubsetsOf::new(Bitboard::new(m));
    it.state = Bitboard::new(x);
    let y = it.next().unwrap().as_u64();
    kani::cover!(x == m);
    kani::cover!(x != m && m.count_ones() > 6);
    assert!(y & !m == 0);
    if x == m {
        assert!(y == 0);
    } else {
        assert!(y > x && !(x < z && z < y));
    }
    assert!(it.state.as_u64() == y && it.stop == (y == 0));
    if it.stop {
        assert!(it.next().is_none());
    }
}

//@ obligation: C07.magic.collisions_rook_same
//@ tier: thorough
//@ domain: complete
//@ functions: chess/movegen/tables/magics.rs::table_index_rook
//@ timeout: 3000
//@ mem_gb: 8
//@ note: two occupancies of one rook square that hit the same table slot have the same ray walk (symbolic square)
#[kani::proof]
#[kani::unwind(10)]
fn vk_c07_collisions_rook_same() {
    let s = geo::any_square();
    collisions(s, true, s, true);
}

//@ obligation: C07.magic.collisions_bishop_same
//@ tier: thorough
//@ domain: complete
//@ functions: chess/movegen/tables/magics.rs::table_index_bishop
//@ timeout: 3000
//@ mem_gb: 8
#[kani::proof]
#[kani::unwind(10)]
fn vk_c07_collisions_bishop_same() {
    let s = geo::any_square();
    collisions(s, false, s, false);
}

//@ obligation: C07.magic.collisions_cross
//@ tier: thorough
//@ domain: complete
//@ functions: chess/movegen/tables/magics.rs::table_index_rook, chess/movegen/tables/magics.rs::table_index_bishop
//@ timeout: 6000
//@ mem_gb: 10
//@ note: any two DIFFERENT (kind, square) users of the shared table (rook/rook, bishop/bishop, rook/bishop; both squares symbolic): equal slot => equal ray walk
#[kani::proof]
#[kani::unwind(10)]
fn vk_c07_collisions_cross() {
    let s1 = geo::any_square();
    let s2 = geo::any_square();
    let r1: bool = kani::any();
    let r2: bool = kani::any();
    kani::assume(s1 != s2 || r1 != r2);
    collisions(s1, r1, s2, r2);
}

fn collisions(s1: Square, rook1: bool, s2: Square, rook2: bool) {
    set_not_masks_for(s1);
    set_not_masks_for(s2);
    let o1 = Bitboard::new(kani::any());
    let o2 = Bitboard::new(kani::any());
    let i1 = if rook1 { table_index_rook(s1, o1) } else { table_index_bishop(s1, o1) };
    let i2 = if rook2 { table_index_rook(s2, o2) } else { table_index_bishop(s2, o2) };
    kani::cover!(o1 != o2);
    let w1 = if rook1 { attacks::generate_rook_attacks(s1, o1) } else { attacks::generate_bishop_attacks(s1, o1) };
    let w2 = if rook2 { attacks::generate_rook_attacks(s2, o2) } else { attacks::generate_bishop_attacks(s2, o2) };
    // users of the shared table may only collide constructively (equal slot => equal attack set)
    assert!(i1 != i2 || w1 == w2);
}

// ---- quick tier: the same collision contract split per rank of the first square (8 + 8 + 8 jobs run 16-wide) ----
macro_rules! coll_same_rank {
    ($name:ident, $rook:expr, $rank:expr) => {
        #[kani::proof]
        #[kani::unwind(10)]
        fn $name() {
            let s = geo::any_square();
            kani::assume(s.idx() / 8 == $rank);
            collisions(s, $rook, s, $rook);
        }
    };
}
macro_rules! coll_cross_rank {
    ($name:ident, $rank:expr) => {
        #[kani::proof]
        #[kani::unwind(10)]
        fn $name() {
            let s1 = geo::any_square();
            let s2 = geo::any_square();
            kani::assume(s1.idx() / 8 == $rank);
            let r1: bool = kani::any();
            let r2: bool = kani::any();
            kani::assume(s1 != s2 || r1 != r2);
            collisions(s1, r1, s2, r2);
        }
    };
}


// ---- generated: per-rank instances for the quick tier ----
//@ obligation: C07.magic.collisions_rook_same.rank1
//@ domain: complete
//@ harness: vk_c07_coll_rook_same_r0
//@ functions: chess/movegen/tables/magics.rs::table_index_rook
//@ timeout: 900
//@ mem_gb: 3
//@ note: constructive collisions only, rook square on rank 1 (8 squares x 2^64 x 2^64 occupancies)
coll_same_rank!(vk_c07_coll_rook_same_r0, true, 0);
//@ obligation: C07.magic.collisions_rook_same.rank2
//@ domain: complete
//@ harness: vk_c07_coll_rook_same_r1
//@ functions: chess/movegen/tables/magics.rs::table_index_rook
//@ timeout: 900
//@ mem_gb: 3
//@ note: constructive collisions only, rook square on rank 2 (8 squares x 2^64 x 2^64 occupancies)
coll_same_rank!(vk_c07_coll_rook_same_r1, true, 1);
//@ obligation: C07.magic.collisions_rook_same.rank3
//@ domain: complete
//@ harness: vk_c07_coll_rook_same_r2
//@ functions: chess/movegen/tables/magics.rs::table_index_rook
//@ timeout: 900
//@ mem_gb: 3
//@ note: constructive collisions only, rook square on rank 3 (8 squares x 2^64 x 2^64 occupancies)
coll_same_rank!(vk_c07_coll_rook_same_r2, true, 2);
//@ obligation: C07.magic.collisions_rook_same.rank4
//@ domain: complete
//@ harness: vk_c07_coll_rook_same_r3
//@ functions: chess/movegen/tables/magics.rs::table_index_rook
//@ timeout: 900
//@ mem_gb: 3
//@ note: constructive collisions only, rook square on rank 4 (8 squares x 2^64 x 2^64 occupancies)
coll_same_rank!(vk_c07_coll_rook_same_r3, true, 3);
//@ obligation: C07.magic.collisions_rook_same.rank5
//@ domain: complete
//@ harness: vk_c07_coll_rook_same_r4
//@ functions: chess/movegen/tables/magics.rs::table_index_rook
//@ timeout: 900
//@ mem_gb: 3
//@ note: constructive collisions only, rook square on rank 5 (8 squares x 2^64 x 2^64 occupancies)
coll_same_rank!(vk_c07_coll_rook_same_r4, true, 4);
//@ obligation: C07.magic.collisions_rook_same.rank6
//@ domain: complete
//@ harness: vk_c07_coll_rook_same_r5
//@ functions: chess/movegen/tables/magics.rs::table_index_rook
//@ timeout: 900
//@ mem_gb: 3
//@ note: constructive collisions only, rook square on rank 6 (8 squares x 2^64 x 2^64 occupancies)
coll_same_rank!(vk_c07_coll_rook_same_r5, true, 5);
//@ obligation: C07.magic.collisions_rook_same.rank7
//@ domain: complete
//@ harness: vk_c07_coll_rook_same_r6
//@ functions: chess/movegen/tables/magics.rs::table_index_rook
//@ timeout: 900
//@ mem_gb: 3
//@ note: constructive collisions only, rook square on rank 7 (8 squares x 2^64 x 2^64 occupancies)
coll_same_rank!(vk_c07_coll_rook_same_r6, true, 6);
//@ obligation: C07.magic.collisions_rook_same.rank8
//@ domain: complete
//@ harness: vk_c07_coll_rook_same_r7
//@ functions: chess/movegen/tables/magics.rs::table_index_rook
//@ timeout: 900
//@ mem_gb: 3
//@ note: constructive collisions only, rook square on rank 8 (8 squares x 2^64 x 2^64 occupancies)
coll_same_rank!(vk_c07_coll_rook_same_r7, true, 7);
//@ obligation: C07.magic.collisions_bishop_same.rank1
//@ domain: complete
//@ harness: vk_c07_coll_bishop_same_r0
//@ functions: chess/movegen/tables/magics.rs::table_index_bishop
//@ timeout: 900
//@ mem_gb: 3
//@ note: constructive collisions only, bishop square on rank 1 (8 squares x 2^64 x 2^64 occupancies)
coll_same_rank!(vk_c07_coll_bishop_same_r0, false, 0);
//@ obligation: C07.magic.collisions_bishop_same.rank2
//@ domain: complete
//@ harness: vk_c07_coll_bishop_same_r1
//@ functions: chess/movegen/tables/magics.rs::table_index_bishop
//@ timeout: 900
//@ mem_gb: 3
//@ note: constructive collisions only, bishop square on rank 2 (8 squares x 2^64 x 2^64 occupancies)
coll_same_rank!(vk_c07_coll_bishop_same_r1, false, 1);
//@ obligation: C07.magic.collisions_bishop_same.rank3
//@ domain: complete
//@ harness: vk_c07_coll_bishop_same_r2
//@ functions: chess/movegen/tables/magics.rs::table_index_bishop
//@ timeout: 900
//@ mem_gb: 3
//@ note: constructive collisions only, bishop square on rank 3 (8 squares x 2^64 x 2^64 occupancies)
coll_same_rank!(vk_c07_coll_bishop_same_r2, false, 2);
//@ obligation: C07.magic.collisions_bishop_same.rank4
//@ domain: complete
//@ harness: vk_c07_coll_bishop_same_r3
//@ functions: chess/movegen/tables/magics.rs::table_index_bishop
//@ timeout: 900
//@ mem_gb: 3
//@ note: constructive collisions only, bishop square on rank 4 (8 squares x 2^64 x 2^64 occupancies)
coll_same_rank!(vk_c07_coll_bishop_same_r3, false, 3);
//@ obligation: C07.magic.collisions_bishop_same.rank5
//@ domain: complete
//@ harness: vk_c07_coll_bishop_same_r4
//@ functions: chess/movegen/tables/magics.rs::table_index_bishop
//@ timeout: 900
//@ mem_gb: 3
//@ note: constructive collisions only, bishop square on rank 5 (8 squares x 2^64 x 2^64 occupancies)
coll_same_rank!(vk_c07_coll_bishop_same_r4, false, 4);
//@ obligation: C07.magic.collisions_bishop_same.rank6
//@ domain: complete
//@ harness: vk_c07_coll_bishop_same_r5
//@ functions: chess/movegen/tables/magics.rs::table_index_bishop
//@ timeout: 900
//@ mem_gb: 3
//@ note: constructive collisions only, bishop square on rank 6 (8 squares x 2^64 x 2^64 occupancies)
coll_same_rank!(vk_c07_coll_bishop_same_r5, false, 5);
//@ obligation: C07.magic.collisions_bishop_same.rank7
//@ domain: complete
//@ harness: vk_c07_coll_bishop_same_r6
//@ functions: chess/movegen/tables/magics.rs::table_index_bishop
//@ timeout: 900
//@ mem_gb: 3
//@ note: constructive collisions only, bishop square on rank 7 (8 squares x 2^64 x 2^64 occupancies)
coll_same_rank!(vk_c07_coll_bishop_same_r6, false, 6);
//@ obligation: C07.magic.collisions_bishop_same.rank8
//@ domain: complete
//@ harness: vk_c07_coll_bishop_same_r7
//@ functions: chess/movegen/tables/magics.rs::table_index_bishop
//@ timeout: 900
//@ mem_gb: 3
//@ note: constructive collisions only, bishop square on rank 8 (8 squares x 2^64 x 2^64 occupancies)
coll_same_rank!(vk_c07_coll_bishop_same_r7, false, 7);
//@ obligation: C07.magic.collisions_cross.rank1
//@ domain: complete
//@ harness: vk_c07_coll_cross_r0
//@ functions: chess/movegen/tables/magics.rs::table_index_rook, chess/movegen/tables/magics.rs::table_index_bishop
//@ timeout: 1500
//@ mem_gb: 3
//@ note: two different (kind, square) users of the shared table, the first on rank 1: equal slot => equal attack set
coll_cross_rank!(vk_c07_coll_cross_r0, 0);
//@ obligation: C07.magic.collisions_cross.rank2
//@ domain: complete
//@ harness: vk_c07_coll_cross_r1
//@ functions: chess/movegen/tables/magics.rs::table_index_rook, chess/movegen/tables/magics.rs::table_index_bishop
//@ timeout: 1500
//@ mem_gb: 3
//@ note: two different (kind, square) users of the shared table, the first on rank 2: equal slot => equal attack set
coll_cross_rank!(vk_c07_coll_cross_r1, 1);
//@ obligation: C07.magic.collisions_cross.rank3
//@ domain: complete
//@ harness: vk_c07_coll_cross_r2
//@ functions: chess/movegen/tables/magics.rs::table_index_rook, chess/movegen/tables/magics.rs::table_index_bishop
//@ timeout: 1500
//@ mem_gb: 3
//@ note: two different (kind, square) users of the shared table, the first on rank 3: equal slot => equal attack set
coll_cross_rank!(vk_c07_coll_cross_r2, 2);
//@ obligation: C07.magic.collisions_cross.rank4
//@ domain: complete
//@ harness: vk_c07_coll_cross_r3
//@ functions: chess/movegen/tables/magics.rs::table_index_rook, chess/movegen/tables/magics.rs::table_index_bishop
//@ timeout: 1500
//@ mem_gb: 3
//@ note: two different (kind, square) users of the shared table, the first on rank 4: equal slot => equal attack set
coll_cross_rank!(vk_c07_coll_cross_r3, 3);
//@ obligation: C07.magic.collisions_cross.rank5
//@ domain: complete
//@ harness: vk_c07_coll_cross_r4
//@ functions: chess/movegen/tables/magics.rs::table_index_rook, chess/movegen/tables/magics.rs::table_index_bishop
//@ timeout: 1500
//@ mem_gb: 3
//@ note: two different (kind, square) users of the shared table, the first on rank 5: equal slot => equal attack set
coll_cross_rank!(vk_c07_coll_cross_r4, 4);
//@ obligation: C07.magic.collisions_cross.rank6
//@ domain: complete
//@ harness: vk_c07_coll_cross_r5
//@ functions: chess/movegen/tables/magics.rs::table_index_rook, chess/movegen/tables/magics.rs::table_index_bishop
//@ timeout: 1500
//@ mem_gb: 3
//@ note: two different (kind, square) users of the shared table, the first on rank 6: equal slot => equal attack set
coll_cross_rank!(vk_c07_coll_cross_r5, 5);
//@ obligation: C07.magic.collisions_cross.rank7
//@ domain: complete
//@ harness: vk_c07_coll_cross_r6
//@ functions: chess/movegen/tables/magics.rs::table_index_rook, chess/movegen/tables/magics.rs::table_index_bishop
//@ timeout: 1500
//@ mem_gb: 3
//@ note: two different (kind, square) users of the shared table, the first on rank 7: equal slot => equal attack set
coll_cross_rank!(vk_c07_coll_cross_r6, 6);
//@ obligation: C07.magic.collisions_cross.rank8
//@ domain: complete
//@ harness: vk_c07_coll_cross_r7
//@ functions: chess/movegen/tables/magics.rs::table_index_rook, chess/movegen/tables/magics.rs::table_index_bishop
//@ timeout: 1500
//@ mem_gb: 3
//@ note: two different (kind, square) users of the shared table, the first on rank 8: equal slot => equal attack set
coll_cross_rank!(vk_c07_coll_cross_r7, 7);

//@ obligation: C07.canary.magics
//@ canary: true
//@ timeout: 600
#[kani::proof]
#[kani::unwind(10)]
fn vk_c07_canary_magics() {
    let s = geo::any_square();
    set_not_masks_for(s);
    let occ = Bitboard::new(kani::any());
    assert!(table_index_rook(s, occ) < TABLE_LEN / 2); // must FAIL: the upper half of the table is used
}

// ---- init loops and lookups against callee contracts -----------------------------------------------------------
use crate::chess::bitboard::verif_kani_iter as iter;

pub static mut SUBSET_YIELDED: u64 = 0;
pub static mut SUBSET_OF: u64 = 0;
pub static mut SUBSET_CALLS: u8 = 0;
/// one-shot contract form of the subset iterator (justified by C07.magic.subsets_successor): yields ONE arbitrary
/// subset of its mask, then None
fn one_shot_subset_next(it: &mut SubsetsOf) -> Option<Bitboard> {
    let was = it.stop;
    it.stop = true;
    if was {
        return None;
    }
    let b: u64 = kani::any();
    kani::assume(b & !it.bitboard.as_u64() == 0);
    unsafe {
        SUBSET_YIELDED = b;
        SUBSET_OF = it.bitboard.as_u64();
        SUBSET_CALLS += 1;
    }
    Some(Bitboard::new(b))
}
// The 87,988-entry table itself is REBOUND BY SCOPE to a one-cell recorder: the bodies of the two init functions and of
// the two lookups are copied verbatim from /repo into `mod gt`, where the name ATTACKS_TABLE resolves to a ghost whose
// only operations are `[i] = v` (IndexMut: records i, bounds-checked against the real length) and `get_unchecked(i)`
// (records i, bounds-checked). Any other use of the table in those bodies no longer type-checks (=> anchor lost).
// (The real array with a symbolic index costs CBMC > 8 GB; the recorder costs nothing.)
pub mod gt {
    #![allow(static_mut_refs)]
    #![allow(unused_unsafe)]
    use super::{generate_bishop_occupancies, generate_rook_occupancies, SubsetsOf, TABLE_LEN};
    use crate::chess::bitboard::Bitboard;
    use crate::chess::square::Square;

    // CALLEE CONTRACTS (rebound by scope): the index functions are "some deterministic function of (square, blockers)
    // with a value below the table length" (C07.magic.index_in_bounds_*), the ray walks "some deterministic function"
    // (C07.walk.*); rook and bishop variants are DIFFERENT functions so that a mix-up shows
    pub fn table_index_rook(s: Square, b: Bitboard) -> usize {
        (s.idx() as usize) * 1009 + (((b.as_u64() >> 7) & 0xFFF) as usize) * 3 + 1 // < 75,854 <= TABLE_LEN
    }
    pub fn table_index_bishop(s: Square, b: Bitboard) -> usize {
        (s.idx() as usize) * 1201 + (((b.as_u64() >> 11) & 0xFFF) as usize) * 2 + 7 // < 83,861 <= TABLE_LEN
    }
    pub mod attacks {
        use super::{Bitboard, Square};
        pub fn generate_rook_attacks(s: Square, b: Bitboard) -> Bitboard {
            Bitboard::new(b.as_u64().rotate_left(s.idx() as u32) ^ 0x5555_0000_AAAA_FFFF)
        }
        pub fn generate_bishop_attacks(s: Square, b: Bitboard) -> Bitboard {
            Bitboard::new(b.as_u64().rotate_right(s.idx() as u32) ^ 0x1234_5678_9ABC_DEF0)
        }
    }

    pub static mut G_WRITES: u32 = 0;
    pub static mut G_WIDX: usize = 0;
    pub static mut G_READS: u32 = 0;
    pub static mut G_RIDX: usize = 0;
    pub struct GhostTable {
        pub cell: Bitboard,
    }
    impl std::ops::Index<usize> for GhostTable {
        type Output = Bitboard;
        fn index(&self, i: usize) -> &Bitboard {
            assert!(i < TABLE_LEN, "table read in bounds");
            unsafe {
                G_READS += 1;
                G_RIDX = i;
            }
            &self.cell
        }
    }
    impl std::ops::IndexMut<usize> for GhostTable {
        fn index_mut(&mut self, i: usize) -> &mut Bitboard {
            assert!(i < TABLE_LEN, "table write in bounds");
            unsafe {
                G_WRITES += 1;
                G_WIDX = i;
            }
            &mut self.cell
        }
    }
    impl GhostTable {
        /// contract of `<[T]>::get_unchecked`: the index MUST be in bounds (checked here), the cell is returned
        pub fn get_unchecked(&self, i: usize) -> &Bitboard {
            assert!(i < TABLE_LEN, "get_unchecked precondition: index in bounds");
            unsafe {
                G_READS += 1;
                G_RIDX = i;
            }
            &self.cell
        }
    }
    pub static mut ATTACKS_TABLE: GhostTable = GhostTable { cell: Bitboard::EMPTY };

    //@@ body: chess/movegen/tables/magics.rs :: fn initialise_rook_attacks => initialise_rook_attacks__body pub
    //@@ body: chess/movegen/tables/magics.rs :: fn initialise_bishop_attacks => initialise_bishop_attacks__body pub
    //@@ body: chess/movegen/tables/magics.rs :: fn rook_attacks => rook_attacks__body pub
    //@@ body: chess/movegen/tables/magics.rs :: fn bishop_attacks => bishop_attacks__body pub
}

fn init_attacks_writes(rook: bool) {
    iter::rec_reset();
    unsafe {
        SUBSET_CALLS = 0;
        gt::G_WRITES = 0;
    }
    if rook { gt::initialise_rook_attacks__body() } else { gt::initialise_bishop_attacks__body() }
    let s = iter::yielded(0);
    let b = Bitboard::new(unsafe { SUBSET_YIELDED });
    kani::cover!(b.any() && s.idx() == 27);
    assert!(iter::calls() == 1 && unsafe { SUBSET_CALLS } == 1);
    // the squares visited are those of the full board; the subsets enumerated are those of the relevant-occupancy
    // mask of the visited square
    assert!(unsafe { iter::REC_SETS[0] } == Bitboard::FULL.as_u64());
    let mask = if rook { generate_rook_occupancies(s) } else { generate_bishop_occupancies(s) };
    assert!(unsafe { SUBSET_OF } == mask.as_u64());
    // exactly one cell is written per (square, subset): the one the index function names, with the ray walk
    let (idx, walk) = if rook {
        (gt::table_index_rook(s, b), gt::attacks::generate_rook_attacks(s, b))
    } else {
        (gt::table_index_bishop(s, b), gt::attacks::generate_bishop_attacks(s, b))
    };
    unsafe {
        assert!(gt::G_WRITES == 1 && gt::G_WIDX == idx);
        assert!(gt::ATTACKS_TABLE.cell == walk);
    }
}

//@ obligation: C07.tables.rook_init_writes
//@ domain: complete
//@ functions: chess/movegen/tables/magics.rs::initialise_rook_attacks
//@ timeout: 900
//@ mem_gb: 6
//@ note: the body of the real init function (copied verbatim; its two loops in one-shot contract form: an arbitrary square of the FULL board, an arbitrary subset of that square's relevant-occupancy mask; the 87,988-entry table rebound by scope to a one-cell recorder): its callees table_index_rook / generate_rook_attacks replaced by their contracts (arbitrary deterministic functions, distinct for rook and bishop): per (square, subset) exactly ONE cell is written, in bounds, namely [table_index_rook(s, b)], and it receives generate_rook_attacks(s, b). With C07.magic.collisions_* (equal slot => equal walk), C07.magic.mask_irrelevance_* and C07.tables.lookups_read_index this gives lookup(s, occ) == walk(s, occ) for every square and occupancy.
//@ assumes: one-shot iterator contracts (C07.bitboard.square_iterator, C07.magic.subsets_successor) and independence of loop iterations; the recorder stands for the array (only `[i] = v` is offered)
#[kani::proof]
#[kani::unwind(10)]
#[kani::stub(<crate::chess::bitboard::SquareIterator as std::iter::Iterator>::next, iter::one_shot_square_next)]
#[kani::stub(<SubsetsOf as std::iter::Iterator>::next, one_shot_subset_next)]
fn vk_c07_rook_init_writes() {
    init_attacks_writes(true);
}

//@ obligation: C07.tables.bishop_init_writes
//@ domain: complete
//@ functions: chess/movegen/tables/magics.rs::initialise_bishop_attacks
//@ timeout: 900
//@ mem_gb: 6
//@ note: as C07.tables.rook_init_writes for the bishop half: [table_index_bishop(s, b)] = generate_bishop_attacks(s, b)
//@ assumes: one-shot iterator contracts and independence of loop iterations; the recorder stands for the array
#[kani::proof]
#[kani::unwind(10)]
#[kani::stub(<crate::chess::bitboard::SquareIterator as std::iter::Iterator>::next, iter::one_shot_square_next)]
#[kani::stub(<SubsetsOf as std::iter::Iterator>::next, one_shot_subset_next)]
fn vk_c07_bishop_init_writes() {
    init_attacks_writes(false);
}

//@ obligation: C07.tables.not_masks_init
//@ domain: complete
//@ functions: chess/movegen/tables/magics.rs::initialise_rook_not_masks, chess/movegen/tables/magics.rs::initialise_bishop_not_masks
//@ timeout: 900
//@ mem_gb: 6
//@ note: for the arbitrary square the loop visits, the not-mask cell of that square receives the complement of its relevant-occupancy mask and no other cell changes (this is the value the index obligations assume)
#[kani::proof]
#[kani::unwind(10)]
#[kani::stub(<crate::chess::bitboard::SquareIterator as std::iter::Iterator>::next, iter::one_shot_square_next)]
fn vk_c07_not_masks_init() {
    let j = geo::any_square();
    let (rb, bb0) = unsafe { (ROOK_NOT_MASKS[j.array_idx()], BISHOP_NOT_MASKS[j.array_idx()]) };
    iter::rec_reset();
    initialise_rook_not_masks();
    initialise_bishop_not_masks();
    let (s1, s2) = (iter::yielded(0), iter::yielded(1));
    kani::cover!(s1 != s2);
    assert!(iter::calls() == 2);
    assert!(unsafe { ROOK_NOT_MASKS[s1.array_idx()] } == generate_rook_occupancies(s1).invert());
    assert!(unsafe { BISHOP_NOT_MASKS[s2.array_idx()] } == generate_bishop_occupancies(s2).invert());
    if j != s1 {
        assert!(unsafe { ROOK_NOT_MASKS[j.array_idx()] } == rb);
    }
    if j != s2 {
        assert!(unsafe { BISHOP_NOT_MASKS[j.array_idx()] } == bb0);
    }
}

//@ obligation: C07.tables.lookups_read_index
//@ domain: complete
//@ functions: chess/movegen/tables/magics.rs::rook_attacks, chess/movegen/tables/magics.rs::bishop_attacks
//@ timeout: 900
//@ mem_gb: 6
//@ note: bodies of the two lookups (copied verbatim, table rebound to the recorder): each reads exactly ONE cell, the one at table_index_rook(s, occ) resp. table_index_bishop(s, occ), the index satisfies the precondition of get_unchecked given the index functions' contract (value below the table length: C07.magic.index_in_bounds_*), and the cell's content is returned unchanged
//@ assumes: callee contract of table_index_* (C07.magic.index_in_bounds_*); the recorder stands for the array
#[kani::proof]
#[kani::unwind(10)]
fn vk_c07_lookups_read_index() {
    let v: u64 = kani::any();
    let s = geo::any_square();
    let occ = Bitboard::new(kani::any());
    let rook: bool = kani::any();
    unsafe {
        gt::G_READS = 0;
        gt::ATTACKS_TABLE.cell = Bitboard::new(v);
    }
    let got = if rook { gt::rook_attacks__body(s, occ) } else { gt::bishop_attacks__body(s, occ) };
    let idx = if rook { gt::table_index_rook(s, occ) } else { gt::table_index_bishop(s, occ) };
    kani::cover!(v != 0 && !rook);
    unsafe {
        assert!(gt::G_READS == 1 && gt::G_RIDX == idx);
    }
    assert!(got.as_u64() == v);
}
