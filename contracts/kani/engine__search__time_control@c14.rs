//@@ module: engine/search/time_control.rs
//@@ tag: c14
//@@ needs: chess__board@sym.rs chess__game@sym.rs
use crate::chess::board::verif_kani_sym as sym;
use crate::chess::game::verif_kani_symgame as symgame;
use crate::engine::search::Clocks;

// ---- stand-ins (kani::stub) ----------------------------------------------------------------------------------
/// CONTRACT STAND-IN for Duration::mul_f32 with the engine's four constants.  Machine f32 arithmetic is TREATED AS
/// MATHEMATICAL (listed as an assumption; the real function differs from the exact product by a relative 2^-23), and of
/// the exact product floor(c * d) only these facts are used -- each is implied by it:
///   c = 0.5  : exactly half (integer division by 2);   c = 0.033, 0.75 : some value <= d;   c = 3.0 : some value in [d, 3d]
pub fn mul_f32_exact(d: Duration, rhs: f32) -> Duration {
    let n = d.as_nanos() as u64; // harness bounds keep this below 2^47
    let r: u64 = kani::any();
    if rhs == 0.5 {
        kani::assume(r == n / 2);
    } else if rhs == 0.033 || rhs == 0.75 {
        kani::assume(r <= n);
    } else if rhs == 3.0 {
        kani::assume(n <= r && r <= 3 * n);
    } else {
        panic!("mul_f32 called with a constant the contract stand-in does not know")
    }
    Duration::from_nanos(r)
}
/// CONTRACT of `Duration / u32` as used for "time per remaining move": panics on a zero divisor, otherwise SOME
/// duration not larger than the dividend (the limits proved below hold for every such value)
pub fn div_u32_contract(d: Duration, rhs: u32) -> Duration {
    assert!(rhs != 0, "division of the clock by moves-to-go == 0");
    let q: u64 = kani::any();
    kani::assume(q <= d.as_nanos() as u64);
    Duration::from_nanos(q)
}
pub fn instant_zero() -> Instant {
    unsafe { std::mem::zeroed() }
}
pub fn instant_unreachable() -> Instant {
    panic!("the wall clock must not be read on this path")
}
pub fn elapsed_any(_i: &Instant) -> Duration {
    let ns: u64 = kani::any();
    Duration::from_nanos(ns)
}
pub fn elapsed_unreachable(_i: &Instant) -> Duration {
    panic!("the wall clock must not be read on this path")
}

const MAX_NS: u64 = 100_000_000_000_000; // 10^14 ns ~ 27 hours

fn any_duration_opt() -> Option<Duration> {
    if kani::any() {
        let ns: u64 = kani::any();
        kani::assume(ns <= MAX_NS);
        Some(Duration::from_nanos(ns))
    } else {
        None
    }
}

//@ obligation: C14.limits.clocks
//@ domain: complete
//@ functions: engine/search/time_control.rs::TimeStrategy::new
//@ timeout: 1800
//@ mem_gb: 8
//@ note: the REAL TimeStrategy::new for every clock situation (remaining and increment up to 10^14 ns for both sides, present or absent; moves-to-go absent or >= 1; Move Overhead in its advertised range 0..=1000 ms with 2*overhead <= remaining; either side to move): soft <= hard and 2*hard <= remaining - overhead; no arithmetic panic (division by moves-to-go, Duration overflow)
//@ assumes: Duration::mul_f32 replaced by a contract implied by exact real multiplication (x0.5 = exact half; x0.033, x0.75 <= d; d <= x3.0 <= 3d): machine f32 treated as mathematical; Duration / u32 replaced by its contract (some value <= dividend, panic on 0); Instant::now stubbed
#[kani::proof]
#[kani::unwind(4)]
#[kani::stub(std::time::Duration::mul_f32, mul_f32_exact)]
#[kani::stub(<std::time::Duration as std::ops::Div<u32>>::div, div_u32_contract)]
#[kani::stub(std::time::Instant::now, instant_zero)]
fn vk_c14_limits_clocks() {
    let game = symgame::game_with_board(sym::empty_board());
    let clocks = Clocks {
        white_clock: any_duration_opt(),
        black_clock: any_duration_opt(),
        white_increment: any_duration_opt(),
        black_increment: any_duration_opt(),
        moves_to_go: if kani::any() { let m: u32 = kani::any(); kani::assume(m >= 1); Some(m) } else { None },
    };
    let overhead_ms: usize = kani::any();
    kani::assume(overhead_ms <= 1000);
    let mut options = EngineOptions::default();
    options.move_overhead = overhead_ms;
    let ours = match game.player {
        Player::White => clocks.white_clock,
        Player::Black => clocks.black_clock,
    };
    // a GUI always sends the mover's clock; overhead at most half of it
    kani::assume(ours.is_some());
    let remaining = ours.unwrap().as_nanos() as u64;
    let overhead = overhead_ms as u64 * 1_000_000;
    kani::assume(2 * overhead <= remaining);
    let tc = TimeControl::Clocks(clocks);
    let (ts, _control) = TimeStrategy::new(&game, &tc, &options);
    let (soft, hard) = (ts.soft_stop.as_nanos() as u64, ts.hard_stop.as_nanos() as u64);
    kani::cover!(hard > 0 && soft < hard);
    kani::cover!(game.player == Player::Black && hard > 1_000_000_000);
    assert!(soft <= hard);
    assert!(2 * hard <= remaining - overhead);
    assert!(ts.next_check_at == params::CHECK_TERMINATION_NODE_FREQUENCY);
}

//@ obligation: C14.limits.exact_time
//@ domain: complete
//@ functions: engine/search/time_control.rs::TimeStrategy::new
//@ timeout: 900
//@ mem_gb: 4
//@ note: a fixed move time is used as given: soft == hard == movetime, for every movetime and overhead; with no limit both are zero and never consulted (C12.no_clock)
#[kani::proof]
#[kani::unwind(4)]
#[kani::stub(std::time::Duration::mul_f32, mul_f32_exact)]
#[kani::stub(std::time::Instant::now, instant_zero)]
fn vk_c14_limits_exact_time() {
    let game = symgame::game_with_board(sym::empty_board());
    let ns: u64 = kani::any();
    let t = Duration::from_nanos(ns);
    let mut options = EngineOptions::default();
    options.move_overhead = kani::any();
    kani::assume(options.move_overhead <= 1000);
    let (ts, _c) = TimeStrategy::new(&game, &TimeControl::ExactTime(t), &options);
    kani::cover!(ns > 5);
    assert!(ts.soft_stop == t && ts.hard_stop == t);
}

fn any_strategy(tc: TimeControl) -> TimeStrategy {
    let soft: u64 = kani::any();
    let hard: u64 = kani::any();
    TimeStrategy {
        time_control: tc,
        started_at: instant_zero(),
        soft_stop: Duration::from_nanos(soft),
        hard_stop: Duration::from_nanos(hard),
        next_check_at: kani::any(),
        force_stop: Arc::new(AtomicBool::new(kani::any())),
    }
}

//@ obligation: C09.should_stop.contract
//@ property: C09
//@ domain: complete
//@ functions: engine/search/time_control.rs::TimeStrategy::should_stop, engine/search/time_control.rs::TimeStrategy::should_start_new_search, engine/search/time_control.rs::TimeStrategy::is_force_stopped, engine/search/time_control.rs::Control::stop
//@ timeout: 900
//@ mem_gb: 4
//@ note: for every state of the strategy and every elapsed time: should_stop(n) is false without reading flag or clock while n < next_check_at; otherwise it is true whenever the stop flag is set, and else true iff the limit of the active time control is exceeded (never for Infinite), re-arming the next poll; should_start_new_search(1) is always true (depth 1 is always searched) and false for deeper iterations once the flag is set; Control::stop sets the flag the strategy reads
#[kani::proof]
#[kani::unwind(4)]
#[kani::stub(std::time::Instant::elapsed, elapsed_any)]
fn vk_c09_should_stop_contract() {
    let which: u8 = kani::any();
    let exact: u64 = kani::any();
    let tc = match which % 3 {
        0 => TimeControl::Infinite,
        1 => TimeControl::ExactTime(Duration::from_nanos(exact)),
        _ => TimeControl::Clocks(Clocks { white_clock: None, black_clock: None, white_increment: None, black_increment: None, moves_to_go: None }),
    };
    let mut ts = any_strategy(tc);
    let flag = ts.force_stop.load(Ordering::Relaxed);
    let next0 = ts.next_check_at;
    let n: u64 = kani::any();
    kani::assume(n <= u64::MAX - params::CHECK_TERMINATION_NODE_FREQUENCY);
    let depth: u8 = kani::any();
    let start = ts.should_start_new_search(depth);
    if depth == 1 {
        assert!(start);
    } else if flag {
        assert!(!start);
    } else if which % 3 == 0 {
        assert!(start);
    }
    let r = ts.should_stop(n);
    kani::cover!(r && !flag);
    kani::cover!(!r && n >= next0);
    if n < next0 {
        assert!(!r && ts.next_check_at == next0);
    } else if flag {
        assert!(r);
    } else {
        assert!(ts.next_check_at == n + params::CHECK_TERMINATION_NODE_FREQUENCY);
        if which % 3 == 0 {
            assert!(!r);
        }
    }
    // Control::stop raises the very flag the strategy polls
    let control = Control { force_stop: ts.force_stop.clone() };
    control.stop();
    assert!(ts.is_force_stopped());
    let m: u64 = kani::any();
    kani::assume(m <= u64::MAX - params::CHECK_TERMINATION_NODE_FREQUENCY);
    let next1 = ts.next_check_at;
    assert!(ts.should_stop(m) == (m >= next1));
}

//@ obligation: C12.no_clock.infinite
//@ property: C12
//@ domain: complete
//@ functions: engine/search/time_control.rs::TimeStrategy::should_stop, engine/search/time_control.rs::TimeStrategy::should_start_new_search
//@ timeout: 900
//@ mem_gb: 4
//@ note: with no time limit (fixed-depth / infinite search) the two decisions of the time strategy NEVER read the wall clock (Instant::now / elapsed are replaced by panicking functions and are proved unreachable) and are functions of the stop flag and the node count only -- so a fixed-depth search cannot depend on timing or machine load through them
#[kani::proof]
#[kani::unwind(4)]
#[kani::stub(std::time::Instant::elapsed, elapsed_unreachable)]
#[kani::stub(std::time::Instant::now, instant_unreachable)]
fn vk_c12_no_clock_infinite() {
    let mut ts = any_strategy(TimeControl::Infinite);
    let flag = ts.force_stop.load(Ordering::Relaxed);
    let next0 = ts.next_check_at;
    let n: u64 = kani::any();
    kani::assume(n <= u64::MAX - params::CHECK_TERMINATION_NODE_FREQUENCY);
    let depth: u8 = kani::any();
    kani::cover!(depth > 1 && !flag);
    assert!(ts.should_start_new_search(depth) == (depth == 1 || !flag));
    assert!(ts.should_stop(n) == (n >= next0 && flag));
}

//@ obligation: C14.canary.limits
//@ canary: true
//@ timeout: 1800
//@ mem_gb: 8
#[kani::proof]
#[kani::unwind(4)]
#[kani::stub(std::time::Duration::mul_f32, mul_f32_exact)]
#[kani::stub(std::time::Instant::now, instant_zero)]
fn vk_c14_canary_limits() {
    let game = symgame::game_with_board(sym::empty_board());
    let ns: u64 = kani::any();
    kani::assume(ns <= MAX_NS);
    let clocks = Clocks { white_clock: Some(Duration::from_nanos(ns)), black_clock: Some(Duration::from_nanos(ns)), white_increment: None, black_increment: None, moves_to_go: None };
    let options = EngineOptions::default();
    let (ts, _c) = TimeStrategy::new(&game, &TimeControl::Clocks(clocks), &options);
    assert!(ts.hard_stop.as_nanos() as u64 * 100 <= ns); // must FAIL: hard is about a tenth of the clock
}
