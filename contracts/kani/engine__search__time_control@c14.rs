//@@ module: engine/search/time_control.rs
//@@ tag: c14
//@@ needs: chess__board@sym.rs chess__game@sym.rs
//@@ noglob: Duration / Instant and the types built from them are re-declared here
// TimeStrategy (struct + whole impl), Control, and the TimeControl / Clocks types are copied VERBATIM from /repo on every
// run into this module, where the names `Duration` and `Instant` are bound to stand-ins:
//   Duration = exact integer nanoseconds in a u64 (ASSUMED model of std::time::Duration: exact ns arithmetic; values here
//              stay below 2^49 ns so no std overflow path is reachable), with mul_f32 given by a CONTRACT implied by exact
//              real multiplication (machine f32 treated as mathematical);
//   Instant  = a ghost clock whose now()/elapsed() are arbitrary (or panic, for the clock-independence obligation).
// CBMC cannot carry the real Duration (u128 nanos, 64-bit div/mod by 10^9): two 30-minute time-outs, see DESIGN.
use crate::chess::game::Game;
use crate::chess::player::Player;
use crate::engine::options::EngineOptions;
use crate::engine::search::params;
use std::sync::atomic::{AtomicBool, Ordering};
use std::sync::Arc;

#[derive(Debug, Clone, Copy, PartialEq, Eq, PartialOrd, Ord, Default)]
pub struct Duration(pub u64);
impl Duration {
    pub fn from_millis(ms: u64) -> Self {
        Duration(ms * 1_000_000)
    }
    pub fn from_nanos(ns: u64) -> Self {
        Duration(ns)
    }
    pub fn saturating_sub(self, rhs: Self) -> Self {
        Duration(self.0.saturating_sub(rhs.0))
    }
    /// CONTRACT implied by exact real multiplication with the engine's four constants:
    ///   x0.5 = exact half;  x0.033, x0.75: some value <= d;  x3.0: some value in [d, 3d]
    pub fn mul_f32(self, rhs: f32) -> Self {
        let n = self.0;
        let r: u64 = kani::any();
        if rhs == 0.5 {
            kani::assume(r == n / 2);
        } else if rhs == 0.033 || rhs == 0.75 {
            kani::assume(r <= n);
        } else if rhs == 3.0 {
            kani::assume(n <= r && r <= 3 * n);
        } else {
            panic!("mul_f32 called with a constant the contract does not know")
        }
        Duration(r)
    }
}
impl std::ops::Div<u32> for Duration {
    type Output = Self;
    fn div(self, rhs: u32) -> Self {
        assert!(rhs != 0, "division of the clock by moves-to-go == 0");
        Duration(self.0 / rhs as u64)
    }
}
impl std::ops::Sub for Duration {
    type Output = Self;
    /// contract of std: `Duration - Duration` PANICS when the result would be negative
    fn sub(self, rhs: Self) -> Self {
        assert!(self.0 >= rhs.0, "overflow when subtracting durations (std panics)");
        Duration(self.0 - rhs.0)
    }
}
impl std::ops::Add for Duration {
    type Output = Self;
    fn add(self, rhs: Self) -> Self {
        Duration(self.0 + rhs.0)
    }
}

pub static mut CLOCK_READS: u32 = 0;
pub static mut CLOCK_FORBIDDEN: bool = false;
/// ghost: the value the last elapsed() read returned (nanoseconds)
pub static mut LAST_ELAPSED: u64 = 0;
#[derive(Clone, Copy)]
pub struct Instant;
impl Instant {
    pub fn now() -> Self {
        unsafe {
            assert!(!CLOCK_FORBIDDEN, "the wall clock must not be read on this path");
            CLOCK_READS += 1;
        }
        Instant
    }
    pub fn elapsed(&self) -> Duration {
        unsafe {
            assert!(!CLOCK_FORBIDDEN, "the wall clock must not be read on this path");
            CLOCK_READS += 1;
        }
        let e: u64 = kani::any();
        unsafe { LAST_ELAPSED = e; }
        Duration(e)
    }
}

//@@ item: engine/search/mod.rs :: enum TimeControl
//@@ item: engine/search/mod.rs :: struct Clocks
//@@ item: engine/search/time_control.rs :: struct TimeStrategy
//@@ item: engine/search/time_control.rs :: struct Control
//@@ item: engine/search/time_control.rs :: impl Control
//@@ item: engine/search/time_control.rs :: impl TimeStrategy

const MAX_NS: u64 = 100_000_000_000_000; // 10^14 ns ~ 27 hours

fn any_duration_opt() -> Option<Duration> {
    if kani::any() {
        let ns: u64 = kani::any();
        kani::assume(ns <= MAX_NS);
        Some(Duration(ns))
    } else {
        None
    }
}
fn any_game() -> Game {
    let mut g = crate::chess::game::verif_kani_symgame::game_with_board(crate::chess::board::verif_kani_sym::empty_board());
    g
}

//@ obligation: C14.limits.clocks
//@ domain: complete
//@ functions: engine/search/time_control.rs::TimeStrategy::new
//@ timeout: 900
//@ mem_gb: 6
//@ note: TimeStrategy::new for every clock situation (remaining and increment up to 10^14 ns for both sides, present or absent; moves-to-go absent or >= 1; Move Overhead in its advertised range 0..=1000 ms with 2*overhead <= remaining; either side to move): soft <= hard and 2*hard <= remaining - overhead; no arithmetic panic (division by moves-to-go)
//@ assumes: std::time::Duration modelled as exact integer nanoseconds; Duration::mul_f32 replaced by a contract implied by exact real multiplication (machine f32 treated as mathematical); Instant::now ghost
#[kani::proof]
#[kani::unwind(4)]
fn vk_c14_limits_clocks() {
    let game = any_game();
    let clocks = Clocks {
        white_clock: any_duration_opt(),
        black_clock: any_duration_opt(),
        white_increment: any_duration_opt(),
        black_increment: any_duration_opt(),
        moves_to_go: if kani::any() { let m: u32 = kani::any(); kani::assume(m >= 1); Some(m) } else { None },
    };
    let overhead_ms: usize = kani::any();
    kani::assume(overhead_ms <= 1000);
    let mut options = EngineOptions::default();
    options.move_overhead = overhead_ms;
    let ours = match game.player {
        Player::White => clocks.white_clock,
        Player::Black => clocks.black_clock,
    };
    // a GUI always sends the mover's clock; overhead at most half of it
    kani::assume(ours.is_some());
    let remaining = ours.unwrap().0;
    let overhead = overhead_ms as u64 * 1_000_000;
    kani::assume(2 * overhead <= remaining);
    let tc = TimeControl::Clocks(clocks);
    let (ts, _control) = TimeStrategy::new(&game, &tc, &options);
    let (soft, hard) = (ts.soft_stop.0, ts.hard_stop.0);
    kani::cover!(hard > 0 && soft < hard);
    kani::cover!(game.player == Player::Black && hard > 1_000_000_000);
    assert!(soft <= hard);
    assert!(2 * hard <= remaining - overhead);
    assert!(ts.next_check_at == params::CHECK_TERMINATION_NODE_FREQUENCY);
}

//@ obligation: C13.move_overhead.any_clock
//@ property: C13 C04 C14
//@ domain: complete
//@ functions: engine/search/time_control.rs::TimeStrategy::new
//@ timeout: 900
//@ mem_gb: 6
//@ note: survivability of EVERY advertised Move Overhead value (0..=1000 ms) under EVERY clock a `go` can carry -- the mover's clock present or absent, smaller than, equal to or larger than the overhead, increments and moves-to-go (>= 1) arbitrary: TimeStrategy::new does not panic (no Duration underflow / overflow, no division by zero) and still yields soft <= hard. (The bound '2*hard <= remaining - overhead' is C14.limits.clocks and needs overhead <= remaining / 2.)
//@ assumes: std::time::Duration modelled as exact integer nanoseconds with std's panics on underflow kept as assertions; Duration::mul_f32 replaced by a contract implied by exact real multiplication
#[kani::proof]
#[kani::unwind(4)]
fn vk_c13_move_overhead_any_clock() {
    let game = any_game();
    let clocks = Clocks {
        white_clock: any_duration_opt(),
        black_clock: any_duration_opt(),
        white_increment: any_duration_opt(),
        black_increment: any_duration_opt(),
        moves_to_go: if kani::any() { let m: u32 = kani::any(); kani::assume(m >= 1); Some(m) } else { None },
    };
    let overhead_ms: usize = kani::any();
    kani::assume(overhead_ms <= 1000);
    let mut options = EngineOptions::default();
    options.move_overhead = overhead_ms;
    let ours = match game.player {
        Player::White => clocks.white_clock,
        Player::Black => clocks.black_clock,
    };
    kani::cover!(ours.is_none() && overhead_ms == 1000);
    kani::cover!(ours.is_some() && ours.unwrap().0 < overhead_ms as u64 * 1_000_000);
    let tc = TimeControl::Clocks(clocks);
    let (ts, _control) = TimeStrategy::new(&game, &tc, &options);
    assert!(ts.soft_stop.0 <= ts.hard_stop.0);
}

//@ obligation: C14.limits.exact_time
//@ domain: complete
//@ functions: engine/search/time_control.rs::TimeStrategy::new
//@ timeout: 900
//@ mem_gb: 4
//@ note: a fixed move time is used as given: soft == hard == movetime, for every movetime and overhead; with no limit both are zero and never consulted (C12.no_clock)
#[kani::proof]
#[kani::unwind(4)]
fn vk_c14_limits_exact_time() {
    let game = any_game();
    let t = Duration(kani::any());
    let mut options = EngineOptions::default();
    options.move_overhead = kani::any();
    kani::assume(options.move_overhead <= 1000);
    let (ts, _c) = TimeStrategy::new(&game, &TimeControl::ExactTime(t), &options);
    kani::cover!(t.0 > 5);
    assert!(ts.soft_stop == t && ts.hard_stop == t);
}

// Built through the repo's own constructor (on the cheap Infinite path) and then havocked field by field, NOT as a struct
// literal: a change that adds a field to TimeStrategy keeps compiling, the new field holds whatever `new` gives it, and the
// contract below is then decided against the changed body instead of being lost (seed C14-clock-ignored-until-depth-two).
fn any_strategy(tc: TimeControl) -> TimeStrategy {
    let (mut ts, _control) = TimeStrategy::new(&any_game(), &TimeControl::Infinite, &EngineOptions::default());
    ts.time_control = tc;
    ts.started_at = Instant;
    ts.soft_stop = Duration(kani::any());
    ts.hard_stop = Duration(kani::any());
    ts.next_check_at = kani::any();
    ts.force_stop = Arc::new(AtomicBool::new(kani::any()));
    ts
}

//@ obligation: C09.should_stop.contract
//@ property: C09 C14
//@ domain: complete
//@ functions: engine/search/time_control.rs::TimeStrategy::should_stop, engine/search/time_control.rs::TimeStrategy::should_start_new_search, engine/search/time_control.rs::TimeStrategy::is_force_stopped, engine/search/time_control.rs::Control::stop
//@ timeout: 900
//@ mem_gb: 4
//@ note: for every state of the strategy and every elapsed time: should_stop(n) is false without reading flag or clock while n < next_check_at; otherwise it is true whenever the stop flag is set, and else true iff the limit of the active time control is exceeded (never for Infinite), re-arming the next poll; should_start_new_search(1) is always true (depth 1 is always searched) and false for deeper iterations once the flag is set; Control::stop sets the flag the strategy reads
#[kani::proof]
#[kani::unwind(4)]
fn vk_c09_should_stop_contract() {
    let which: u8 = kani::any();
    let tc = match which % 3 {
        0 => TimeControl::Infinite,
        1 => TimeControl::ExactTime(Duration(kani::any())),
        _ => TimeControl::Clocks(Clocks { white_clock: None, black_clock: None, white_increment: None, black_increment: None, moves_to_go: None }),
    };
    let mut ts = any_strategy(tc);
    let flag = ts.force_stop.load(Ordering::Relaxed);
    let next0 = ts.next_check_at;
    let hard0 = ts.hard_stop.0;
    let exact0 = if let TimeControl::ExactTime(d) = &ts.time_control { d.0 } else { 0 };
    let n: u64 = kani::any();
    kani::assume(n <= u64::MAX - params::CHECK_TERMINATION_NODE_FREQUENCY);
    let depth: u8 = kani::any();
    let start = ts.should_start_new_search(depth);
    if depth == 1 {
        assert!(start);
    } else if flag {
        assert!(!start);
    } else if which % 3 == 0 {
        assert!(start);
    }
    let reads0 = unsafe { CLOCK_READS };
    let r = ts.should_stop(n);
    kani::cover!(r && !flag);
    kani::cover!(!r && n >= next0);
    if n < next0 {
        assert!(!r && ts.next_check_at == next0 && unsafe { CLOCK_READS } == reads0);
    } else if flag {
        assert!(r);
    } else {
        assert!(ts.next_check_at == n + params::CHECK_TERMINATION_NODE_FREQUENCY);
        if which % 3 == 0 {
            assert!(!r);
        } else {
            // the limit of the active time control decides, at EVERY poll (whatever should_start_new_search saw before):
            // the clock is read exactly once and the answer is `elapsed > limit`
            assert!(unsafe { CLOCK_READS } == reads0 + 1);
            let limit = if which % 3 == 1 { exact0 } else { hard0 };
            assert!(r == (unsafe { LAST_ELAPSED } > limit));
        }
    }
    // Control::stop raises the very flag the strategy polls
    let control = Control { force_stop: ts.force_stop.clone() };
    control.stop();
    assert!(ts.is_force_stopped());
    let m: u64 = kani::any();
    kani::assume(m <= u64::MAX - params::CHECK_TERMINATION_NODE_FREQUENCY);
    let next1 = ts.next_check_at;
    assert!(ts.should_stop(m) == (m >= next1));
}

//@ obligation: C12.no_clock.infinite
//@ property: C12
//@ domain: complete
//@ functions: engine/search/time_control.rs::TimeStrategy::should_stop, engine/search/time_control.rs::TimeStrategy::should_start_new_search
//@ timeout: 900
//@ mem_gb: 4
//@ note: with no time limit (fixed-depth / infinite search) the two decisions of the time strategy NEVER read the wall clock (the ghost clock panics when read and is proved unreachable) and are functions of the stop flag and the node count only -- so a fixed-depth search cannot depend on timing or machine load through them
#[kani::proof]
#[kani::unwind(4)]
fn vk_c12_no_clock_infinite() {
    let mut ts = any_strategy(TimeControl::Infinite);
    unsafe { CLOCK_FORBIDDEN = true; }
    let flag = ts.force_stop.load(Ordering::Relaxed);
    let next0 = ts.next_check_at;
    let n: u64 = kani::any();
    kani::assume(n <= u64::MAX - params::CHECK_TERMINATION_NODE_FREQUENCY);
    let depth: u8 = kani::any();
    kani::cover!(depth > 1 && !flag);
    assert!(ts.should_start_new_search(depth) == (depth == 1 || !flag));
    assert!(ts.should_stop(n) == (n >= next0 && flag));
}

//@ obligation: C14.canary.limits
//@ canary: true
//@ timeout: 900
//@ mem_gb: 4
#[kani::proof]
#[kani::unwind(4)]
fn vk_c14_canary_limits() {
    let game = any_game();
    let ns: u64 = kani::any();
    kani::assume(ns <= MAX_NS);
    let clocks = Clocks { white_clock: Some(Duration(ns)), black_clock: Some(Duration(ns)), white_increment: None, black_increment: None, moves_to_go: None };
    let options = EngineOptions::default();
    let (ts, _c) = TimeStrategy::new(&game, &TimeControl::Clocks(clocks), &options);
    assert!(ts.hard_stop.0 * 100 <= ns); // must FAIL: hard can be a multiple of the base time
}
