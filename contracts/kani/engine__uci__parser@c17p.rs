//@@ module: engine/uci/parser.rs
//@@ tag: c17p
//@@ noglob: nom / Vec are bound by scope to ghost stand-ins (support/gnom.rs)
//@@ needs: engine__uci__move@c17g.rs
// THE UCI MOVE READER UNDER CONTRACT: uci_file / uci_rank / uci_square / uci_promotion / uci_move / uci_moves, copied verbatim
// from /repo on every run into a #![no_implicit_prelude] scope where `nom::...` resolves to the ghost parser-combinator
// library.  Verified as total functions on every ASCII input up to a stated length, against an independent recogniser of
// long algebraic notation, and as the INVERSE of the printer (UciMove::notation, engine__uci__move@c17g.rs).
use crate::chess::piece::PromotionPieceKind;
use crate::chess::square::Square;
use crate::verif_support::geo;

pub mod g {
    #![no_implicit_prelude]
    use ::core::prelude::rust_2021::*;
    use ::core::unreachable;
    use crate::verif_support::gnom as nom;
    use crate::verif_support::gnom::{
        character::complete::{one_of, space1},
        combinator::{map, opt},
        multi::separated_list1,
        sequence::{pair, tuple},
        IResult,
    };
    pub use crate::verif_support::gnom::Vec;
    use crate::chess::piece::PromotionPieceKind;
    use crate::chess::square::{File, Rank, Square};
    pub use crate::engine::uci::UciMove;

    //@@ body: engine/uci/parser.rs :: fn uci_file => uci_file pub
    //@@ body: engine/uci/parser.rs :: fn uci_rank => uci_rank pub
    //@@ body: engine/uci/parser.rs :: fn uci_square => uci_square pub
    //@@ body: engine/uci/parser.rs :: fn uci_promotion => uci_promotion pub
    //@@ body: engine/uci/parser.rs :: fn uci_move => uci_move pub
}

/// uci_moves against a TAGGING contract of uci_move (what a move token really is: C17.uci_move.parse): shows which tokens
/// were read, in which order, and where reading stops
pub mod g_list {
    #![no_implicit_prelude]
    use ::core::prelude::rust_2021::*;
    use crate::verif_support::gnom as nom;
    use crate::verif_support::gnom::{character::complete::space1, multi::separated_list1, IResult};
    pub use crate::verif_support::gnom::Vec;
    use crate::chess::square::Square;
    pub use crate::engine::uci::UciMove;
    /// CONTRACT: consumes one move token (here: one lower-case letter) and returns the move it denotes (here: from-square = letter index)
    pub fn uci_move(input: &str) -> IResult<&str, UciMove> {
        let b = input.as_bytes();
        if b.len() >= 1 && b[0] >= b'a' && b[0] <= b'z' {
            return Ok((&input[1..], UciMove { src: Square::from_index(b[0] - b'a'), dst: Square::from_index(63), promotion: None }));
        }
        Err(nom::Err::Error(nom::error::Error::new(input, nom::error::ErrorKind::OneOf)))
    }
    //@@ body: engine/uci/parser.rs :: fn uci_moves => uci_moves pub
}
// filler value of the bounded ghost Vec's unused slots (never observable)
impl Default for crate::engine::uci::UciMove {
    fn default() -> Self {
        crate::engine::uci::UciMove { src: Square::from_index(0), dst: Square::from_index(0), promotion: None }
    }
}

const L: usize = 10;
fn any_ascii(buf: &mut [u8; L], max: usize) -> &str {
    let n: usize = kani::any();
    kani::assume(n <= max && max <= L);
    let mut i = 0;
    while i < L {
        buf[i] = kani::any();
        kani::assume(buf[i] < 128);
        i += 1;
    }
    unsafe { core::str::from_utf8_unchecked(&buf[..n]) }
}
/// independent recogniser: <file a-h><rank 1-8><file><rank>[nbrq]  at offset k; returns (src, dst, promotion, length)
fn spec_move(b: &[u8], k: usize) -> Option<(u8, u8, Option<PromotionPieceKind>, usize)> {
    if b.len() < k + 4 {
        return None;
    }
    let f = |c: u8| c >= b'a' && c <= b'h';
    let r = |c: u8| c >= b'1' && c <= b'8';
    if !(f(b[k]) && r(b[k + 1]) && f(b[k + 2]) && r(b[k + 3])) {
        return None;
    }
    let src = (b[k + 1] - b'1') * 8 + (b[k] - b'a');
    let dst = (b[k + 3] - b'1') * 8 + (b[k + 2] - b'a');
    let (p, n) = if b.len() > k + 4 {
        match b[k + 4] {
            b'n' => (Some(PromotionPieceKind::Knight), 5),
            b'b' => (Some(PromotionPieceKind::Bishop), 5),
            b'r' => (Some(PromotionPieceKind::Rook), 5),
            b'q' => (Some(PromotionPieceKind::Queen), 5),
            _ => (None, 4),
        }
    } else {
        (None, 4)
    };
    Some((src, dst, p, n))
}

//@ obligation: C17.uci_move.parse
//@ property: C17
//@ domain: bounded(ASCII input of <= 7 bytes; a move has 4 or 5)
//@ functions: engine/uci/parser.rs::uci_move, engine/uci/parser.rs::uci_square, engine/uci/parser.rs::uci_file, engine/uci/parser.rs::uci_rank, engine/uci/parser.rs::uci_promotion
//@ timeout: 900
//@ mem_gb: 6
//@ note: uci_move is total (unreachable!() arms unreachable): it accepts exactly <file a-h><rank 1-8><file><rank> optionally followed by ONE lower-case promotion letter n / b / r / q, returns the from-square, to-square (file = letter - 'a', rank = digit - '1') and promotion piece it denotes, and the rest of the input; an upper-case promotion letter is not consumed; everything else is a parse error
//@ assumes: ghost nom library (support/gnom.rs) stands for the nom crate's combinators as documented
#[kani::proof]
#[kani::unwind(14)]
fn vk_c17_uci_move_parse() {
    let mut buf = [0u8; L];
    let s = any_ascii(&mut buf, 7);
    let b = s.as_bytes();
    let r = g::uci_move(s);
    let want = spec_move(b, 0);
    kani::cover!(matches!(want, Some((_, _, Some(_), _))));
    kani::cover!(matches!(want, Some((_, _, None, _))) && b.len() > 4);
    match r {
        Ok((rest, m)) => match want {
            Some((src, dst, p, n)) => {
                assert!(m.src.idx() == src && m.dst.idx() == dst && m.promotion == p);
                assert!(rest.len() + n == s.len());
            }
            None => assert!(false, "text that is not a long-algebraic move was accepted"),
        },
        Err(_) => assert!(want.is_none(), "a well-formed long-algebraic move was rejected"),
    }
}

//@ obligation: C17.uci_move.roundtrip
//@ property: C17
//@ domain: complete
//@ functions: engine/uci/parser.rs::uci_move, engine/uci/move.rs::UciMove::notation
//@ timeout: 900
//@ mem_gb: 6
//@ note: for every from-square, to-square and promotion piece: reading (uci_move) the text that the printer (UciMove::notation) produces consumes it entirely and returns exactly that move -- moves are read and printed in the same long algebraic form
//@ assumes: ghost text library and ghost nom library
#[kani::proof]
#[kani::unwind(14)]
fn vk_c17_uci_move_roundtrip() {
    use crate::engine::uci::r#move::verif_kani_c17g as pr;
    let (s, d) = (geo::any_square(), geo::any_square());
    let promo = match kani::any::<u8>() % 5 {
        0 => Some(PromotionPieceKind::Knight),
        1 => Some(PromotionPieceKind::Bishop),
        2 => Some(PromotionPieceKind::Rook),
        3 => Some(PromotionPieceKind::Queen),
        _ => None,
    };
    let t = pr::g::UciMove { src: pr::g::Square(s), dst: pr::g::Square(d), promotion: promo }.notation();
    kani::cover!(promo.is_some());
    match g::uci_move(&t) {
        Ok((rest, m)) => {
            assert!(rest.len() == 0);
            assert!(m.src == s && m.dst == d && m.promotion == promo, "printed move does not read back");
        }
        Err(_) => assert!(false, "the reader rejects a move the printer produced"),
    }
}

//@ obligation: C17.uci_moves.list
//@ property: C17
//@ domain: bounded(ASCII input of <= 8 bytes with one-byte move tokens: up to four moves)
//@ functions: engine/uci/parser.rs::uci_moves
//@ timeout: 1800
//@ mem_gb: 8
//@ note: uci_moves against a tagging contract of uci_move: it is total; reads a first move and then, as long as one or more spaces/tabs FOLLOWED BY another move come next, that move too -- in order, none skipped or repeated; it stops in front of anything else (a dangling separator is left unconsumed) and returns exactly the moves read; no move at the start is a parse error
//@ assumes: ghost nom library (support/gnom.rs); ghost Vec (bounded); callee contract C17.uci_move.parse
#[kani::proof]
#[kani::unwind(11)]
fn vk_c17_uci_moves_list() {
    let mut buf = [0u8; L];
    let s = any_ascii(&mut buf, 8);
    let b = s.as_bytes();
    let r = g_list::uci_moves(s);
    let tok = |c: u8| c >= b'a' && c <= b'z';
    let sp = |c: u8| c == b' ' || c == b'\t';
    // independent recogniser: tok (sp+ tok)*
    let mut want = [0u8; 4];
    let mut n = 0usize;
    let mut end = 0usize;
    if b.len() > 0 && tok(b[0]) {
        want[0] = b[0];
        n = 1;
        end = 1;
        let mut stop = false;
        let mut it = 0;
        while it < 4 {
            if !stop {
                let mut q = end;
                let mut c = 0;
                while c < 8 {
                    if q < b.len() && sp(b[q]) {
                        q += 1;
                    }
                    c += 1;
                }
                if q > end && q < b.len() && tok(b[q]) && n < 4 {
                    want[n] = b[q];
                    n += 1;
                    end = q + 1;
                } else {
                    stop = true;
                }
            }
            it += 1;
        }
    }
    kani::cover!(n == 4);
    kani::cover!(n == 2 && end < b.len());
    match r {
        Ok((rest, v)) => {
            assert!(n >= 1, "a move list that does not start with a move was accepted");
            assert!(v.len() == n && rest.len() + end == s.len());
            let mut i = 0;
            while i < 4 {
                if i < n {
                    assert!(v[i].src.idx() == want[i] - b'a', "moves read out of order, skipped or repeated");
                }
                i += 1;
            }
        }
        Err(_) => assert!(n == 0, "a well-formed move list was rejected"),
    }
}

//@ obligation: C17.canary.uci_parse
//@ property: C17
//@ canary: true
//@ timeout: 900
//@ mem_gb: 6
#[kani::proof]
#[kani::unwind(14)]
fn vk_c17_canary_uci_parse() {
    let mut buf = [0u8; L];
    let s = any_ascii(&mut buf, 7);
    assert!(g::uci_move(s).is_err()); // must FAIL
}

//@ obligation: C14.go.parse_duration_total
//@ property: C14 C13
//@ status: experimental
//@ domain: complete
//@ functions: engine/uci/parser.rs::parse_duration
//@ timeout: 300
//@ note: every clock / increment / movetime value a `go` command can carry (any i64, negative values included -- GUIs send negative clocks when a side has overstepped): parse_duration never panics and yields max(n, 0) milliseconds
//@ assumes: std::time::Duration::from_millis as compiled.  MEASURED: times out after 300 s (64-bit division / multiplication inside Duration::from_millis and its comparison) -- experimental
#[kani::proof]
fn vk_c14_go_parse_duration_total() {
    let n: i64 = kani::any();
    let d = super::parse_duration(n);
    kani::cover!(n < 0);
    kani::cover!(n == i64::MAX);
    let want: u64 = if n < 0 { 0 } else { n as u64 };
    assert!(d == std::time::Duration::from_millis(want));
}
