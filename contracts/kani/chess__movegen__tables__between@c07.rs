//@@ module: chess/movegen/tables/between.rs
//@@ tag: c07
//@@ needs: chess__bitboard@iter.rs
use crate::verif_support::geo;
use crate::chess::bitboard::verif_kani_iter as iter;
use crate::chess::bitboard::verif_kani_iter::one_shot_square_next;

//@ obligation: C07.walk.between
//@ domain: complete
//@ functions: chess/movegen/tables/between.rs::generate_squares_between
//@ timeout: 900
//@ mem_gb: 6
//@ note: all 64x64 ordered pairs: open segment on a common rank/file/diagonal, None otherwise (and for s1 == s2)
#[kani::proof]
#[kani::unwind(10)]
fn vk_c07_walk_between() {
    let a = geo::any_square();
    let b = geo::any_square();
    let got = generate_squares_between(a, b);
    let want = geo::between(a.idx(), b.idx());
    kani::cover!(want.is_none() && a != b);
    kani::cover!(matches!(want, Some(x) if x.count_ones() == 6));
    assert!(got.map(|x| x.as_u64()) == want);
}

//@ obligation: C07.tables.between_init_writes
//@ tier: thorough
//@ domain: complete
//@ functions: chess/movegen/tables/between.rs::init, chess/movegen/tables/between.rs::between
//@ timeout: 1800
//@ mem_gb: 6
//@ note: the real `init` is run with the two `for .. in Bitboard::FULL` iterators replaced by their contract (C07.bitboard.square_iterator) in one-shot form (each loop yields ONE arbitrary square and stops) and with the callee generate_squares_between replaced by an arbitrary deterministic function (its own contract is C07.walk.between). Whatever pair (s1, s2) the loops visit, the only table cell written is [s1][s2] and it receives callee(s1,s2).unwrap_or(EMPTY); the lookup `between` reads exactly that cell.
//@ assumes: loop iterations of `init` are independent (no state carried between iterations other than the table cells written) -- by inspection: the loop bodies declare all their locals
#[kani::proof]
#[kani::unwind(4)]
#[kani::stub(<crate::chess::bitboard::SquareIterator as std::iter::Iterator>::next, one_shot_square_next)]
#[kani::stub(generate_squares_between, callee_between)]
fn vk_c07_between_init_writes() {
    let j1 = geo::any_square();
    let j2 = geo::any_square();
    let before = between(j1, j2);
    iter::rec_reset();
    init();
    let (s1, s2) = (iter::yielded(0), iter::yielded(1));
    kani::cover!(s1 != s2);
    assert!(iter::calls() == 2);
    let want = callee_between(s1, s2).unwrap_or(Bitboard::EMPTY);
    assert!(between(s1, s2) == want);
    if j1 != s1 || j2 != s2 {
        assert!(between(j1, j2) == before);
    }
}

// "some deterministic function of (s1, s2)", injective on ordered pairs, None on a subset
fn callee_between(s1: Square, s2: Square) -> Option<Bitboard> {
    if s1.idx() % 3 == s2.idx() % 5 {
        None
    } else {
        Some(Bitboard::new(0x8000_0000_0000_0000 | ((s1.idx() as u64) << 8) | s2.idx() as u64))
    }
}
