//@@ module: engine/search/aspiration.rs
//@@ tag: c04
// The body of `aspiration_search` is verified against the CONTRACT of its callee `negamax` (callee rebound by scope):
// the text of the function is copied verbatim from /repo on every run (sha256 recorded in the evidence) and compiled
// here, where the names Game / PrincipalVariation / SearchContext / negamax::negamax are bound to ghost stand-ins.
// The body only passes game/pv/ctx through to negamax, so ghost unit types suffice; if the body ever starts using them
// any other way this no longer type-checks (=> anchor lost, exit 2, never an alarm).

pub struct Game;
pub struct PrincipalVariation;
pub struct SearchContext<'a>(std::marker::PhantomData<&'a ()>);

pub static mut NEGAMAX_CALLS: u32 = 0;
pub static mut ABORTED: bool = false;
pub static mut LAST_ALPHA: i16 = 0;
pub static mut LAST_BETA: i16 = 0;

/// |score| <= 32000 is the contract of every search result (Eval::MATE)
const SCORE_LIMIT: i16 = 32000;

mod negamax {
    use super::*;
    /// CONTRACT of negamax as seen by its caller: requires a non-empty window (alpha < beta) and plies == 0 at the
    /// root; returns Err (stop observed) at ANY call, or Ok(e) with |e| <= 32000 (fail-soft: any such value).
    pub fn negamax(
        _game: &mut Game,
        alpha: Eval,
        beta: Eval,
        _depth: u8,
        plies: u8,
        _pv: &mut PrincipalVariation,
        _ctx: &mut SearchContext<'_>,
    ) -> Result<Eval, ()> {
        unsafe {
            assert!(!ABORTED, "no further search after the first Err");
            assert!(alpha < beta, "negamax precondition: non-empty window");
            assert!(alpha.0 <= 32000 && beta.0 >= -32000, "negamax precondition: root window bounds (P of C04.negamax.*)");
            assert!(plies == 0);
            NEGAMAX_CALLS += 1;
            LAST_ALPHA = alpha.0;
            LAST_BETA = beta.0;
            if kani::any() {
                ABORTED = true;
                return Err(());
            }
        }
        let e: i16 = kani::any();
        kani::assume(-SCORE_LIMIT <= e && e <= SCORE_LIMIT);
        Ok(Eval(e))
    }
}

//@@ body: engine/search/aspiration.rs :: fn aspiration_search => aspiration_search__body

//@ obligation: C04.aspiration.window_arith
//@ property: C04 C09 C08
//@ domain: complete
//@ functions: engine/search/aspiration.rs::aspiration_search, engine/search/aspiration.rs::Window::around, engine/search/aspiration.rs::Window::widen_up, engine/search/aspiration.rs::Window::widen_down, engine/search/aspiration.rs::Window::increase_window_widening_rate, engine/search/aspiration.rs::clamp_alpha, engine/search/aspiration.rs::clamp_beta
//@ timeout: 900
//@ mem_gb: 6
//@ note: body of aspiration_search against the negamax contract: for every start score in +-32000, every depth and EVERY sequence of in-range search results (fail-low/fail-high in any order) there is no i16 overflow, every window handed to negamax is non-empty, the loop ends within 48 re-searches (unwinding assertion), an Err from negamax is returned at once without a further call, and an Ok result lies strictly inside the last window.
//@ assumes: callee contract of negamax: returns Err or Ok(e) with |e| <= 32000 (closed inductively by C04.negamax.*)
#[kani::proof]
#[kani::unwind(50)]
fn vk_c04_aspiration_window_arith() {
    let depth: u8 = kani::any();
    let prev: Option<Eval> = if kani::any() {
        let e: i16 = kani::any();
        kani::assume(-SCORE_LIMIT <= e && e <= SCORE_LIMIT);
        Some(Eval(e))
    } else {
        None
    };
    // precondition established by iterative_deepening::search (C04.iterative.*): from depth 2 on the previous
    // iteration's score is passed
    kani::assume(depth < params::ASPIRATION_MIN_DEPTH || prev.is_some());
    let (mut g, mut pv, mut ctx) = (Game, PrincipalVariation, SearchContext(std::marker::PhantomData));
    let r = aspiration_search__body(&mut g, depth, prev, &mut pv, &mut ctx);
    unsafe {
        kani::cover!(NEGAMAX_CALLS > 16 && r.is_ok());
        kani::cover!(r.is_err() && NEGAMAX_CALLS > 3);
        match r {
            Err(()) => assert!(ABORTED),
            Ok(e) => assert!(!ABORTED && LAST_ALPHA < e.0 && e.0 < LAST_BETA && -SCORE_LIMIT <= e.0 && e.0 <= SCORE_LIMIT),
        }
    }
}

//@ obligation: C04.canary.aspiration
//@ canary: true
//@ timeout: 900
#[kani::proof]
#[kani::unwind(50)]
fn vk_c04_canary_aspiration() {
    let (mut g, mut pv, mut ctx) = (Game, PrincipalVariation, SearchContext(std::marker::PhantomData));
    let r = aspiration_search__body(&mut g, 7, Some(Eval(10)), &mut pv, &mut ctx);
    assert!(unsafe { NEGAMAX_CALLS } < 3); // must FAIL: re-searches happen
}
