//@@ module: engine/eval/mod.rs
//@@ tag: c16compose
//@@ noglob: Game and the three term modules are re-declared as callee contracts
// The top of the evaluation -- `eval`, `absolute_eval`, `absolute_eval_with_trace` -- verbatim from /repo on every run,
// against the CONTRACTS of the three term functions (each: some packed value with halves in +-8000, asked exactly once
// about the caller's game) and of the incremental accumulator field (C15).  Decides the sign convention of the score
// (white's view negated for Black: the colour symmetry of the WHOLE evaluation reduces to that of the terms) and that
// the blend is applied to the plain sum of the four parts with the game's own phase counter.
use super::{Eval, IncrementalEvalFields, PhasedEval, Trace, WhiteEval};
use crate::chess::player::Player;

pub static mut CALLS: [u8; 3] = [0; 3];
pub static mut ANSWERS: [(i16, i16); 3] = [(0, 0); 3];
pub static mut GAME_ID: u8 = 0;

pub struct Game {
    pub player: Player,
    pub incremental_eval: IncrementalEvalFields,
    pub id: u8,
    // fields of the position that an evaluation might (wrongly or rightly) consult: arbitrary values
    pub halfmove_clock: u32,
    pub plies: u32,
}
fn term(i: usize, game: &Game) -> PhasedEval {
    let (a, b): (i16, i16) = (kani::any(), kani::any());
    kani::assume(-8000 <= a && a <= 8000 && -8000 <= b && b <= 8000);
    unsafe {
        assert!(game.id == GAME_ID, "the terms are computed for the position being evaluated");
        CALLS[i] += 1;
        ANSWERS[i] = (a, b);
    }
    PhasedEval::new(a, b)
}
pub mod material {
    use super::*;
    pub fn eval<const TRACE: bool>(game: &Game, _trace: &mut Trace) -> PhasedEval {
        term(0, game)
    }
    pub fn trace_psts_and_material(_game: &Game, _trace: &mut Trace) {}
}
pub mod mobility_and_king_safety {
    use super::*;
    pub fn eval<const TRACE: bool>(game: &Game, _trace: &mut Trace) -> PhasedEval {
        term(1, game)
    }
}
pub mod pawn_structure {
    use super::*;
    pub fn eval<const TRACE: bool>(game: &Game, _trace: &mut Trace) -> PhasedEval {
        term(2, game)
    }
}

//@@ body: engine/eval/mod.rs :: fn absolute_eval_with_trace => absolute_eval_with_trace
//@@ body: engine/eval/mod.rs :: fn absolute_eval => absolute_eval
//@@ body: engine/eval/mod.rs :: fn eval => eval__body

//@ obligation: C16.compose.sum_blend_sign
//@ property: C16 C04
//@ domain: complete
//@ functions: engine/eval/mod.rs::eval, engine/eval/mod.rs::absolute_eval, engine/eval/mod.rs::absolute_eval_with_trace
//@ timeout: 900
//@ mem_gb: 6
//@ note: for every side to move, every phase counter 0..=24+ (all i16 the blend accepts: 0..=256), every accumulator value and every answer of the three term functions (halves within +-8000 each): the score is the phase blend (C16.blend.*) of accumulator + material + mobility/king-safety + pawn-structure, each term asked exactly once about the position being evaluated, seen from the side to move: White gets the blended value, Black its negation -- so a colour-swapped position gets the same score whenever the four parts are colour-symmetric
//@ assumes: callee contracts of the three term functions (C16.mobility.*, C16.passed.*, C16.terms_mirror.bishop_pair) and of the accumulator (C15); |halves| <= 8000 per part (C16.range.table_bound bounds the real totals)
#[kani::proof]
#[kani::unwind(4)]
fn vk_c16_compose_sum_blend_sign() {
    let player = if kani::any() { Player::White } else { Player::Black };
    let (a, b): (i16, i16) = (kani::any(), kani::any());
    kani::assume(-8000 <= a && a <= 8000 && -8000 <= b && b <= 8000);
    let phase: i16 = kani::any();
    kani::assume(0 <= phase && phase <= 256);
    let id: u8 = kani::any();
    unsafe {
        GAME_ID = id;
        CALLS = [0; 3];
    }
    let game = Game { player, incremental_eval: IncrementalEvalFields { phase_value: phase, piece_square_tables: PhasedEval::new(a, b) }, id, halfmove_clock: kani::any(), plies: kani::any() };
    let got = eval__body(&game);
    unsafe {
        assert!(CALLS[0] == 1 && CALLS[1] == 1 && CALLS[2] == 1);
        let sum = PhasedEval::new(a, b) + PhasedEval::new(ANSWERS[0].0, ANSWERS[0].1) + PhasedEval::new(ANSWERS[1].0, ANSWERS[1].1) + PhasedEval::new(ANSWERS[2].0, ANSWERS[2].1);
        let w: WhiteEval = sum.for_phase(phase);
        kani::cover!(player == Player::Black && w.0 > 0);
        assert!(got.0 == if player == Player::White { w.0 } else { -w.0 });
    }
}
