//@@ module: chess/san/san_writer.rs
//@@ tag: c18g
//@@ noglob: String / ToString / format! / Game / Move / Square are bound by scope to ghost stand-ins (support/gtext.rs)
// THE SAN WRITER'S TEXT UNDER CONTRACT.  Body of `format_move` (verbatim from /repo on every run; its format! calls with
// implicitly captured arguments written out positionally -- Rust's own desugaring, recorded in the evidence) compiled in a
// #![no_implicit_prelude] scope against
//   * the GHOST TEXT library (String / format! / to_string / Square::notation -- the latter /repo's own text), and
//   * CONTRACTS of everything it asks of the position:
//       game.board.piece_at(from)  -> the mover (an arbitrary piece of the side to move; only the mover's square is asked)
//       game.clone()               -> a scratch copy (ghost flag)
//       copy.make_move(mv)         -> on the COPY, exactly this move, once            (meaning: C02.make_undo.*)
//       board copy edited by hand  -> remove_at / set_at edits must be exactly the rules' effect of this move (C02)
//       copy.is_king_in_check()    -> asked of the copy AFTER the move; arbitrary recorded bool (meaning: C01.in_check.exact)
//       copy.moves().is_empty()    -> "the opponent has no reply" after the move; arbitrary recorded bool (C01)
//       required_ambiguity_resolution(game, mv) -> arbitrary recorded answer, asked BEFORE the move (C18.disambiguation.minimal)
// so the obligations range over EVERY (piece kind, from, to, move class, promotion piece, side, disambiguation answer,
// check answer, has-reply answer) and compare the text byte for byte with an independently written conventional SAN.
// History: with the REAL String machinery this did not fit CBMC (> 12 GB), see @c18txt.rs (kept experimental).
use crate::chess::piece::{Piece, PieceKind, PromotionPieceKind};
use crate::chess::player::Player;
use crate::verif_support::geo;
use crate::verif_support::gtext;

macro_rules! format { ($($t:tt)*) => { $crate::gtext_format!($($t)*) } }

pub static mut EXPECT_MV: Option<crate::chess::moves::Move> = None;
pub static mut EXPECT_FROM: u8 = 0;
pub static mut MADE: u8 = 0;
pub static mut CHECK_ASKED: u8 = 0;
pub static mut CHECK_ANSWER: bool = false;
pub static mut REPLY_ASKED: u8 = 0;
pub static mut NO_REPLY_ANSWER: bool = false;
pub static mut AMB_CALLS: u8 = 0;
pub static mut AMB_ANSWER: u8 = 0;

pub mod g {
    #![no_implicit_prelude]
    use ::core::prelude::rust_2021::*;
    use ::core::{matches, unreachable};
    macro_rules! assert { ($c:expr, $m:expr) => { ::kani::assert($c, $m) }; ($c:expr) => { ::kani::assert($c, "assertion") } }
    use super::super::AmbiguityResolution;
    use super::{AMB_ANSWER, AMB_CALLS, CHECK_ANSWER, CHECK_ASKED, EXPECT_FROM, EXPECT_MV, MADE, NO_REPLY_ANSWER, REPLY_ASKED};
    use crate::chess::piece::{Piece, PieceKind, PromotionPieceKind};
    use crate::chess::player::Player;
    use crate::chess::san;
    pub use crate::verif_support::gsq::Square;
    /// the `squares` helpers: the real functions; the one that TAKES a square accepts a ghost or a real one
    pub mod squares {
        pub use crate::chess::square::squares::{king_start, kingside_castle_dest, kingside_rook_start, queenside_castle_dest, queenside_rook_start};
        pub fn castle_squares<S: ::core::convert::Into<crate::chess::square::Square>>(p: crate::chess::player::Player, king_moved_to: S) -> ::core::option::Option<(crate::chess::square::Square, crate::chess::square::Square)> {
            crate::chess::square::squares::castle_squares(p, king_moved_to.into())
        }
    }
    pub use crate::verif_support::gtext::{String, ToString};

    /// ghost carrier of a move: accessors delegate to the real Move; squares come back as ghost squares
    #[derive(Clone, Copy, PartialEq, Eq)]
    pub struct Move(pub crate::chess::moves::Move);
    impl Move {
        pub fn src(self) -> Square {
            Square(self.0.src())
        }
        pub fn dst(self) -> Square {
            Square(self.0.dst())
        }
        pub fn is_capture(self) -> bool {
            self.0.is_capture()
        }
        pub fn is_en_passant(self) -> bool {
            self.0.is_en_passant()
        }
        pub fn is_castling(self) -> bool {
            self.0.is_castling()
        }
        pub fn promotion(self) -> Option<PromotionPieceKind> {
            self.0.promotion()
        }
    }
    /// ghost board: knows the mover; a COPY of it may be edited by hand (remove_at / set_at) and asked for check -- the
    /// contract then demands that the edits are exactly the rules' effect of THIS move (C02 says what that is): the
    /// mover's square vacated, a captured piece gone (the en-passant victim from ITS square), the moved or promoted piece
    /// (and the castling rook) placed -- only then is the recorded check answer the answer for the position after the move
    pub struct Board {
        pub mover: Piece,
        pub is_copy: bool,
        pub removed: u64,
        pub placed_mask: u64,
        pub placed_ok: bool,
    }
    impl Clone for Board {
        fn clone(&self) -> Self {
            Board { mover: self.mover, is_copy: true, removed: self.removed, placed_mask: self.placed_mask, placed_ok: self.placed_ok }
        }
    }
    fn rook_hop(mv: crate::chess::moves::Move) -> Option<(u8, u8)> {
        if !mv.is_castling() {
            return None;
        }
        let home = mv.src().idx() & 56;
        if mv.dst().idx() > mv.src().idx() { Some((home + 7, home + 5)) } else { Some((home, home + 3)) }
    }
    impl Board {
        pub fn piece_at<S: Into<Square>>(&self, s: S) -> Option<Piece> {
            let s: Square = s.into();
            assert!(s.idx() == unsafe { EXPECT_FROM }, "only the mover's square is looked up");
            assert!(!self.is_copy || self.removed == 0, "the mover is looked up on the position before the move");
            Some(self.mover)
        }
        pub fn remove_at<S: Into<Square>>(&mut self, s: S) {
            let s: Square = s.into();
            assert!(self.is_copy, "the caller's position must not be edited");
            self.removed |= 1u64 << s.idx();
        }
        pub fn set_at<S: Into<Square>>(&mut self, s: S, p: Piece) {
            let s: Square = s.into();
            assert!(self.is_copy, "the caller's position must not be edited");
            // Board::set_at requires an EMPTY square (C02.board.set_remove): a captured piece must have been removed first
            let mv0 = unsafe { EXPECT_MV }.unwrap();
            if mv0.is_capture() && !mv0.is_en_passant() && s.idx() == mv0.dst().idx() && self.removed & (1u64 << s.idx()) == 0 {
                self.placed_ok = false;
            }
            let mv = unsafe { EXPECT_MV }.unwrap();
            let want = match mv.promotion() {
                Some(k) => Piece::new(self.mover.player, k.piece()),
                None => self.mover,
            };
            let ok_mover = s.idx() == mv.dst().idx() && p == want;
            let ok_rook = match rook_hop(mv) {
                Some((_, t)) => s.idx() == t && p == Piece::new(self.mover.player, PieceKind::Rook),
                None => false,
            };
            if !(ok_mover || ok_rook) {
                self.placed_ok = false;
            }
            self.placed_mask |= 1u64 << s.idx();
        }
        pub fn king_in_check(&self, player: Player) -> bool {
            assert!(self.is_copy, "check is judged in the position AFTER the move");
            assert!(player == self.mover.player.other(), "the suffix is about the OPPONENT's king");
            let mv = unsafe { EXPECT_MV }.unwrap();
            let (from, to) = (mv.src().idx(), mv.dst().idx());
            let mut must_remove = 1u64 << from;
            let mut must_place = 1u64 << to;
            if mv.is_capture() && !mv.is_en_passant() {
                must_remove |= 1u64 << to;
            }
            if mv.is_en_passant() {
                let victim = if self.mover.player == Player::White { to.wrapping_sub(8) } else { to.wrapping_add(8) } & 63;
                must_remove |= 1u64 << victim;
            }
            if let Some((rf, rt)) = rook_hop(mv) {
                must_remove |= 1u64 << rf;
                must_place |= 1u64 << rt;
            }
            // vacating the destination first is harmless (capture, or an empty square)
            let may_remove = must_remove | (1u64 << to);
            let edits_are_the_move = self.removed & must_remove == must_remove && self.removed & !may_remove == 0 && self.placed_mask == must_place && self.placed_ok;
            assert!(edits_are_the_move, "check is judged on a hand-edited board that is NOT the position after the move");
            unsafe {
                CHECK_ASKED += 1;
                CHECK_ANSWER
            }
        }
    }
    pub struct GhostMoves {
        empty: bool,
    }
    impl GhostMoves {
        pub fn is_empty(&self) -> bool {
            self.empty
        }
        pub fn len(&self) -> usize {
            if self.empty { 0 } else { 1 }
        }
    }
    pub struct Game {
        pub board: Board,
        pub player: Player,
        pub is_copy: bool,
        pub moved: bool,
    }
    impl Clone for Game {
        fn clone(&self) -> Self {
            Game { board: self.board.clone(), player: self.player, is_copy: true, moved: self.moved }
        }
    }
    impl Game {
        pub fn make_move(&mut self, mv: Move) {
            assert!(self.is_copy && !self.moved, "the move is played once, on a scratch copy");
            unsafe {
                assert!(EXPECT_MV == Some(mv.0), "the move played on the scratch copy is the move being written");
                MADE += 1;
            }
            self.moved = true;
            self.player = self.player.other();
        }
        pub fn is_king_in_check(&self) -> bool {
            assert!(self.is_copy && self.moved, "check is judged in the position AFTER the move");
            assert!(self.board.removed == 0 && self.board.placed_mask == 0, "the scratch game's board was also edited by hand");
            unsafe {
                CHECK_ASKED += 1;
                CHECK_ANSWER
            }
        }
        /// the legal replies in the position after the move (only emptiness is observable here)
        pub fn moves(&self) -> GhostMoves {
            assert!(self.is_copy && self.moved, "replies are the opponent's moves in the position AFTER the move");
            unsafe {
                REPLY_ASKED += 1;
                GhostMoves { empty: NO_REPLY_ANSWER }
            }
        }
    }

    pub fn required_ambiguity_resolution(game: &Game, mv: Move) -> AmbiguityResolution {
        assert!(!game.is_copy && !game.moved, "disambiguation is computed in the position BEFORE the move");
        unsafe {
            assert!(EXPECT_MV == Some(mv.0));
            AMB_CALLS += 1;
        }
        let kind = game.board.mover.kind;
        let a = unsafe { AMB_ANSWER };
        let a = if kind == PieceKind::Pawn || kind == PieceKind::King { 0 } else { a };
        unsafe {
            AMB_ANSWER = a;
        }
        match a {
            0 => AmbiguityResolution::None,
            1 => AmbiguityResolution::File,
            2 => AmbiguityResolution::Rank,
            _ => AmbiguityResolution::Exact,
        }
    }

    //@@ body: chess/san/san_writer.rs :: fn format_move => format_move pub inline-format
}

pub const QUIET: u8 = 0;
pub const CAPTURE: u8 = 1;
pub const EN_PASSANT: u8 = 2;
pub const CASTLE_K: u8 = 3;
pub const CASTLE_Q: u8 = 4;
pub const PROMO: u8 = 5;
pub const CAP_PROMO: u8 = 6;

fn file_ch(s: u8) -> u8 {
    b'a' + (s % 8)
}
fn rank_ch(s: u8) -> u8 {
    b'1' + (s / 8)
}
fn any_promo() -> PromotionPieceKind {
    match kani::any::<u8>() % 4 {
        0 => PromotionPieceKind::Knight,
        1 => PromotionPieceKind::Bishop,
        2 => PromotionPieceKind::Rook,
        _ => PromotionPieceKind::Queen,
    }
}

/// the conventional SAN text of the move WITHOUT its check / mate suffix, written independently of the engine's code
fn spec_text(kind: PieceKind, mv: crate::chess::moves::Move, class: u8, amb: u8) -> ([u8; 10], usize) {
    let mut t = [0u8; 10];
    let mut n = 0;
    let (from, to) = (mv.src().idx(), mv.dst().idx());
    if class == CASTLE_K || class == CASTLE_Q {
        t[0] = b'O';
        t[1] = b'-';
        t[2] = b'O';
        n = 3;
        if class == CASTLE_Q {
            t[3] = b'-';
            t[4] = b'O';
            n = 5;
        }
    } else {
        let is_capture = class == CAPTURE || class == EN_PASSANT || class == CAP_PROMO;
        match kind {
            PieceKind::Pawn => {
                if is_capture {
                    t[n] = file_ch(from);
                    n += 1;
                }
            }
            PieceKind::Knight => { t[n] = b'N'; n += 1; }
            PieceKind::Bishop => { t[n] = b'B'; n += 1; }
            PieceKind::Rook => { t[n] = b'R'; n += 1; }
            PieceKind::Queen => { t[n] = b'Q'; n += 1; }
            PieceKind::King => { t[n] = b'K'; n += 1; }
        }
        if amb == 1 || amb == 3 {
            t[n] = file_ch(from);
            n += 1;
        }
        if amb == 2 || amb == 3 {
            t[n] = rank_ch(from);
            n += 1;
        }
        if is_capture {
            t[n] = b'x';
            n += 1;
        }
        t[n] = file_ch(to);
        t[n + 1] = rank_ch(to);
        n += 2;
        if let Some(p) = mv.promotion() {
            t[n] = b'=';
            t[n + 1] = match p {
                PromotionPieceKind::Knight => b'N',
                PromotionPieceKind::Bishop => b'B',
                PromotionPieceKind::Rook => b'R',
                PromotionPieceKind::Queen => b'Q',
            };
            n += 2;
        }
    }
    (t, n)
}

fn check_text(class: u8) {
    use crate::chess::moves::Move;
    let player = geo::any_player();
    let home: u8 = if player == Player::White { 0 } else { 56 };
    let (from, to) = (geo::any_square(), geo::any_square());
    kani::assume(from != to);
    let k: usize = kani::any();
    kani::assume(k < 6);
    let kind = PieceKind::ALL[k];
    // shape of each move class (what C01 establishes for generated moves)
    let mv = if class == QUIET {
        // a king leaving its home square for a castling destination without castling is not a legal quiet move
        // (two files) -- the writer tells castling from the squares, so exclude that impossible shape
        kani::assume(!(kind == PieceKind::King && from.idx() == home + 4 && (to.idx() == home + 6 || to.idx() == home + 2)));
        Move::quiet(from, to)
    } else if class == CAPTURE {
        kani::assume(!(kind == PieceKind::King && from.idx() == home + 4 && (to.idx() == home + 6 || to.idx() == home + 2)));
        Move::capture(from, to)
    } else if class == EN_PASSANT {
        kani::assume(kind == PieceKind::Pawn);
        // shape of an en-passant capture: from the fifth rank (as the mover counts) diagonally onto the sixth
        let (ff, fr, tf, tr) = (from.idx() % 8, from.idx() / 8, to.idx() % 8, to.idx() / 8);
        kani::assume(if player == Player::White { fr == 4 && tr == 5 } else { fr == 3 && tr == 2 });
        kani::assume(ff + 1 == tf || tf + 1 == ff);
        Move::en_passant(from, to)
    } else if class == CASTLE_K {
        kani::assume(kind == PieceKind::King && from.idx() == home + 4 && to.idx() == home + 6);
        Move::castles(from, to)
    } else if class == CASTLE_Q {
        kani::assume(kind == PieceKind::King && from.idx() == home + 4 && to.idx() == home + 2);
        Move::castles(from, to)
    } else if class == PROMO {
        kani::assume(kind == PieceKind::Pawn);
        Move::quiet_promotion(from, to, any_promo())
    } else {
        kani::assume(kind == PieceKind::Pawn);
        Move::capture_promotion(from, to, any_promo())
    };
    let gives_check: bool = kani::any();
    let no_reply: bool = kani::any();
    let amb_in: u8 = kani::any();
    kani::assume(amb_in < 4);
    unsafe {
        EXPECT_MV = Some(mv);
        EXPECT_FROM = from.idx();
        MADE = 0;
        CHECK_ASKED = 0;
        REPLY_ASKED = 0;
        AMB_CALLS = 0;
        AMB_ANSWER = amb_in;
        CHECK_ANSWER = gives_check;
        NO_REPLY_ANSWER = no_reply;
    }
    let game = g::Game { board: g::Board { mover: Piece::new(player, kind), is_copy: false, removed: 0, placed_mask: 0, placed_ok: true }, player, is_copy: false, moved: false };
    let got = g::format_move(&game, g::Move(mv));
    let castle = class == CASTLE_K || class == CASTLE_Q;
    let amb = unsafe { AMB_ANSWER };
    let (t, n) = spec_text(kind, mv, class, amb);
    kani::cover!(gives_check && amb_in == 3);
    kani::cover!(!gives_check && player == Player::Black);
    kani::cover!(gives_check && no_reply);
    unsafe {
        assert!(CHECK_ASKED >= 1 && MADE <= 1, "the suffix comes from asking whether the opponent is in check in the position after the move (each ask is checked to be on such a position)");
        assert!(castle || AMB_CALLS == 1);
    }
    // the property: "carries a check or mate suffix EXACTLY WHEN the move gives check (castling included)"
    let want_len = if gives_check { n + 1 } else { n };
    assert!(got.len() == want_len, "SAN text: conventional length; a check/mate suffix exactly when the move gives check");
    let mut i = 0;
    while i < 10 {
        if i < n {
            assert!(got.byte(i) == t[i], "SAN text equals the conventional text");
        }
        i += 1;
    }
    if gives_check {
        let c = got.byte(n);
        // '+' for check; '#' is acceptable only for a check the opponent has no reply to (the writer asked and was told so)
        assert!(c == b'+' || (c == b'#' && no_reply && unsafe { REPLY_ASKED } >= 1), "suffix must be '+' (or '#' for mate)");
    }
}

//@ obligation: C18.gtext.piece_moves
//@ property: C18
//@ domain: complete
//@ functions: chess/san/san_writer.rs::format_move, chess/square.rs::Square::notation
//@ timeout: 1200
//@ mem_gb: 6
//@ note: body of format_move against callee contracts and the ghost text library, for every piece kind, from/to pair, side, quiet move or capture, disambiguation answer, check answer and has-reply answer: the text is exactly [piece letter | capturing pawn's file][from-file][from-rank]['x']<destination> followed by a suffix ('+', or '#' when the opponent has no reply) EXACTLY when the position after the move (move played once, on a scratch copy) has the side to move in check
//@ assumes: callee contracts (C02.make_undo.*, C01.in_check.exact, C18.disambiguation.minimal); ghost text library (support/gtext.rs) stands for alloc's String / format! / ToString: concatenation of Display renderings in order; Display for File / Rank writes notation()
#[kani::proof]
#[kani::unwind(12)]
fn vk_c18_gtext_piece_moves() {
    let class = if kani::any() { QUIET } else { CAPTURE };
    check_text(class);
}

//@ obligation: C18.gtext.pawn_specials
//@ property: C18
//@ domain: complete
//@ functions: chess/san/san_writer.rs::format_move
//@ timeout: 1200
//@ mem_gb: 6
//@ note: as C18.gtext.piece_moves for en passant (<file>x<destination>), promotions (<destination>=<N|B|R|Q>) and capturing promotions (<file>x<destination>=<N|B|R|Q>), each with the suffix exactly when the move gives check
//@ assumes: as C18.gtext.piece_moves
#[kani::proof]
#[kani::unwind(12)]
fn vk_c18_gtext_pawn_specials() {
    let c: u8 = kani::any();
    kani::assume(c == EN_PASSANT || c == PROMO || c == CAP_PROMO);
    check_text(c);
}

//@ obligation: C18.gtext.castling
//@ property: C18
//@ domain: complete
//@ functions: chess/san/san_writer.rs::format_move
//@ timeout: 1200
//@ mem_gb: 6
//@ note: castling is written O-O / O-O-O and -- 'castling included' in the property -- carries the suffix exactly when it gives check
//@ assumes: as C18.gtext.piece_moves
#[kani::proof]
#[kani::unwind(12)]
fn vk_c18_gtext_castling() {
    let class = if kani::any() { CASTLE_K } else { CASTLE_Q };
    check_text(class);
}

//@ obligation: C18.canary.gtext
//@ property: C18
//@ canary: true
//@ timeout: 1200
//@ mem_gb: 6
#[kani::proof]
#[kani::unwind(12)]
fn vk_c18_canary_gtext() {
    use crate::chess::moves::Move;
    let player = geo::any_player();
    let (from, to) = (geo::any_square(), geo::any_square());
    kani::assume(from != to);
    let mv = Move::en_passant(from, to);
    unsafe {
        EXPECT_MV = Some(mv);
        EXPECT_FROM = from.idx();
        MADE = 0;
        CHECK_ASKED = 0;
        CHECK_ANSWER = kani::any();
        NO_REPLY_ANSWER = kani::any();
        AMB_ANSWER = 0;
    }
    let game = g::Game { board: g::Board { mover: Piece::new(player, PieceKind::Pawn), is_copy: false, removed: 0, placed_mask: 0, placed_ok: true }, player, is_copy: false, moved: false };
    let got = g::format_move(&game, g::Move(mv));
    assert!(got.len() == 4); // must FAIL: en passant can give check ("exd6+")
}
