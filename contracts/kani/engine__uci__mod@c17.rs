//@@ module: engine/uci/mod.rs
//@@ tag: c17
//@@ noglob: Game / move list are ghost recorders
// The move-list loop of the `position` command (`for mv in moves { ... }`, copied verbatim from Uci::execute on every run)
// against the contracts of its callees: game.moves().expect_matching(..) (C17.expect_matching: returns THE legal move
// with that (from, to, promotion) triple) and game.make_move(..) (C02).
use crate::chess::moves::Move;
use crate::chess::piece::PromotionPieceKind;
use crate::chess::square::Square;
use crate::engine::uci::UciMove;
// names the loop may legitimately consult
use crate::chess::player::Player;
use crate::chess::square::squares;

pub const N: usize = 3;
pub static mut ASKED: [Option<(u8, u8, Option<PromotionPieceKind>)>; N] = [None; N];
pub static mut ASK_N: usize = 0;
pub static mut MADE: [Option<Move>; N] = [None; N];
pub static mut MADE_N: usize = 0;
pub static mut ANSWER: [Option<Move>; N] = [None; N];

pub struct GhostList;
impl GhostList {
    /// CONTRACT: the legal move of the CURRENT position with this triple (an arbitrary move per call)
    pub fn expect_matching(&self, src: Square, dst: Square, promotion: Option<PromotionPieceKind>) -> Move {
        unsafe {
            assert!(ASK_N < N);
            assert!(MADE_N == ASK_N, "the previous move must have been played before the next one is looked up");
            ASKED[ASK_N] = Some((src.idx(), dst.idx(), promotion));
            let (s, d): (u8, u8) = (kani::any(), kani::any());
            kani::assume(s < 64 && d < 64 && s != d);
            let m = if kani::any() { Move::quiet(Square::from_index(s), Square::from_index(d)) } else { Move::capture(Square::from_index(s), Square::from_index(d)) };
            ANSWER[ASK_N] = Some(m);
            ASK_N += 1;
            m
        }
    }
}
pub struct Game {
    pub player: Player,
}
impl Game {
    pub fn moves(&self) -> GhostList {
        GhostList
    }
    pub fn make_move(&mut self, m: Move) {
        unsafe {
            assert!(MADE_N < N);
            MADE[MADE_N] = Some(m);
            MADE_N += 1;
        }
    }
}

//@@ closure: engine/uci/mod.rs :: impl Uci / fn execute :: for mv in moves => fn apply_moves__body(game: &mut Game, moves: &Vec<UciMove>)

//@ obligation: C17.apply.move_list
//@ domain: bounded(move list of <= 3 moves; the loop body is identical for every move)
//@ functions: engine/uci/mod.rs::Uci::execute
//@ timeout: 900
//@ mem_gb: 6
//@ note: the loop that applies `position ... moves m1 m2 ...`: for every list of up to 3 text moves, in order, it looks up EXACTLY the (from, to, promotion) the GUI sent among the legal moves of the position reached so far and plays EXACTLY the move that lookup returned, nothing else; hence (C17.expect_matching, C01, C02, induction over the list) the final position is the one the rules prescribe for that game
//@ assumes: callee contracts C17.expect_matching and C02.make_undo.*; Vec iteration order
#[kani::proof]
#[kani::unwind(6)]
fn vk_c17_apply_move_list() {
    let n: usize = kani::any();
    kani::assume(n <= N);
    let mut v: Vec<UciMove> = Vec::new();
    let mut want = [None; N];
    let mut i = 0;
    while i < N {
        if i < n {
            let (s, d): (u8, u8) = (kani::any(), kani::any());
            kani::assume(s < 64 && d < 64);
            let p = match kani::any::<u8>() % 5 {
                0 => Some(PromotionPieceKind::Knight),
                1 => Some(PromotionPieceKind::Bishop),
                2 => Some(PromotionPieceKind::Rook),
                3 => Some(PromotionPieceKind::Queen),
                _ => None,
            };
            v.push(UciMove { src: Square::from_index(s), dst: Square::from_index(d), promotion: p });
            want[i] = Some((s, d, p));
        }
        i += 1;
    }
    unsafe {
        ASK_N = 0;
        MADE_N = 0;
    }
    let mut g = Game { player: if kani::any() { Player::White } else { Player::Black } };
    apply_moves__body(&mut g, &v);
    unsafe {
        kani::cover!(n == N);
        assert!(ASK_N == n && MADE_N == n);
        let mut i = 0;
        while i < N {
            if i < n {
                assert!(ASKED[i] == want[i]);
                assert!(MADE[i] == ANSWER[i]);
            }
            i += 1;
        }
    }
    std::mem::forget(v);
}
