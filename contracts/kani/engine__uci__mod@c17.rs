//@@ module: engine/uci/mod.rs
//@@ tag: c17
//@@ noglob: Game / move list are ghost recorders
// The move-list loop of the `position` command (`for mv in moves { ... }`, copied verbatim from Uci::execute on every run)
// against the contracts of its callees: game.moves().expect_matching(..) (C17.expect_matching: returns THE legal move
// with that (from, to, promotion) triple) and game.make_move(..) (C02).
use crate::chess::moves::Move;
use crate::chess::piece::PromotionPieceKind;
use crate::chess::square::Square;
use crate::engine::uci::UciMove;
// names the loop may legitimately consult
use crate::chess::player::Player;
use crate::chess::square::squares;

pub const N: usize = 3;
pub static mut ASKED: [Option<(u8, u8, Option<PromotionPieceKind>)>; N] = [None; N];
pub static mut ASK_N: usize = 0;
pub static mut MADE: [Option<Move>; N] = [None; N];
pub static mut MADE_N: usize = 0;
pub static mut ANSWER: [Option<Move>; N] = [None; N];

pub struct GhostList;
impl GhostList {
    /// CONTRACT: the legal move of the CURRENT position with this triple (an arbitrary move per call)
    pub fn expect_matching(&self, src: Square, dst: Square, promotion: Option<PromotionPieceKind>) -> Move {
        unsafe {
            assert!(ASK_N < N);
            assert!(MADE_N == ASK_N, "the previous move must have been played before the next one is looked up");
            ASKED[ASK_N] = Some((src.idx(), dst.idx(), promotion));
            let (s, d): (u8, u8) = (kani::any(), kani::any());
            kani::assume(s < 64 && d < 64 && s != d);
            let m = if kani::any() { Move::quiet(Square::from_index(s), Square::from_index(d)) } else { Move::capture(Square::from_index(s), Square::from_index(d)) };
            ANSWER[ASK_N] = Some(m);
            ASK_N += 1;
            m
        }
    }
}
pub struct Game {
    pub player: Player,
}
impl Game {
    pub fn moves(&self) -> GhostList {
        GhostList
    }
    pub fn make_move(&mut self, m: Move) {
        unsafe {
            assert!(MADE_N < N);
            MADE[MADE_N] = Some(m);
            MADE_N += 1;
        }
    }
}

//@@ closure: engine/uci/mod.rs :: impl Uci / fn execute :: for mv in moves => fn apply_moves__body(game: &mut Game, moves: &Vec<UciMove>)

//@ obligation: C17.apply.move_list
//@ domain: bounded(move list of <= 3 moves; the loop body is identical for every move)
//@ functions: engine/uci/mod.rs::Uci::execute
//@ timeout: 900
//@ mem_gb: 6
//@ note: the loop that applies `position ... moves m1 m2 ...`: for every list of up to 3 text moves, in order, it looks up EXACTLY the (from, to, promotion) the GUI sent among the legal moves of the position reached so far and plays EXACTLY the move that lookup returned, nothing else; hence (C17.expect_matching, C01, C02, induction over the list) the final position is the one the rules prescribe for that game
//@ assumes: callee contracts C17.expect_matching and C02.make_undo.*; Vec iteration order
#[kani::proof]
#[kani::unwind(6)]
fn vk_c17_apply_move_list() {
    let n: usize = kani::any();
    kani::assume(n <= N);
    let mut v: Vec<UciMove> = Vec::new();
    let mut want = [None; N];
    let mut i = 0;
    while i < N {
        if i < n {
            let (s, d): (u8, u8) = (kani::any(), kani::any());
            kani::assume(s < 64 && d < 64);
            let p = match kani::any::<u8>() % 5 {
                0 => Some(PromotionPieceKind::Knight),
                1 => Some(PromotionPieceKind::Bishop),
                2 => Some(PromotionPieceKind::Rook),
                3 => Some(PromotionPieceKind::Queen),
                _ => None,
            };
            v.push(UciMove { src: Square::from_index(s), dst: Square::from_index(d), promotion: p });
            want[i] = Some((s, d, p));
        }
        i += 1;
    }
    unsafe {
        ASK_N = 0;
        MADE_N = 0;
    }
    let mut g = Game { player: if kani::any() { Player::White } else { Player::Black } };
    apply_moves__body(&mut g, &v);
    unsafe {
        kani::cover!(n == N);
        assert!(ASK_N == n && MADE_N == n);
        let mut i = 0;
        while i < N {
            if i < n {
                assert!(ASKED[i] == want[i]);
                assert!(MADE[i] == ANSWER[i]);
            }
            i += 1;
        }
    }
    std::mem::forget(v);
}

// ---------------------------------------------------------------------------------------------------------------
// C17.position.rebuilt_from_scratch: the WHOLE `position` arm of Uci::execute (verbatim) on a ghost Uci / Game whose
// values carry their provenance: where the game value came from (the previous command's game, the start position, this
// command's FEN) and which moves were made on it.  Whatever the engine held before, after the command it holds a game
// created in THIS command from the named origin with exactly the listed moves applied -- nothing of the previous game.
// ---------------------------------------------------------------------------------------------------------------
pub mod arm {
    use crate::chess::moves::Move;
    use crate::chess::piece::PromotionPieceKind;
    use crate::chess::player::Player;
    use crate::chess::square::Square;
    use crate::engine::uci::commands;
    use crate::engine::uci::UciMove;

    pub const N: usize = 3;
    #[derive(Clone, Copy, PartialEq, Eq, Debug)]
    pub enum Origin {
        Previous,
        StartPos,
        Fen,
    }
    pub static mut ANSWER: [Option<Move>; N] = [None; N];
    pub static mut ASKED: [Option<(u8, u8, Option<PromotionPieceKind>)>; N] = [None; N];
    pub static mut ASK_N: usize = 0;
    pub static mut FEN_FAILS: bool = false;

    /// one entry of the game's public move history (the real History has more fields; `mv` is the one a `position`
    /// handler could plausibly look at)
    #[derive(Clone)]
    pub struct History {
        pub mv: Option<Move>,
    }
    #[derive(Clone)]
    pub struct Game {
        pub player: Player,
        pub history: Vec<History>,
        /// ghost provenance
        pub origin: Origin,
        pub made: [Option<Move>; N],
        pub made_n: usize,
    }
    pub struct GhostList;
    impl GhostList {
        pub fn expect_matching(&self, src: Square, dst: Square, promotion: Option<PromotionPieceKind>) -> Move {
            unsafe {
                assert!(ASK_N < N);
                ASKED[ASK_N] = Some((src.idx(), dst.idx(), promotion));
                let (s, d): (u8, u8) = (kani::any(), kani::any());
                kani::assume(s < 64 && d < 64 && s != d);
                let m = Move::quiet(Square::from_index(s), Square::from_index(d));
                ANSWER[ASK_N] = Some(m);
                ASK_N += 1;
                m
            }
        }
    }
    impl Game {
        pub fn new() -> Self {
            Game { player: Player::White, history: Vec::new(), origin: Origin::StartPos, made: [None; N], made_n: 0 }
        }
        pub fn from_fen(_fen: &str) -> Result<Self, String> {
            if unsafe { FEN_FAILS } {
                return Err(String::new());
            }
            Ok(Game { player: if kani::any() { Player::White } else { Player::Black }, history: Vec::new(), origin: Origin::Fen, made: [None; N], made_n: 0 })
        }
        pub fn moves(&self) -> GhostList {
            GhostList
        }
        pub fn make_move(&mut self, m: Move) {
            assert!(self.made_n < N);
            self.made[self.made_n] = Some(m);
            self.made_n += 1;
            self.history.push(History { mv: Some(m) });
            self.player = self.player.other();
        }
    }
    pub struct Uci {
        pub game: Game,
    }
    impl Uci {
        //@@ closure: engine/uci/mod.rs :: impl Uci / fn execute :: UciCommand::Position { position, moves } => => pub fn position_arm(&mut self, position: &commands::Position, moves: &Vec<UciMove>) -> Result<(), String> ;; Ok(())
    }
}

//@ obligation: C17.position.rebuilt_from_scratch
//@ domain: bounded(move list of <= 3 moves; previous game with <= 2 moves of history)
//@ functions: engine/uci/mod.rs::Uci::execute
//@ timeout: 1200
//@ mem_gb: 8
//@ note: the whole `position` arm, for startpos or a FEN (accepted or rejected), any list of up to 3 moves and ANY previously held game (from startpos or a FEN, with any moves already played -- including a history that is a prefix of the new list): afterwards the engine holds a game created by THIS command from the origin it names, on which exactly the looked-up moves were made in order; when the FEN is rejected the previously held game is untouched
//@ assumes: callee contracts C17.expect_matching, C02.make_undo.*, Game::new / from_fen (C06); Vec iteration order
#[kani::proof]
#[kani::unwind(6)]
fn vk_c17_position_rebuilt_from_scratch() {
    use arm::*;
    // the previously held game: arbitrary provenance marker `Previous`, up to 2 moves of history
    let hn: usize = kani::any();
    kani::assume(hn <= 2);
    let mut prev = Game { player: Player::White, history: Vec::new(), origin: Origin::Previous, made: [None; arm::N], made_n: 0 };
    let n: usize = kani::any();
    kani::assume(n <= arm::N);
    let mut v: Vec<UciMove> = Vec::new();
    let mut want = [None; arm::N];
    let mut i = 0;
    while i < arm::N {
        if i < n {
            let (s, d): (u8, u8) = (kani::any(), kani::any());
            kani::assume(s < 64 && d < 64 && s != d);
            v.push(UciMove { src: Square::from_index(s), dst: Square::from_index(d), promotion: None });
            want[i] = Some((s, d, None));
            // the previous game's history may coincide with a prefix of the new list (or not)
            if i < hn {
                let m = if kani::any() { Move::quiet(Square::from_index(s), Square::from_index(d)) } else { Move::quiet(Square::from_index(d), Square::from_index(s)) };
                prev.history.push(History { mv: Some(m) });
            }
        }
        i += 1;
    }
    let from_start: bool = kani::any();
    let position = if from_start { crate::engine::uci::commands::Position::StartPos } else { crate::engine::uci::commands::Position::Fen(String::new()) };
    unsafe {
        arm::ASK_N = 0;
        arm::FEN_FAILS = kani::any();
    }
    let mut uci = Uci { game: prev };
    let r = uci.position_arm(&position, &v);
    let fails = !from_start && unsafe { arm::FEN_FAILS };
    kani::cover!(r.is_ok() && n == arm::N && hn == 2);
    kani::cover!(fails);
    if fails {
        assert!(r.is_err());
        assert!(uci.game.origin == Origin::Previous && uci.game.made_n == 0);
    } else {
        assert!(r.is_ok());
        assert!(uci.game.origin == if from_start { Origin::StartPos } else { Origin::Fen }, "the game held after `position` is built from the origin the command names, not from the previous game");
        assert!(uci.game.made_n == n && unsafe { arm::ASK_N } == n);
        let mut i = 0;
        while i < arm::N {
            if i < n {
                assert!(unsafe { arm::ASKED[i] } == want[i]);
                assert!(uci.game.made[i] == unsafe { arm::ANSWER[i] });
            }
            i += 1;
        }
    }
    std::mem::forget(v);
    std::mem::forget(uci);
    std::mem::forget(position);
}
