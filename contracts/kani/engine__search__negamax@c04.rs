//@@ module: engine/search/negamax.rs
//@@ tag: c04
//@@ noglob: every name the body uses is bound here, to the real item or to a contract stand-in
// The text of `negamax` (and of DepthReduction) is copied VERBATIM from /repo on every run and compiled in this module,
// where the names of everything it calls are bound to CONTRACT FUNCTIONS (ghost environment below).  One invocation of
// the body is verified for EVERY environment that satisfies the callee contracts -- including the recursive call, whose
// contract is the one proved here (induction on the call tree).
//
//   callee                         contract used
//   should_stop                    may answer `true` at ANY call (then the search is "aborted")
//   child negamax / quiescence     require a legal window (P below), `plies` = ours + 1; return Err (aborted) or Ok(e), |e| <= 32000
//   eval::eval                     any value strictly inside +-31900                                   [C16.range]
//   tt.get                         None or an entry with |eval| <= 32000, any depth / bound / move     [C19]
//   tablebase                      n_men arbitrary, wdl arbitrary (FFI itself outside every claim)
//   MovePicker::next               up to MOVES_N (bound!) arbitrary moves, then None                   [C10]
//   make/undo (null) move          only counted: every make is undone before an Ok return              [C02]
//   killers / counter / history    index preconditions asserted (plies < 255 rows)                     [C04.index]
//   PrincipalVariation             ghost recorder (C09.pv_root / C08 clauses)
//   every contract function asserts "not aborted" on entry  =>  no further position is examined after the first Err
use crate::chess::bitboard::Bitboard;
use crate::chess::moves::Move;
use crate::chess::player::Player;
use crate::chess::square::Square;
use crate::engine::eval::Eval;
use crate::engine::search::transposition::{NodeBound, SearchTranspositionTableData};
use crate::engine::search::{params, MAX_SEARCH_DEPTH};
use crate::engine::tablebases::Wdl;
use crate::verif_support::geo;
use std::cmp::max;

pub const MOVES_N: u8 = 3; // bound on the number of moves the picker hands out per node
const SCORE_LIMIT: i16 = 32000;

// ---- ghost state ----
pub static mut ABORTED: bool = false;
pub static mut MADE: i32 = 0; // make_move/make_null_move minus undo
pub static mut OUR_PLIES: u8 = 0;
pub static mut PICKED: Option<Move> = None; // the move most recently handed out by the picker in THIS invocation
pub static mut PICKS: u8 = 0;
pub static mut CHILD_OK_SINCE_PICK: bool = false; // a child search returned Ok after the last pick
pub static mut CHILD_CALLS: u32 = 0;
pub static mut PV_WRITES: u8 = 0;
pub static mut PV_FIRST: Option<Move> = None; // first move of the caller's pv, if written in this invocation
pub static mut NODE_PV_CLEARED_SINCE_PICK: bool = false;
pub static mut TT_INSERTS: u8 = 0;
pub static mut TT_LAST_EVAL: i16 = 0;

pub fn live() {
    unsafe {
        assert!(!ABORTED, "a position was examined after the search had been told to stop");
    }
}

/// legal search window at a node `plies` from the root.  INDUCTIVE (DESIGN C04): the aspiration loop hands the root
/// alpha <= 31975 and beta >= -31975 (C04.aspiration.window_arith asserts it); every child window built by the body from
/// a window satisfying P and scores in +-32000 satisfies P again (asserted in the child contract below).
pub fn window_ok(alpha: Eval, beta: Eval, plies: u8) -> bool {
    let (a, b) = (alpha.0, beta.0);
    a < b && a <= 32000 && b >= -32000 && (plies == 0 || a >= -32767)
}

// ---- ghost stand-ins ----
pub struct GhostEntry {
    pub mv: Option<Move>,
}
pub struct GhostHistory(pub Option<GhostEntry>);
impl GhostHistory {
    pub fn last(&self) -> Option<&GhostEntry> {
        self.0.as_ref()
    }
}
pub struct GhostBoard;
impl GhostBoard {
    pub fn occupancy(&self) -> Bitboard {
        Bitboard::new(kani::any())
    }
}
pub struct Game {
    pub player: Player,
    pub history: GhostHistory,
    pub zobrist: crate::chess::zobrist::ZobristHash,
    pub board: GhostBoard,
}
impl Game {
    pub fn is_repeated_position(&self) -> bool {
        live();
        kani::any()
    }
    pub fn is_stalemate_by_fifty_move_rule(&self) -> bool {
        live();
        kani::any()
    }
    pub fn is_stalemate_by_insufficient_material(&self) -> bool {
        live();
        kani::any()
    }
    pub fn is_king_in_check(&self) -> bool {
        live();
        kani::any()
    }
    pub fn make_move(&mut self, _mv: Move) {
        live();
        unsafe { MADE += 1; }
    }
    pub fn undo_move(&mut self) {
        live();
        unsafe { MADE -= 1; }
    }
    pub fn make_null_move(&mut self) {
        live();
        unsafe { MADE += 1; }
    }
    pub fn undo_null_move(&mut self) {
        live();
        unsafe { MADE -= 1; }
    }
}

pub struct GhostTime;
impl GhostTime {
    /// CONTRACT of TimeStrategy::should_stop as seen by the search: may say "stop" at any poll (C09.should_stop.contract)
    pub fn should_stop(&mut self, _nodes: u64) -> bool {
        live();
        let stop: bool = kani::any();
        if stop {
            unsafe { ABORTED = true; }
        }
        stop
    }
}
pub struct GhostTT {
    pub generation: u8,
    pub entry: Option<SearchTranspositionTableData>,
}
impl GhostTT {
    pub fn get(&self, _k: &crate::chess::zobrist::ZobristHash) -> Option<&SearchTranspositionTableData> {
        live();
        self.entry.as_ref()
    }
    pub fn insert(&mut self, _k: &crate::chess::zobrist::ZobristHash, data: SearchTranspositionTableData) {
        live();
        unsafe {
            TT_INSERTS += 1;
            TT_LAST_EVAL = data.eval.0;
        }
        assert!(data.age == self.generation);
    }
}
pub static mut TB_ENABLED: bool = true;
pub struct GhostTB;
impl GhostTB {
    pub fn n_men(&self) -> u8 {
        if unsafe { TB_ENABLED } { kani::any() } else { 0 }
    }
    pub fn wdl(&self, _g: &Game) -> Option<Wdl> {
        live();
        match kani::any::<u8>() % 4 {
            0 => Some(Wdl::Win),
            1 => Some(Wdl::Draw),
            2 => Some(Wdl::Loss),
            _ => None,
        }
    }
}
pub struct GhostKillers;
impl GhostKillers {
    pub fn try_push(&mut self, plies: u8, _mv: Move) {
        live();
        assert!((plies as usize) < 255, "KillersTable has 255 rows: index out of range");
    }
}
pub struct GhostCounter;
impl GhostCounter {
    pub fn set(&mut self, _p: Player, _prev: Move, _mv: Move) {
        live();
    }
}
pub struct GhostHistT;
impl GhostHistT {
    pub fn add_bonus_for(&mut self, _p: Player, _mv: Move, _depth: u8) {
        live();
    }
}
pub struct SearchContext<'a> {
    pub time_control: GhostTime,
    pub nodes_visited: u64,
    pub max_depth_reached: u8,
    pub tt: GhostTT,
    pub tablebase: GhostTB,
    pub tbhits: u64,
    pub killer_moves: GhostKillers,
    pub countermove_table: GhostCounter,
    pub history_table: GhostHistT,
    pub _p: std::marker::PhantomData<&'a ()>,
}

pub struct MovePicker {
    pub left: u8,
}
impl MovePicker {
    pub fn new(_prev: Option<Move>) -> Self {
        MovePicker { left: MOVES_N }
    }
    pub fn new_loud() -> Self {
        MovePicker { left: MOVES_N }
    }
    /// CONTRACT of the picker as seen by the search: hands out (legal) moves, then None.  The killer table is read at
    /// [plies]: index precondition asserted.
    pub fn next(&mut self, _g: &Game, _ctx: &SearchContext<'_>, plies: u8) -> Option<Move> {
        live();
        assert!((plies as usize) < 255, "KillersTable has 255 rows: index out of range (read in MovePicker::next)");
        if self.left == 0 || kani::any() {
            self.left = 0;
            return None;
        }
        self.left -= 1;
        let (s, d) = (geo::any_square(), geo::any_square());
        kani::assume(s != d);
        let m = if kani::any() { Move::capture(s, d) } else { Move::quiet(s, d) };
        unsafe {
            PICKED = Some(m);
            PICKS += 1;
            CHILD_OK_SINCE_PICK = false;
            NODE_PV_CLEARED_SINCE_PICK = false;
        }
        Some(m)
    }
}

/// ghost PV: `is_callers` marks the pv handed to this invocation by its caller
pub struct PrincipalVariation {
    pub is_callers: bool,
    pub len: u8,
}
impl PrincipalVariation {
    pub fn new() -> Self {
        PrincipalVariation { is_callers: false, len: 0 }
    }
    pub fn clear(&mut self) {
        self.len = 0;
        if !self.is_callers {
            unsafe { NODE_PV_CLEARED_SINCE_PICK = true; }
        }
    }
    pub fn push(&mut self, mv: Move, child: &Self) {
        live();
        unsafe {
            // C09.pv_root / C08: the caller's line is only ever written as (a move the picker handed out in this
            // invocation) ++ (the line of a child search that COMPLETED for that move)
            assert!(self.is_callers && !child.is_callers);
            assert!(PICKED == Some(mv), "pv written with a move that did not come from the picker");
            assert!(CHILD_OK_SINCE_PICK, "pv written before the child search returned Ok");
            assert!(NODE_PV_CLEARED_SINCE_PICK, "child line not cleared before the child search");
            PV_WRITES += 1;
            PV_FIRST = Some(mv);
        }
        self.len = 1 + child.len;
    }
}

/// CONTRACT of the static evaluation (C16.range): strictly inside the non-mate band
pub fn eval_contract(_g: &Game) -> Eval {
    live();
    let e: i16 = kani::any();
    kani::assume(-31900 < e && e < 31900);
    Eval(e)
}
mod eval {
    pub use super::eval_contract as eval;
}
fn lmr_reduction(_depth: u8, _n: usize) -> u8 {
    kani::any()
}

pub fn child_contract(alpha: Eval, beta: Eval, plies: u8) -> Result<Eval, ()> {
    live();
    unsafe {
        assert!(MADE >= 1, "a child is searched without a move having been made");
        assert!(plies as u16 == OUR_PLIES as u16 + 1, "child searched at the wrong distance from the root");
        assert!(window_ok(alpha, beta, plies), "child searched with an illegal window");
        CHILD_CALLS += 1;
        if kani::any() {
            ABORTED = true;
            return Err(());
        }
        CHILD_OK_SINCE_PICK = true;
    }
    let e: i16 = kani::any();
    kani::assume(-SCORE_LIMIT <= e && e <= SCORE_LIMIT);
    Ok(Eval(e))
}
pub fn is_mate_score(e: i16) -> bool {
    e > 31900 || e < -31900
}
pub fn mate_distance(e: i16) -> i16 {
    32000 - (if e < 0 { -e } else { e })
}
/// the recursive call.  Besides the score range, the MATE-LINE CONTRACT (C08): a mate score is at least `plies` plies
/// away from the root, and when it is EXACT (strictly inside the window it was searched with) the line left in `pv` has
/// exactly the remaining number of plies.
pub fn negamax(_g: &mut Game, alpha: Eval, beta: Eval, _depth: u8, plies: u8, pv: &mut PrincipalVariation, _ctx: &mut SearchContext<'_>) -> Result<Eval, ()> {
    assert!(pv.len == 0 && !pv.is_callers, "child line not cleared before the child search");
    let r = child_contract(alpha, beta, plies);
    if let Ok(e) = r {
        // a null-window search never writes its line (proved for the body in C08.negamax.mate_pv): a fail-high leaves
        // the loop before the line is touched
        if beta.0 != alpha.0 + 1 {
            pv.len = kani::any();
            kani::assume(pv.len < 250);
        }
        if is_mate_score(e.0) && alpha < e && e < beta {
            kani::assume(mate_distance(e.0) >= plies as i16);
            kani::assume(pv.len as i16 == mate_distance(e.0) - plies as i16);
        }
    }
    r
}
pub fn quiescence(_g: &mut Game, alpha: Eval, beta: Eval, plies: u8, _ctx: &mut SearchContext<'_>) -> Result<Eval, ()> {
    live();
    unsafe {
        assert!(plies == OUR_PLIES, "quiescence entered at a different distance from the root");
        assert!(alpha < beta);
        if kani::any() {
            ABORTED = true;
            return Err(());
        }
    }
    // quiescence never produces mate scores (C04.quiescence.body_arith proves |score| < 31900 for it)
    let e: i16 = kani::any();
    kani::assume(-31900 < e && e < 31900);
    Ok(Eval(e))
}

//@@ item: engine/search/negamax.rs :: struct DepthReduction
//@@ item: engine/search/negamax.rs :: impl DepthReduction
//@@ body: engine/search/negamax.rs :: fn negamax => negamax__body

fn any_entry() -> Option<SearchTranspositionTableData> {
    if kani::any() {
        let e: i16 = kani::any();
        kani::assume(-SCORE_LIMIT <= e && e <= SCORE_LIMIT);
        let bound = match kani::any::<u8>() % 3 {
            0 => NodeBound::Exact,
            1 => NodeBound::Upper,
            _ => NodeBound::Lower,
        };
        let mv = if kani::any() {
            let (s, d) = (geo::any_square(), geo::any_square());
            kani::assume(s != d);
            Some(Move::quiet(s, d))
        } else {
            None
        };
        Some(SearchTranspositionTableData { bound, eval: Eval(e), depth: kani::any(), age: kani::any(), best_move: mv })
    } else {
        None
    }
}

pub fn any_game_ctx<'a>() -> (Game, SearchContext<'a>) {
    let game = Game {
        player: geo::any_player(),
        history: GhostHistory(if kani::any() { Some(GhostEntry { mv: if kani::any() { Some(Move::quiet(Square::from_index(1), Square::from_index(2))) } else { None } }) } else { None }),
        zobrist: crate::chess::zobrist::ZobristHash(kani::any()),
        board: GhostBoard,
    };
    let ctx = SearchContext {
        time_control: GhostTime,
        nodes_visited: kani::any(),
        max_depth_reached: kani::any(),
        tt: GhostTT { generation: kani::any(), entry: any_entry() },
        tablebase: GhostTB,
        tbhits: 0,
        killer_moves: GhostKillers,
        countermove_table: GhostCounter,
        history_table: GhostHistT,
        _p: std::marker::PhantomData,
    };
    kani::assume(ctx.nodes_visited < u64::MAX - 1_000_000);
    (game, ctx)
}
pub fn reset(plies: u8) {
    unsafe {
        ABORTED = false;
        MADE = 0;
        OUR_PLIES = plies;
        PICKED = None;
        PICKS = 0;
        CHILD_CALLS = 0;
        PV_WRITES = 0;
        PV_FIRST = None;
        TT_INSERTS = 0;
    }
}

struct Run {
    result: Result<Eval, ()>,
    alpha: Eval,
    beta: Eval,
    plies: u8,
    pv_len_after: u8,
}

fn run_once(max_plies: u8) -> Run {
    run_once_with(max_plies, false)
}

fn run_once_with(max_plies: u8, empty_line: bool) -> Run {
    let alpha = Eval(kani::any());
    let beta = Eval(kani::any());
    let depth: u8 = kani::any();
    let plies: u8 = kani::any();
    kani::assume(plies <= max_plies);
    kani::assume(window_ok(alpha, beta, plies));
    let (mut game, mut ctx) = any_game_ctx();
    let mut pv = PrincipalVariation { is_callers: true, len: kani::any() };
    if empty_line && plies > 0 {
        // callers clear the child's line before searching it (asserted in the child contract)
        kani::assume(pv.len == 0);
    }
    // table entries: a stored mate score is re-based to this ply when probed; contract of the table contents
    reset(plies);
    let result = negamax__body(&mut game, alpha, beta, depth, plies, &mut pv, &mut ctx);
    Run { result, alpha, beta, plies, pv_len_after: pv.len }
}

//@ obligation: C04.negamax.body_arith
//@ property: C04
//@ domain: bounded(<= 3 moves handed out per node)
//@ functions: engine/search/negamax.rs::negamax, engine/search/negamax.rs::DepthReduction::reduce_less_if, engine/search/negamax.rs::DepthReduction::value
//@ timeout: 2400
//@ mem_gb: 10
//@ note: one invocation of the negamax body for EVERY legal window, depth, distance from the root up to 254, table entry, evaluation, tablebase answer and every behaviour of its callees within their contracts: no i16/u8 overflow in any score/depth/ply computation, every child is searched with a legal window one ply further, killer-table indices stay below its 255 rows, and the result satisfies the contract assumed for the recursive call (|score| <= 32000) -- closing the induction over the call tree
//@ assumes: callee contracts listed at the top of the contract file; at most 3 moves per node are handed out (bound); plies <= 254 on entry (see C04.negamax.plies_bound)
#[kani::proof]
#[kani::unwind(5)]
fn vk_c04_negamax_body_arith() {
    let r = run_once(254);
    kani::cover!(r.result.is_ok() && unsafe { CHILD_CALLS } >= 4);
    kani::cover!(r.result.is_ok() && unsafe { TT_INSERTS } == 1 && unsafe { PICKS } == 3);
    if let Ok(e) = r.result {
        assert!(-SCORE_LIMIT <= e.0 && e.0 <= SCORE_LIMIT);
        assert!(unsafe { MADE } == 0, "the position is not restored on an Ok return");
        unsafe {
            if TT_INSERTS > 0 {
                assert!(-32767 <= TT_LAST_EVAL && TT_LAST_EVAL <= 32767);
            }
        }
    }
}

//@ obligation: C09.unwind.negamax
//@ property: C09 C04
//@ domain: bounded(<= 3 moves handed out per node)
//@ functions: engine/search/negamax.rs::negamax
//@ timeout: 2400
//@ mem_gb: 10
//@ note: whichever poll or child search first reports "stop" (every contract function may do so, at every call), the body examines NOTHING further (every contract function asserts it is not called after the stop) and returns Err; conversely Err is only returned after a stop; the caller's principal variation is written only as (move handed out by the picker in this invocation) ++ (line of a child search that completed for it), so an aborted search never leaves an unsearched move at the head of the line
//@ assumes: callee contracts listed at the top of the contract file; at most 3 moves per node (bound)
#[kani::proof]
#[kani::unwind(5)]
fn vk_c09_unwind_negamax() {
    let r = run_once(254);
    kani::cover!(r.result.is_err() && unsafe { CHILD_CALLS } >= 2);
    kani::cover!(r.result.is_ok() && unsafe { PV_WRITES } >= 1);
    unsafe {
        assert!(r.result.is_err() == ABORTED);
        if PV_WRITES == 0 {
            assert!(PV_FIRST.is_none());
        }
    }
}

//@ obligation: C08.negamax.mate_pv
//@ property: C08
//@ domain: bounded(<= 3 moves handed out per node)
//@ functions: engine/search/negamax.rs::negamax
//@ timeout: 2400
//@ mem_gb: 10
//@ note: mate-line contract, inductive over the call tree: at a non-root node entered with an empty line, whenever the body returns an EXACT mate score (strictly inside the window it was given) the line it leaves has exactly (mate distance - plies) moves, and that mate is at least `plies` plies from the root; at the root an exact result always comes with a freshly written line.  Hence a reported 'mate in N' carries a line of exactly the matching length (with C08.mate_arith.announce); table cut-offs and pruning returns never yield an exact score without a line
//@ assumes: tablebases disabled (n_men() == 0); callee contracts (children satisfy the same mate-line contract; quiescence returns no mate scores; table entries hold scores in +-32000); at most 3 moves per node (bound)
#[kani::proof]
#[kani::unwind(5)]
fn vk_c08_negamax_mate_pv() {
    // tablebases disabled (no path configured): the C code is outside every claim, and a tablebase 'win' raises alpha to
    // a mate score without a line
    unsafe { TB_ENABLED = false; }
    let r = run_once_with(254, true);
    kani::cover!(matches!(r.result, Ok(e) if is_mate_score(e.0) && r.alpha < e && e < r.beta && r.plies > 0 && e.0 > 0));
    kani::cover!(matches!(r.result, Ok(e) if is_mate_score(e.0) && r.alpha < e && e < r.beta && r.plies > 0 && e.0 < 0 && r.pv_len_after > 0));
    if let Ok(e) = r.result {
        if is_mate_score(e.0) && r.alpha < e && e < r.beta {
            assert!(mate_distance(e.0) >= r.plies as i16);
            if r.plies > 0 {
                assert!(r.pv_len_after as i16 == mate_distance(e.0) - r.plies as i16);
            }
        }
        if r.alpha < e && e < r.beta && r.plies == 0 && unsafe { PICKS } > 0 {
            assert!(unsafe { PV_WRITES } >= 1);
        }
    }
    // a null-window search never writes the caller's line
    if r.beta.0 == r.alpha.0 + 1 {
        assert!(unsafe { PV_WRITES } == 0);
    }
}

//@ obligation: C04.negamax.plies_bound
//@ property: C04
//@ status: experimental
//@ domain: bounded(<= 3 moves handed out per node)
//@ functions: engine/search/negamax.rs::negamax
//@ timeout: 2400
//@ mem_gb: 10
//@ note: the same body for distances from the root up to 255: `plies + 1` and the 255-row killer table require plies <= 254, which the body itself does not check (quiescence does)
#[kani::proof]
#[kani::unwind(5)]
fn vk_c04_negamax_plies_bound() {
    let r = run_once(255);
    kani::cover!(r.plies == 255);
}

//@ obligation: C04.canary.negamax
//@ property: C04 C09
//@ canary: true
//@ timeout: 2400
//@ mem_gb: 10
#[kani::proof]
#[kani::unwind(5)]
fn vk_c04_canary_negamax() {
    let r = run_once(254);
    assert!(r.result.is_err()); // must FAIL: completed searches exist
}
