//@@ module: chess/movegen/pins.rs
//@@ tag: c01
//@@ needs: chess__board@sym.rs
use crate::chess::board::verif_kani_sym as sym;
use crate::chess::piece::{Piece, PieceKind};
use crate::verif_support::{geo, rules};

/// SPEC: walking from k in direction (df, dr): the ray up to and including an enemy slider of the right kind that is
/// reached with at most one piece in between, that piece being ours; empty otherwise.
fn pin_ray(mb: &sym::Mailbox, k: u8, df: i8, dr: i8, player: Player, orth: bool) -> u64 {
    let (f, r) = (geo::file(k), geo::rank(k));
    let mut acc = 0u64;
    let mut result = 0u64;
    let mut seen_own = false;
    let mut done = false;
    let mut s: i8 = 1;
    while s < 8 {
        let (ff, rr) = (f + s * df, r + s * dr);
        if !done {
            if !geo::on_board(ff, rr) {
                done = true;
            } else {
                acc |= geo::bit(ff, rr);
                if let Some(p) = mb[(rr * 8 + ff) as usize] {
                    if p.player == player {
                        if seen_own {
                            done = true;
                        } else {
                            seen_own = true;
                        }
                    } else {
                        let slider = p.kind == PieceKind::Queen
                            || (orth && p.kind == PieceKind::Rook)
                            || (!orth && p.kind == PieceKind::Bishop);
                        if slider {
                            result = acc;
                        }
                        done = true;
                    }
                }
            }
        }
        s += 1;
    }
    result
}

fn pins_case(orth: bool) -> u64 {
    let mb = sym::any_mailbox();
    let board = sym::board_of(&mb);
    let player = geo::any_player();
    let k = geo::any_square();
    let (o, d) = get_pins(&board, player, k);
    let ki = k.idx();
    if orth {
        let want_o = pin_ray(&mb, ki, 0, 1, player, true) | pin_ray(&mb, ki, 1, 0, player, true)
            | pin_ray(&mb, ki, 0, -1, player, true) | pin_ray(&mb, ki, -1, 0, player, true);
        assert!(o.as_u64() == want_o);
        want_o
    } else {
        let want_d = pin_ray(&mb, ki, 1, 1, player, false) | pin_ray(&mb, ki, 1, -1, player, false)
            | pin_ray(&mb, ki, -1, -1, player, false) | pin_ray(&mb, ki, -1, 1, player, false);
        assert!(d.as_u64() == want_d);
        want_d
    }
}

//@ obligation: C01.pins.orthogonal
//@ domain: complete
//@ functions: chess/movegen/pins.rs::get_pins
//@ timeout: 1500
//@ mem_gb: 8
//@ note: fully symbolic board x any colour x any king square: the orthogonal mask is exactly the union, over the four rook directions from the king square, of the ray up to and including an enemy rook/queen reached with at most one piece in between, that piece being ours -- i.e. pin rays and the rays of direct slider checks, nothing else
//@ assumes: table lookups == coordinate geometry (C07)
#[kani::proof]
#[kani::unwind(10)]
//@@stubs-tables
fn vk_c01_pins_orthogonal() {
    let w = pins_case(true);
    kani::cover!(w.count_ones() > 5);
}

//@ obligation: C01.pins.diagonal
//@ domain: complete
//@ functions: chess/movegen/pins.rs::get_pins
//@ timeout: 1500
//@ mem_gb: 8
//@ note: the same for the diagonal mask (four bishop directions, enemy bishop/queen)
//@ assumes: table lookups == coordinate geometry (C07)
#[kani::proof]
#[kani::unwind(10)]
//@@stubs-tables
fn vk_c01_pins_diagonal() {
    let w = pins_case(false);
    kani::cover!(w.count_ones() > 5);
}
