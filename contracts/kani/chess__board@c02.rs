//@@ module: chess/board.rs
//@@ tag: c02
//@@ needs: chess__board@sym.rs
use super::verif_kani_sym as sym;
use crate::verif_support::{geo, rules};

//@ obligation: C02.board.try_from_agrees
//@ property: C02
//@ domain: complete
//@ functions: chess/board.rs::impl TryFrom<[Option<Piece>; Square::N]> for Board / fn try_from
//@ timeout: 1500
//@ mem_gb: 8
//@ note: for every one of the 13^64 mailboxes the real constructor succeeds and builds exactly the three views that describe the mailbox (so the views agree by construction for every board read from FEN)
#[kani::proof]
#[kani::unwind(66)]
fn vk_c02_board_try_from_agrees() {
    let mb = sym::any_mailbox();
    let b = Board::try_from(mb);
    kani::cover!(true);
    assert!(b.is_ok());
    let b = b.unwrap();
    let want = sym::board_of(&mb);
    assert!(sym::boards_equal(&b, &want));
}

//@ obligation: C02.board.views_wf
//@ property: C02
//@ domain: complete
//@ functions: chess/board.rs::Board::piece_at, chess/board.rs::Board::occupancy, chess/board.rs::Board::occupancy_for, chess/board.rs::Board::pieces_of_kind
//@ timeout: 900
//@ mem_gb: 8
//@ note: on a board whose views describe one placement, every accessor answers from that placement: piece_at == mailbox (get_unchecked index < 64), occupancy / occupancy_for / pieces_of_kind and the per-kind getters contain a square iff the mailbox holds such a piece there
#[kani::proof]
#[kani::unwind(10)]
fn vk_c02_board_views_wf() {
    let mb = sym::any_mailbox();
    let b = sym::board_of(&mb);
    let s = geo::any_square();
    let pl = geo::any_player();
    let k: usize = kani::any();
    kani::assume(k < 6);
    let kind = PieceKind::ALL[k];
    let here = mb[s.array_idx()];
    kani::cover!(here.is_some());
    assert!(sym::wf_at(&b, s.idx()));
    assert!(b.piece_at(s) == here);
    assert!(b.occupancy().contains(s) == here.is_some());
    assert!(b.occupancy_for(pl).contains(s) == matches!(here, Some(p) if p.player == pl));
    assert!(b.pieces_of_kind(kind, pl).contains(s) == (here == Some(Piece::new(pl, kind))));
    assert!(b.pawns(pl).contains(s) == (here == Some(Piece::new(pl, PieceKind::Pawn))));
    assert!(b.knights(pl).contains(s) == (here == Some(Piece::new(pl, PieceKind::Knight))));
    assert!(b.bishops(pl).contains(s) == (here == Some(Piece::new(pl, PieceKind::Bishop))));
    assert!(b.rooks(pl).contains(s) == (here == Some(Piece::new(pl, PieceKind::Rook))));
    assert!(b.queens(pl).contains(s) == (here == Some(Piece::new(pl, PieceKind::Queen))));
    assert!(b.king(pl).contains(s) == (here == Some(Piece::new(pl, PieceKind::King))));
    assert!(b.diagonal_sliders(pl).contains(s) == (b.bishops(pl).contains(s) || b.queens(pl).contains(s)));
    assert!(b.orthogonal_sliders(pl).contains(s) == (b.rooks(pl).contains(s) || b.queens(pl).contains(s)));
    assert!(b.all_diagonal_sliders().contains(s) == matches!(here, Some(p) if p.kind == PieceKind::Bishop || p.kind == PieceKind::Queen));
    assert!(b.all_orthogonal_sliders().contains(s) == matches!(here, Some(p) if p.kind == PieceKind::Rook || p.kind == PieceKind::Queen));
}

//@ obligation: C02.board.set_remove
//@ property: C02
//@ domain: complete
//@ functions: chess/board.rs::Board::set_at, chess/board.rs::Board::remove_at
//@ timeout: 900
//@ mem_gb: 8
//@ note: remove_at on any square and set_at on an EMPTY square (its precondition; every call site in make/undo is checked to meet it by C02.make/undo) change exactly that square in all three views: the result equals the board describing the updated mailbox, field by field
#[kani::proof]
#[kani::unwind(10)]
fn vk_c02_board_set_remove() {
    let mut mb = sym::any_mailbox();
    let mut b = sym::board_of(&mb);
    let s = geo::any_square();
    let had = mb[s.array_idx()].is_some();
    let r = b.remove_at(s);
    mb[s.array_idx()] = None;
    kani::cover!(had);
    assert!(r == had);
    assert!(sym::boards_equal(&b, &sym::board_of(&mb)));
    let p = sym::any_piece();
    b.set_at(s, p);
    mb[s.array_idx()] = Some(p);
    assert!(sym::boards_equal(&b, &sym::board_of(&mb)));
}

pub static mut ICQ_CALLS: u8 = 0;
pub static mut ICQ_SQUARE: u8 = 0;
pub static mut ICQ_PLAYER: Option<Player> = None;
pub static mut ICQ_SAME_BOARD: bool = false;
pub static mut ICQ_ANSWER: u64 = 0;
pub static mut ICQ_EXPECT: Option<sym::Mailbox> = None;
fn attackers_contract(board: &Board, player: Player, square: Square) -> Bitboard {
    unsafe {
        ICQ_CALLS += 1;
        ICQ_SQUARE = square.idx();
        ICQ_PLAYER = Some(player);
        ICQ_SAME_BOARD = sym::boards_equal(board, &sym::board_of(&ICQ_EXPECT.unwrap()));
        ICQ_ANSWER = kani::any();
        Bitboard::new(ICQ_ANSWER)
    }
}

//@ obligation: C01.in_check.exact
//@ property: C01
//@ domain: complete
//@ functions: chess/board.rs::Board::king_in_check, chess/game.rs::Game::is_king_in_check
//@ timeout: 900
//@ mem_gb: 6
//@ note: fully symbolic board with exactly one king of the asked colour: the check verdict is "the set of enemy attackers of OUR KING'S square on THIS board is non-empty" -- one attack query, about this very position, our colour, the square our king stands on; what that set is under the rules is C01.attackers.exact
//@ assumes: callee contract C01.attackers.exact
#[kani::proof]
#[kani::unwind(10)]
#[kani::stub(crate::chess::movegen::attackers::generate_attackers_of, attackers_contract)]
fn vk_c01_in_check_exact() {
    let mb = sym::any_mailbox();
    let pl = geo::any_player();
    let b = sym::board_of(&mb);
    kani::assume(b.king(pl).count() == 1);
    let k = geo::any_square();
    kani::assume(mb[k.array_idx()] == Some(Piece::new(pl, PieceKind::King)));
    unsafe {
        ICQ_CALLS = 0;
        ICQ_EXPECT = Some(mb);
    }
    let got = b.king_in_check(pl);
    kani::cover!(got);
    kani::cover!(!got);
    unsafe {
        assert!(ICQ_CALLS == 1 && ICQ_SQUARE == k.idx() && ICQ_PLAYER == Some(pl) && ICQ_SAME_BOARD);
        assert!(got == (ICQ_ANSWER != 0));
    }
}

//@ obligation: C02.canary.board
//@ canary: true
//@ timeout: 900
#[kani::proof]
#[kani::unwind(10)]
fn vk_c02_canary_board() {
    let mb = sym::any_mailbox();
    let mut b = sym::board_of(&mb);
    let s = geo::any_square();
    assert!(b.remove_at(s)); // must FAIL on empty squares
}
