//@@ module: engine/see.rs
//@@ tag: c20
//@@ needs: chess__board@sym.rs chess__game@sym.rs
use crate::chess::board::verif_kani_sym as sym;
use crate::chess::game::verif_kani_symgame as symgame;
use crate::chess::piece::{Piece, PromotionPieceKind};
use crate::chess::player::Player;
use crate::verif_support::geo;

fn val(k: PieceKind) -> i16 {
    match k {
        PieceKind::Pawn => 100,
        PieceKind::Knight | PieceKind::Bishop => 300,
        PieceKind::Rook => 500,
        PieceKind::Queen => 900,
        PieceKind::King => 10000,
    }
}

struct Case {
    game: Game,
    mv: Move,
    mover: Piece,
    captured: Piece,
    promo: Option<PromotionPieceKind>,
}

/// an arbitrary position and an arbitrary shape-valid NON-en-passant capture (capturing promotions included)
fn any_capture() -> Case {
    let mb = sym::any_mailbox();
    let game = symgame::game_with_board(sym::board_of(&mb));
    let (from, to) = (geo::any_square(), geo::any_square());
    kani::assume(from != to);
    let mover = match mb[from.array_idx()] {
        Some(p) => p,
        None => {
            kani::assume(false);
            unreachable!()
        }
    };
    let captured = match mb[to.array_idx()] {
        Some(p) => p,
        None => {
            kani::assume(false);
            unreachable!()
        }
    };
    kani::assume(mover.player == game.player && captured.player != game.player && captured.kind != PieceKind::King);
    let last_rank = if game.player == Player::White { to.idx() / 8 == 7 } else { to.idx() / 8 == 0 };
    let promo = if mover.kind == PieceKind::Pawn && last_rank {
        Some(match kani::any::<u8>() % 4 {
            0 => PromotionPieceKind::Knight,
            1 => PromotionPieceKind::Bishop,
            2 => PromotionPieceKind::Rook,
            _ => PromotionPieceKind::Queen,
        })
    } else {
        None
    };
    let mv = match promo {
        Some(p) => Move::capture_promotion(from, to, p),
        None => Move::capture(from, to),
    };
    Case { game, mv, mover, captured, promo }
}

//@ obligation: C20.piece_value
//@ domain: complete
//@ functions: engine/see.rs::piece_value
//@ timeout: 300
#[kani::proof]
fn vk_c20_piece_value() {
    let k: usize = kani::any();
    kani::assume(k < 6);
    kani::cover!(k == 4);
    assert!(piece_value(PieceKind::ALL[k]).0 == val(PieceKind::ALL[k]));
}

//@ obligation: C20.undefended
//@ domain: complete
//@ functions: engine/see.rs::see
//@ timeout: 2400
//@ mem_gb: 10
//@ note: fully symbolic board, every shape-valid non-en-passant capture (capturing promotions included), threshold 0: when, after the capture, no enemy piece attacks the target square (attack set of C01.attackers.all_exact on the occupancy after the move, x-rays through the vacated square included), the verdict is 'captured value (plus promotion gain) is non-negative', i.e. favourable; the exchange loop ends in its first round
//@ assumes: table lookups == geometry (C07); meaning of the attack set: C01.attackers.all_exact
#[kani::proof]
#[kani::unwind(10)]
//@@stubs-tables
fn vk_c20_undefended() {
    let c = any_capture();
    let board = &c.game.board;
    let mut occ = board.occupancy();
    occ ^= c.mv.src().bb();
    occ |= c.mv.dst().bb();
    let defenders = movegen::all_attackers_of(board, c.mv.dst(), occ) & occ & board.occupancy_for(c.game.player.other());
    kani::assume(defenders.is_empty());
    let got = see(&c.game, c.mv, Eval(0));
    let gain = val(c.captured.kind) + match c.promo { Some(p) => val(p.piece()) - 100, None => 0 };
    kani::cover!(c.promo.is_some());
    assert!(got == (gain >= 0));
    assert!(got);
}

//@ obligation: C20.winning_capture
//@ domain: complete
//@ functions: engine/see.rs::see
//@ timeout: 2400
//@ mem_gb: 10
//@ note: fully symbolic board, threshold 0: a capture of a piece worth at least the capturing piece (every capturing promotion qualifies: the pawn is exchanged for at least a pawn's worth before the promoted piece can be retaken) is ALWAYS judged favourable, whatever defends the square; the exchange loop needs at most two rounds to see it
//@ assumes: table lookups == geometry (C07)
#[kani::proof]
#[kani::unwind(10)]
//@@stubs-tables
fn vk_c20_winning_capture() {
    let c = any_capture();
    kani::assume(c.promo.is_some() || val(c.captured.kind) >= val(c.mover.kind));
    kani::cover!(c.promo.is_none() && c.mover.kind == PieceKind::Queen);
    assert!(see(&c.game, c.mv, Eval(0)));
}

//@ obligation: C20.canary.see
//@ canary: true
//@ timeout: 2400
//@ mem_gb: 10
#[kani::proof]
#[kani::unwind(10)]
//@@stubs-tables
fn vk_c20_canary_see() {
    let c = any_capture();
    kani::assume(c.promo.is_none() && val(c.captured.kind) < val(c.mover.kind));
    // bound the exchange so that the loop fits the unwinding bound of the canary
    kani::assume(c.game.board.occupancy().count() <= 5);
    assert!(see(&c.game, c.mv, Eval(0))); // must FAIL: e.g. QxP defended by a pawn
}
