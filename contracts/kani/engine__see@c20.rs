//@@ module: engine/see.rs
//@@ tag: c20
//@@ needs: chess__board@sym.rs chess__game@sym.rs
use crate::chess::board::verif_kani_sym as sym;
use crate::chess::game::verif_kani_symgame as symgame;
use crate::chess::piece::{Piece, PromotionPieceKind};
use crate::chess::player::Player;
use crate::verif_support::geo;

fn val(k: PieceKind) -> i16 {
    match k {
        PieceKind::Pawn => 100,
        PieceKind::Knight | PieceKind::Bishop => 300,
        PieceKind::Rook => 500,
        PieceKind::Queen => 900,
        PieceKind::King => 10000,
    }
}

struct Case {
    game: Game,
    mv: Move,
    mover: Piece,
    captured: Piece,
    promo: Option<PromotionPieceKind>,
}

/// an arbitrary position and an arbitrary shape-valid NON-en-passant capture (capturing promotions included)
fn any_capture() -> Case {
    let mb = sym::any_mailbox();
    let game = symgame::game_with_board(sym::board_of(&mb));
    let (from, to) = (geo::any_square(), geo::any_square());
    kani::assume(from != to);
    let mover = match mb[from.array_idx()] {
        Some(p) => p,
        None => {
            kani::assume(false);
            unreachable!()
        }
    };
    let captured = match mb[to.array_idx()] {
        Some(p) => p,
        None => {
            kani::assume(false);
            unreachable!()
        }
    };
    kani::assume(mover.player == game.player && captured.player != game.player && captured.kind != PieceKind::King);
    let last_rank = if game.player == Player::White { to.idx() / 8 == 7 } else { to.idx() / 8 == 0 };
    let promo = if mover.kind == PieceKind::Pawn && last_rank {
        Some(match kani::any::<u8>() % 4 {
            0 => PromotionPieceKind::Knight,
            1 => PromotionPieceKind::Bishop,
            2 => PromotionPieceKind::Rook,
            _ => PromotionPieceKind::Queen,
        })
    } else {
        None
    };
    let mv = match promo {
        Some(p) => Move::capture_promotion(from, to, p),
        None => Move::capture(from, to),
    };
    Case { game, mv, mover, captured, promo }
}

//@ obligation: C20.piece_value
//@ domain: complete
//@ functions: engine/see.rs::piece_value
//@ timeout: 300
#[kani::proof]
fn vk_c20_piece_value() {
    let k: usize = kani::any();
    kani::assume(k < 6);
    kani::cover!(k == 4);
    assert!(piece_value(PieceKind::ALL[k]).0 == val(PieceKind::ALL[k]));
}

//@ obligation: C20.undefended
//@ domain: complete
//@ functions: engine/see.rs::see
//@ timeout: 2400
//@ mem_gb: 8
//@ note: fully symbolic board, every shape-valid non-en-passant capture (capturing promotions included), threshold 0: when, after the capture, no enemy piece attacks the target square (attack set of C01.attackers.all_exact on the occupancy after the move, x-rays through the vacated square included), the verdict is 'captured value (plus promotion gain) is non-negative', i.e. favourable; the exchange loop ends in its first round
//@ assumes: table lookups == geometry (C07); meaning of the attack set: C01.attackers.all_exact
#[kani::proof]
#[kani::unwind(10)]
//@@stubs-tables
fn vk_c20_undefended() {
    let c = any_capture();
    let board = &c.game.board;
    let mut occ = board.occupancy();
    occ ^= c.mv.src().bb();
    occ |= c.mv.dst().bb();
    let defenders = movegen::all_attackers_of(board, c.mv.dst(), occ) & occ & board.occupancy_for(c.game.player.other());
    kani::assume(defenders.is_empty());
    let got = see(&c.game, c.mv, Eval(0));
    let gain = val(c.captured.kind) + match c.promo { Some(p) => val(p.piece()) - 100, None => 0 };
    kani::cover!(c.promo.is_some());
    assert!(got == (gain >= 0));
    assert!(got);
}

//@ obligation: C20.winning_capture
//@ domain: complete
//@ functions: engine/see.rs::see
//@ timeout: 2400
//@ mem_gb: 7
//@ note: fully symbolic board, threshold 0: a capture of a piece worth at least the capturing piece (every capturing promotion qualifies: the pawn is exchanged for at least a pawn's worth before the promoted piece can be retaken) is ALWAYS judged favourable, whatever defends the square; the exchange loop needs at most two rounds to see it
//@ assumes: table lookups == geometry (C07)
#[kani::proof]
#[kani::unwind(10)]
//@@stubs-tables
fn vk_c20_winning_capture() {
    let c = any_capture();
    kani::assume(c.promo.is_some() || val(c.captured.kind) >= val(c.mover.kind));
    kani::cover!(c.promo.is_none() && c.mover.kind == PieceKind::Queen);
    assert!(see(&c.game, c.mv, Eval(0)));
}

//@ obligation: C20.defended_no_backup
//@ domain: complete
//@ functions: engine/see.rs::see
//@ timeout: 2400
//@ mem_gb: 8
//@ note: fully symbolic board, every shape-valid non-en-passant capture, threshold 0: when the captured piece IS defended (at least one enemy piece -- the king included -- attacks the target square on the occupancy after the capture) and the capturing side has NO backup at all (no other own piece bears on the target square even on an empty board, so no x-ray can appear), the exchange is exactly 'capture, recapture': the verdict is 'captured value (plus promotion gain) minus the value of the piece now standing on the square is non-negative'. In particular a lone defending king DOES recapture.
//@ assumes: table lookups == geometry (C07); meaning of the attack set: C01.attackers.all_exact
#[kani::proof]
#[kani::unwind(10)]
//@@stubs-tables
fn vk_c20_defended_no_backup() {
    let c = any_capture();
    let board = &c.game.board;
    let me = c.game.player;
    let mut occ = board.occupancy();
    occ ^= c.mv.src().bb();
    occ |= c.mv.dst().bb();
    let defenders = movegen::all_attackers_of(board, c.mv.dst(), occ) & occ & board.occupancy_for(me.other());
    kani::assume(defenders.any());
    let to = c.mv.dst().idx();
    let not_mover = !c.mv.src().bb().as_u64();
    let own = |k: PieceKind| board.pieces_of_kind(k, me).as_u64() & not_mover;
    let backup = (geo::rook(to, 0) & (own(PieceKind::Rook) | own(PieceKind::Queen)))
        | (geo::bishop(to, 0) & (own(PieceKind::Bishop) | own(PieceKind::Queen)))
        | (geo::knight(to) & own(PieceKind::Knight))
        | (geo::king(to) & own(PieceKind::King))
        | (geo::pawn(to, me != Player::White) & own(PieceKind::Pawn));
    kani::assume(backup == 0);
    let got = see(&c.game, c.mv, Eval(0));
    let gain = val(c.captured.kind) + match c.promo { Some(p) => val(p.piece()) - 100, None => 0 };
    let standing = match c.promo { Some(p) => val(p.piece()), None => val(c.mover.kind) };
    kani::cover!(gain < standing && defenders.count() == 1 && (defenders & board.pieces_of_kind(PieceKind::King, me.other())).any());
    kani::cover!(gain >= standing);
    assert!(got == (gain - standing >= 0));
}

//@ obligation: C20.lone_king_cannot_recapture
//@ domain: complete
//@ functions: engine/see.rs::see
//@ timeout: 2400
//@ mem_gb: 8
//@ note: fully symbolic board, every shape-valid non-en-passant capture, threshold 0: when the ONLY enemy piece bearing on the target square after the capture is the enemy king, and the capturing side still covers the square with another piece (its own king included), the king cannot recapture (it would step into an attack): the exchange ends with the capture and the verdict is 'captured value (plus promotion gain) is non-negative' -- the same as for an undefended square.  (The independent swap list agrees: a king never captures into an attacked square.)
//@ assumes: table lookups == geometry (C07); meaning of the attack set: C01.attackers.all_exact
#[kani::proof]
#[kani::unwind(10)]
//@@stubs-tables
fn vk_c20_lone_king_cannot_recapture() {
    let c = any_capture();
    let board = &c.game.board;
    let me = c.game.player;
    let mut occ = board.occupancy();
    occ ^= c.mv.src().bb();
    occ |= c.mv.dst().bb();
    let all = movegen::all_attackers_of(board, c.mv.dst(), occ) & occ;
    let defenders = all & board.occupancy_for(me.other());
    let their_king = board.pieces_of_kind(PieceKind::King, me.other());
    kani::assume(defenders.any() && defenders == (defenders & their_king));
    // our cover of the square once the capture has been made (the mover itself now stands ON the square and is not in `all`)
    let cover = all & board.occupancy_for(me) & !c.mv.src().bb();
    kani::assume(cover.any());
    let got = see(&c.game, c.mv, Eval(0));
    let gain = val(c.captured.kind) + match c.promo { Some(p) => val(p.piece()) - 100, None => 0 };
    kani::cover!((cover & board.pieces_of_kind(PieceKind::King, me)).any());
    kani::cover!(c.mover.kind == PieceKind::Rook);
    assert!(got == (gain >= 0), "a lone king was allowed to recapture into an attacked square (or the capture was not scored as won)");
}

//@ obligation: C20.three_ply_exchange
//@ tier: thorough
//@ domain: complete
//@ functions: engine/see.rs::see
//@ timeout: 5400
//@ mem_gb: 10
//@ note: (MEASURED: accepted in 2132 s, 6.3 GB -- thorough tier) fully symbolic board, every shape-valid non-en-passant capture, threshold 0, on the positions where the exchange has at most three captures and no choice: exactly ONE enemy piece D (not the king) bears on the target square after the capture; once D has recaptured (D's square vacated) exactly ONE piece S of the capturing side bears on the square -- typically a slider uncovered by D's departure -- or none; and once S has recaptured no enemy piece bears on it any more.  Then the verdict is the minimax of that line: with gain g (captured value plus promotion gain), the value p of the piece now standing on the square and D's value d: no S => g - p >= 0; S present => min(g, g - p + d) >= 0 (the defender recaptures only if that does not lose more than it wins back)
//@ assumes: table lookups == geometry (C07); meaning of the attack set: C01.attackers.all_exact
#[kani::proof]
#[kani::unwind(10)]
//@@stubs-tables
fn vk_c20_three_ply_exchange() {
    let c = any_capture();
    let board = &c.game.board;
    let me = c.game.player;
    let to = c.mv.dst();
    let mut occ = board.occupancy();
    occ ^= c.mv.src().bb();
    occ |= to.bb();
    // ply 2: exactly one enemy piece D, not a king, bears on the square
    let defenders = movegen::all_attackers_of(board, to, occ) & occ & board.occupancy_for(me.other());
    kani::assume(defenders.count() == 1);
    let d_sq = defenders.lsb().single();
    let d_kind = board.piece_at(d_sq).unwrap().kind;
    kani::assume(d_kind != PieceKind::King);
    // ply 3: after D has recaptured, at most one piece S of ours bears on the square (the mover is gone)
    let occ2 = occ & !d_sq.bb();
    let ours2 = movegen::all_attackers_of(board, to, occ2) & occ2 & board.occupancy_for(me) & !c.mv.src().bb();
    kani::assume(ours2.count() <= 1);
    let gain = val(c.captured.kind) + match c.promo { Some(p) => val(p.piece()) - 100, None => 0 };
    let standing = match c.promo { Some(p) => val(p.piece()), None => val(c.mover.kind) };
    let want = if ours2.is_empty() {
        gain - standing >= 0
    } else {
        let s_sq = ours2.lsb().single();
        // ply 4: nothing of theirs is left to take S (x-rays behind D or S included)
        let occ3 = occ2 & !s_sq.bb();
        let theirs3 = movegen::all_attackers_of(board, to, occ3) & occ3 & board.occupancy_for(me.other());
        kani::assume(theirs3.is_empty());
        // S is not our king stepping next to nothing: a king may recapture here because no enemy piece bears on the square
        let after_three = gain - standing + val(d_kind);
        (if after_three < gain { after_three } else { gain }) >= 0
    };
    let got = see(&c.game, c.mv, Eval(0));
    kani::cover!(!ours2.is_empty() && gain < standing && gain - standing + val(d_kind) >= 0);
    kani::cover!(!ours2.is_empty() && gain - standing + val(d_kind) < 0);
    kani::cover!(ours2.is_empty());
    assert!(got == want, "verdict differs from the minimax of a forced capture / recapture / recapture line");
}

//@ obligation: C20.canary.see
//@ canary: true
//@ timeout: 2400
//@ mem_gb: 8
#[kani::proof]
#[kani::unwind(10)]
//@@stubs-tables
fn vk_c20_canary_see() {
    let c = any_capture();
    let board = &c.game.board;
    let mut occ = board.occupancy();
    occ ^= c.mv.src().bb();
    occ |= c.mv.dst().bb();
    let defenders = movegen::all_attackers_of(board, c.mv.dst(), occ) & occ & board.occupancy_for(c.game.player.other());
    kani::assume(defenders.is_empty());
    assert!(!see(&c.game, c.mv, Eval(0))); // must FAIL: an undefended capture is favourable
}

// ---------------------------------------------------------------------------------------------------------------
// C20.swaplist: agreement with an INDEPENDENT swap-list computation (rules-of-chess attacks on the mailbox, least
// valuable attacker first, minimax of the gain list) on positions with at most K_MEN men (5; 6 exceeds 12 GB), where at every step the least
// valuable attacker is unique in value (so the choice among equally valued attackers cannot matter).
// ---------------------------------------------------------------------------------------------------------------
use crate::verif_support::rules;
use crate::chess::square::Square;
pub const K_MEN: usize = 5;

/// value of the least valuable piece of `side` attacking `to` on `mb`, its square, and whether that minimum is unique
fn least_attacker(mb: &sym::Mailbox, squares: &[u8; K_MEN], side: Player, to: u8) -> Option<(u8, PieceKind, bool)> {
    let mut best: Option<(u8, PieceKind)> = None;
    let mut unique = true;
    let mut i = 0;
    while i < K_MEN {
        let s = squares[i];
        if s != to {
            if let Some(p) = mb[s as usize] {
                if p.player == side && rules::piece_attacks(mb, p, s, to) {
                    match best {
                        None => {
                            best = Some((s, p.kind));
                            unique = true;
                        }
                        Some((_, bk)) => {
                            if val(p.kind) < val(bk) {
                                best = Some((s, p.kind));
                                unique = true;
                            } else if val(p.kind) == val(bk) {
                                unique = false;
                            }
                        }
                    }
                }
            }
        }
        i += 1;
    }
    best.map(|(s, k)| (s, k, unique))
}
fn any_attacker(mb: &sym::Mailbox, squares: &[u8; K_MEN], side: Player, to: u8) -> bool {
    least_attacker(mb, squares, side, to).is_some()
}

//@ obligation: C20.swaplist
//@ status: experimental
//@ domain: bounded(<= 5 men on the board)
//@ functions: engine/see.rs::see
//@ timeout: 3000
//@ mem_gb: 12
//@ note: positions with up to 5 men at arbitrary squares, every shape-valid non-en-passant, non-promoting capture, threshold 0: whenever at every step of the exchange the least valuable attacker is unique in value, the verdict equals (minimax value of the independent swap list >= 0); x-ray attackers behind exchanged pieces are found by recomputing rule-based attacks on the updated mailbox
//@ assumes: table lookups == geometry (C07); bound of 5 men
#[kani::proof]
#[kani::unwind(8)]
//@@stubs-tables
fn vk_c20_swaplist() {
    // K_MEN men on distinct squares (some may be absent)
    let mut mb: sym::Mailbox = [None; 64];
    let mut squares = [0u8; K_MEN];
    let mut board = sym::empty_board();
    let mut i = 0;
    while i < K_MEN {
        let s = geo::any_square();
        let mut j = 0;
        while j < i {
            kani::assume(squares[j] != s.idx());
            j += 1;
        }
        squares[i] = s.idx();
        if i < 2 || kani::any() {
            let p = sym::any_piece();
            mb[s.array_idx()] = Some(p);
            board.set_at(s, p);
        }
        i += 1;
    }
    let mut game = symgame::game_with_board(board);
    game.en_passant_target = None;
    let player = game.player;
    let them = player.other();
    let (from, to) = (squares[0], squares[1]);
    let mover = mb[from as usize].unwrap();
    let captured = mb[to as usize].unwrap();
    kani::assume(mover.player == player && captured.player == them && captured.kind != PieceKind::King);
    // shape-valid: the mover attacks the target; no promotion
    kani::assume(rules::piece_attacks(&mb, mover, from, to));
    kani::assume(!(mover.kind == PieceKind::Pawn && (to / 8 == 0 || to / 8 == 7)));
    let mv = Move::capture(Square::from_index(from), Square::from_index(to));
    let got = see(&game, mv, Eval(0));

    // ---- independent swap list ----
    let mut gains = [0i32; K_MEN + 1];
    let mut depth = 0usize;
    gains[0] = val(captured.kind) as i32;
    let mut w = mb;
    w[from as usize] = None;
    w[to as usize] = Some(mover);
    let mut on_square = mover.kind;
    let mut side = them;
    let mut all_unique = true;
    let mut step = 0;
    while step < K_MEN {
        if let Some((s, k, unique)) = least_attacker(&w, &squares, side, to) {
            // a king cannot capture a defended piece
            let defended = any_attacker(&w, &squares, side.other(), to);
            if !(k == PieceKind::King && defended) && depth == step {
                if !unique {
                    all_unique = false;
                }
                depth += 1;
                gains[depth] = val(on_square) as i32 - gains[depth - 1];
                w[s as usize] = None;
                w[to as usize] = Some(Piece::new(side, k));
                on_square = k;
                side = side.other();
            }
        }
        step += 1;
    }
    kani::assume(all_unique);
    // minimax: either side may stop capturing
    let mut d = depth;
    while d > 0 {
        let a = -gains[d - 1];
        let b = gains[d];
        gains[d - 1] = -(if a > b { a } else { b });
        d -= 1;
    }
    kani::cover!(depth >= 3);
    kani::cover!(depth >= 2 && got);
    assert!(got == (gains[0] >= 0));
    std::mem::forget(game);
}
