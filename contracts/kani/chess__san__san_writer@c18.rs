//@@ module: chess/san/san_writer.rs
//@@ tag: c18
//@@ needs: chess__board@sym.rs chess__game@sym.rs
// The REAL required_ambiguity_resolution on a real Game (fully symbolic board), against the CONTRACT of its callee
// `Game::moves()` (kani::stub): an ARBITRARY duplicate-free list of moves whose source squares are occupied -- what C01
// proves about the generator.  Whatever else the function consults (attack tables, board accessors) is the real code.
use crate::chess::board::verif_kani_sym as sym;
use crate::chess::game::verif_kani_symgame as symgame;
use crate::chess::moves::MoveList;
use crate::chess::square::Square;
use crate::verif_support::geo;

pub const LIST_N: usize = 5;
const DUMMY: Move = Move::quiet(Square::from_index(0), Square::from_index(1));
pub static mut LEGAL: [Move; LIST_N] = [DUMMY; LIST_N];
pub static mut LEGAL_N: usize = 0;

/// CONTRACT of Game::moves(): "the legal moves of the position" = this list
fn moves_contract(_g: &Game) -> MoveList {
    let mut l = MoveList::new();
    unsafe {
        let mut i = 0;
        while i < LIST_N {
            if i < LEGAL_N {
                l.push(LEGAL[i]);
            }
            i += 1;
        }
    }
    l
}

//@ obligation: C18.disambiguation.minimal
//@ domain: bounded(<= 5 legal moves in the position's list)
//@ functions: chess/san/san_writer.rs::required_ambiguity_resolution
//@ timeout: 2400
//@ mem_gb: 10
//@ note: for every board, every duplicate-free LEGAL-move list of up to 5 moves (every mover square occupied) and every listed move: with RIVALS = the other LEGAL moves of the same piece kind to the same square, the chosen disambiguation (none / file / rank / both) matches NO rival -- so piece letter + disambiguation + destination names this move and no other legal move -- and it is the standard minimal one: none iff there is no rival (or the mover is a pawn or king), else the file if no rival shares it, else the rank if no rival shares it, else both.  Pieces that merely attack the square but have no legal move there (pinned) are not rivals.
//@ assumes: callee contract of Game::moves() (C01: duplicate-free list of the legal moves; every listed move starts on an occupied square); list length bound 5; table lookups == geometry (C07)
#[kani::proof]
#[kani::unwind(10)]
#[kani::stub(crate::chess::game::Game::moves, moves_contract)]
//@@stubs-tables
fn vk_c18_disambiguation_minimal() {
    let mb = sym::any_mailbox();
    let game = symgame::game_with_board(sym::board_of(&mb));
    let n: usize = kani::any();
    kani::assume(1 <= n && n <= LIST_N);
    let mut list = [DUMMY; LIST_N];
    let mut i = 0;
    while i < LIST_N {
        if i < n {
            let (s, d) = (geo::any_square(), geo::any_square());
            // legal moves are made by the side to move, never onto an own piece
            kani::assume(s != d && matches!(mb[s.array_idx()], Some(p) if p.player == game.player));
            kani::assume(!matches!(mb[d.array_idx()], Some(p) if p.player == game.player));
            list[i] = if mb[d.array_idx()].is_some() { Move::capture(s, d) } else { Move::quiet(s, d) };
            let mut j = 0;
            while j < i {
                kani::assume(list[j] != list[i]);
                j += 1;
            }
        }
        i += 1;
    }
    unsafe {
        LEGAL = list;
        LEGAL_N = n;
    }
    let k: usize = kani::any();
    kani::assume(k < n);
    let mv = list[k];
    let kind = mb[mv.src().array_idx()].unwrap().kind;
    let got = required_ambiguity_resolution(&game, mv);
    // rivals
    let (mut any_rival, mut rival_same_file, mut rival_same_rank) = (false, false, false);
    let mut i = 0;
    while i < LIST_N {
        if i < n && list[i] != mv && list[i].dst() == mv.dst() && mb[list[i].src().array_idx()].unwrap().kind == kind {
            any_rival = true;
            if list[i].src().idx() % 8 == mv.src().idx() % 8 {
                rival_same_file = true;
            }
            if list[i].src().idx() / 8 == mv.src().idx() / 8 {
                rival_same_rank = true;
            }
        }
        i += 1;
    }
    let want = if kind == PieceKind::Pawn || kind == PieceKind::King || !any_rival {
        AmbiguityResolution::None
    } else if !rival_same_file {
        AmbiguityResolution::File
    } else if !rival_same_rank {
        AmbiguityResolution::Rank
    } else {
        AmbiguityResolution::Exact
    };
    kani::cover!(any_rival && !rival_same_file && !rival_same_rank && kind == PieceKind::Knight);
    kani::cover!(want == AmbiguityResolution::Exact);
    assert!(got == want);
    std::mem::forget(game);
}
