//@@ module: chess/san/san_writer.rs
//@@ tag: c18
//@@ needs: chess__board@sym.rs
// Body of required_ambiguity_resolution (verbatim from /repo on every run) on a ghost `Game` that carries a REAL Board
// (fully symbolic) and the side to move, against the contract of its callee `game.moves()`: an ARBITRARY duplicate-free
// list of moves (what C01 proves about the generator).  Everything else the function consults is the real code.
use crate::chess::board::verif_kani_sym as sym;
use crate::chess::moves::MoveList;
use crate::chess::piece::Piece;
use crate::chess::square::Square;
use crate::verif_support::geo;

pub const LIST_N: usize = 5;
/// ghost `Game`: a REAL Board (fully symbolic) and the side to move, plus the list its `moves()` contract hands out
pub struct Game {
    pub board: crate::chess::board::Board,
    pub player: crate::chess::player::Player,
    pub list: [Move; LIST_N],
    pub n: usize,
}
impl Game {
    pub fn moves(&self) -> MoveList {
        let mut l = MoveList::new();
        let mut i = 0;
        while i < LIST_N {
            if i < self.n {
                l.push(self.list[i]);
            }
            i += 1;
        }
        l
    }
}

//@@ body: chess/san/san_writer.rs :: fn required_ambiguity_resolution => required_ambiguity_resolution__body

//@ obligation: C18.disambiguation.minimal
//@ domain: bounded(<= 5 legal moves in the position's list)
//@ functions: chess/san/san_writer.rs::required_ambiguity_resolution
//@ timeout: 2400
//@ mem_gb: 10
//@ note: for every board, every duplicate-free move list of up to 5 moves (every mover square occupied) and every listed move: with RIVALS = the other listed moves of the same piece kind to the same square, the chosen disambiguation (none / file / rank / both) matches NO rival -- so piece letter + disambiguation + destination names this move and no other -- and it is the standard minimal one: none iff there is no rival (or the mover is a pawn or king), else the file if no rival shares it, else the rank if no rival shares it, else both
//@ assumes: callee contract of game.moves() (C01: duplicate-free list of legal moves; every listed move starts on an occupied square); list length bound 5
#[kani::proof]
#[kani::unwind(8)]
fn vk_c18_disambiguation_minimal() {
    let mb = sym::any_mailbox();
    let n: usize = kani::any();
    kani::assume(1 <= n && n <= LIST_N);
    let dummy = Move::quiet(Square::from_index(0), Square::from_index(1));
    let mut list = [dummy; LIST_N];
    let mut i = 0;
    while i < LIST_N {
        if i < n {
            let (s, d) = (geo::any_square(), geo::any_square());
            kani::assume(s != d && mb[s.array_idx()].is_some());
            list[i] = if kani::any() { Move::quiet(s, d) } else { Move::capture(s, d) };
            let mut j = 0;
            while j < i {
                kani::assume(list[j] != list[i]);
                j += 1;
            }
        }
        i += 1;
    }
    let game = Game { board: sym::board_of(&mb), player: geo::any_player(), list, n };
    let k: usize = kani::any();
    kani::assume(k < n);
    let mv = list[k];
    let kind = mb[mv.src().array_idx()].unwrap().kind;
    let got = required_ambiguity_resolution__body(&game, mv);
    // rivals
    let (mut any_rival, mut rival_same_file, mut rival_same_rank) = (false, false, false);
    let mut i = 0;
    while i < LIST_N {
        if i < n && list[i] != mv && list[i].dst() == mv.dst() && mb[list[i].src().array_idx()].unwrap().kind == kind {
            any_rival = true;
            if list[i].src().idx() % 8 == mv.src().idx() % 8 {
                rival_same_file = true;
            }
            if list[i].src().idx() / 8 == mv.src().idx() / 8 {
                rival_same_rank = true;
            }
        }
        i += 1;
    }
    let want = if kind == PieceKind::Pawn || kind == PieceKind::King || !any_rival {
        AmbiguityResolution::None
    } else if !rival_same_file {
        AmbiguityResolution::File
    } else if !rival_same_rank {
        AmbiguityResolution::Rank
    } else {
        AmbiguityResolution::Exact
    };
    kani::cover!(any_rival && !rival_same_file && !rival_same_rank && kind == PieceKind::Knight);
    kani::cover!(want == AmbiguityResolution::Exact);
    assert!(got == want);
}
