//@@ module: engine/eval/mod.rs
//@@ tag: c06state
//@@ needs: chess__board@sym.rs
// What the FEN reader does with the board it has parsed, besides storing it: Game::from_state recomputes the evaluation
// accumulators from the board (IncrementalEvalFields::init).  "Reading any string at all yields either a position or a
// reported error, never a crash": the parser accepts ANY placement of the twelve piece letters on the 64 squares (legal
// or not -- 64 queens included), so this recomputation has to be total on every board content, with the REAL tables.
use crate::chess::board::verif_kani_sym as sym;

//@ obligation: C06.reader.position_state_total
//@ property: C06
//@ domain: complete
//@ functions: engine/eval/mod.rs::IncrementalEvalFields::init, engine/eval/piece_square_tables.rs::eval, engine/eval/phased_eval.rs::phase_value
//@ timeout: 2400
//@ mem_gb: 10
//@ note: with the real piece-square tables (piece_square_tables::init executed), for EVERY content of the 64 squares (13^64 placements, legal or not: whatever board field the reader accepts), recomputing the accumulators from the board does not panic -- no arithmetic overflow in the packed piece-square sum or in the phase counter
//@ assumes: the symbolic board's three views agree (C02.board.try_from_agrees)
#[kani::proof]
#[kani::unwind(66)]
fn vk_c06_reader_position_state_total() {
    piece_square_tables::init();
    let mb = sym::any_mailbox();
    let b = sym::board_of(&mb);
    let f = IncrementalEvalFields::init(&b);
    kani::cover!(f.phase_value > 200);
    kani::cover!(f.phase_value == 0);
}
