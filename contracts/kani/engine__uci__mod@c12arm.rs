//@@ module: engine/uci/mod.rs
//@@ tag: c12arm
//@@ noglob: Uci / Game / the lock are ghost recorders
// The WHOLE `ucinewgame` arm of Uci::execute, copied verbatim from /repo on every run, on a ghost `Uci` whose persistent
// state sits behind a ghost lock.  Contract of the lock (std::sync::Mutex): `lock()` returns the guard (it waits; poisoning
// aside it cannot fail), `try_lock()` MAY FAIL at any call -- a search thread may hold the lock at that instant.  The
// obligation: on EVERY path through the arm -- whatever a concurrent search is doing -- the persistent state has been reset
// exactly once and the held game has been replaced by a new start-position game when the arm returns.  (A handler that gives up when the lock is busy leaves the old tables in place: not a fresh engine.)
pub static mut RESET_N: u32 = 0;
pub static mut LATCH_RESET_N: u32 = 0;
pub static mut REPORTS: u32 = 0;
pub static mut TRY_LOCK_BUSY: bool = false;

#[derive(Clone, Copy, PartialEq, Eq)]
pub enum Origin {
    Previous,
    StartPos,
}
#[derive(Clone)]
pub struct Game {
    pub origin: Origin,
}
impl Game {
    pub fn new() -> Self {
        Game { origin: Origin::StartPos }
    }
}
pub struct GhostState;
impl GhostState {
    pub fn reset(&mut self) {
        unsafe {
            RESET_N += 1;
        }
    }
}
pub struct GhostGuard<'a>(&'a mut GhostState);
impl<'a> std::ops::Deref for GhostGuard<'a> {
    type Target = GhostState;
    fn deref(&self) -> &GhostState {
        self.0
    }
}
impl<'a> std::ops::DerefMut for GhostGuard<'a> {
    fn deref_mut(&mut self) -> &mut GhostState {
        self.0
    }
}
pub struct GhostLock(std::cell::UnsafeCell<GhostState>);
impl GhostLock {
    /// CONTRACT (Mutex::lock): waits for the lock and returns the guard
    pub fn lock(&self) -> Result<GhostGuard<'_>, ()> {
        Ok(GhostGuard(unsafe { &mut *self.0.get() }))
    }
    /// CONTRACT (Mutex::try_lock): fails whenever another thread (a running search) holds the lock
    pub fn try_lock(&self) -> Result<GhostGuard<'_>, ()> {
        if unsafe { TRY_LOCK_BUSY } {
            Err(())
        } else {
            Ok(GhostGuard(unsafe { &mut *self.0.get() }))
        }
    }
}
pub struct GhostLatch;
impl GhostLatch {
    pub fn reset(&self) {
        unsafe {
            LATCH_RESET_N += 1;
        }
    }
    pub fn set(&self) {}
    pub fn wait(&self) {}
}
pub struct GhostReporter;
impl GhostReporter {
    pub fn generic_report(&self, _s: &str) {
        unsafe {
            REPORTS += 1;
        }
    }
}
pub struct Uci {
    pub game: Game,
    pub is_stopped: GhostLatch,
    pub persistent_state: GhostLock,
    pub reporter: GhostReporter,
}
impl Uci {
    //@@ closure: engine/uci/mod.rs :: impl Uci / fn execute :: UciCommand::UciNewGame => => pub fn ucinewgame_arm(&mut self) -> Result<(), String> ;; Ok(())
}

//@ obligation: C12.newgame.arm_resets_unconditionally
//@ property: C12
//@ domain: complete
//@ functions: engine/uci/mod.rs::Uci::execute
//@ timeout: 300
//@ note: the whole ucinewgame arm: whatever game was held and whether or not another thread holds the persistent-state lock at the instant of the command (try_lock may fail, lock waits), when the arm returns PersistentState::reset() has run exactly once, and the held game is a new start-position game (re-arming the stop latch belongs to C05 and is not demanded here)
//@ assumes: Mutex::lock waits and returns the guard (poisoning aside), Mutex::try_lock may fail whenever a search thread holds the lock; what PersistentState::reset() clears is C12.reset.covers_every_table
#[kani::proof]
fn vk_c12_newgame_arm_resets_unconditionally() {
    unsafe {
        RESET_N = 0;
        LATCH_RESET_N = 0;
        REPORTS = 0;
        TRY_LOCK_BUSY = kani::any();
    }
    let mut uci = Uci {
        game: Game { origin: Origin::Previous },
        is_stopped: GhostLatch,
        persistent_state: GhostLock(std::cell::UnsafeCell::new(GhostState)),
        reporter: GhostReporter,
    };
    let r = uci.ucinewgame_arm();
    kani::cover!(unsafe { TRY_LOCK_BUSY });
    assert!(r.is_ok());
    assert!(unsafe { RESET_N } == 1, "ucinewgame returned without resetting the persistent tables (or reset them more than once)");
    assert!(uci.game.origin == Origin::StartPos, "ucinewgame must replace the held game by a new one");
}

//@ obligation: C12.canary.newgame_arm
//@ property: C12
//@ canary: true
//@ timeout: 300
#[kani::proof]
fn vk_c12_canary_newgame_arm() {
    unsafe {
        RESET_N = 0;
        TRY_LOCK_BUSY = kani::any();
    }
    let mut uci = Uci {
        game: Game { origin: Origin::Previous },
        is_stopped: GhostLatch,
        persistent_state: GhostLock(std::cell::UnsafeCell::new(GhostState)),
        reporter: GhostReporter,
    };
    let _ = uci.ucinewgame_arm();
    assert!(unsafe { RESET_N } == 0); // must FAIL
}
