//@@ module: engine/search/mod.rs
//@@ tag: c04top
//@@ noglob: every name the two bodies use is bound here
// Bodies of search::search (the entry point) and panic_move (verbatim from /repo on every run) against callee
// contracts: tablebase probe (disabled or arbitrary), iterative deepening (leaves an arbitrary line, possibly empty, in
// pv), the move picker (hands out a legal move if the position has one -- the property's precondition).
use crate::chess::moves::Move;
use crate::chess::square::Square;
use crate::engine::search::params;
use crate::engine::search::SearchScore;
use std::time::Duration;

pub static mut GENERATIONS: u8 = 0;
pub static mut DECAYS: u8 = 0;
pub static mut ID_CALLS: u8 = 0;
pub static mut ID_GAME_IS_A_COPY: bool = false;
pub static mut ID_LEFT: Option<Move> = None; // head of the line iterative deepening left in pv
pub static mut PICKER_FIRST: Option<Move> = None; // first move the picker hands out at the root
pub static mut TB_MOVE: Option<Move> = None;
pub static mut CALLERS_GAME: usize = 0;

#[derive(Clone)]
pub struct Game {
    pub marker: u8,
    pub player: crate::chess::player::Player,
}
pub struct EngineOptions;
pub struct SearchRestrictions;
pub struct GhostTT;
impl GhostTT {
    pub fn new_generation(&mut self) {
        unsafe { GENERATIONS += 1; }
    }
    pub fn occupancy(&self) -> usize {
        kani::any()
    }
}
pub struct GhostHist;
impl GhostHist {
    pub fn decay(&mut self, factor: i32) {
        assert!(factor == params::HISTORY_DECAY_FACTOR);
        unsafe { DECAYS += 1; }
    }
}
pub struct GhostTB;
impl GhostTB {
    pub fn best_move(&self, _g: &Game) -> Option<Move> {
        unsafe { TB_MOVE }
    }
}
pub struct PersistentState {
    pub tt: GhostTT,
    pub history_table: GhostHist,
    pub tablebase: GhostTB,
}
pub struct TimeStrategy;
impl TimeStrategy {
    pub fn elapsed(&self) -> Duration {
        Duration::from_nanos(kani::any())
    }
}
pub struct SearchContext<'s> {
    pub tt: &'s mut GhostTT,
    pub tablebase: &'s mut GhostTB,
    pub history_table: &'s mut GhostHist,
}
impl<'s> SearchContext<'s> {
    pub fn new(ps: &'s mut PersistentState, _t: &'s mut TimeStrategy, _o: &'s EngineOptions, _r: &'s SearchRestrictions) -> Self {
        SearchContext { tt: &mut ps.tt, tablebase: &mut ps.tablebase, history_table: &mut ps.history_table }
    }
}
#[derive(Clone)]
pub struct PrincipalVariation {
    pub first: Option<Move>,
}
impl PrincipalVariation {
    pub fn new() -> Self {
        PrincipalVariation { first: None }
    }
    pub fn first(&self) -> Option<&Move> {
        self.first.as_ref()
    }
    pub fn len(&self) -> u8 {
        kani::any()
    }
}
//@@ item: engine/search/mod.rs :: struct SearchInfo
//@@ item: engine/search/mod.rs :: struct SearchStats
pub trait Reporter {
    fn report_search_progress(&mut self, game: &Game, progress: SearchInfo);
}
pub struct GhostReporter;
impl Reporter for GhostReporter {
    fn report_search_progress(&mut self, _g: &Game, _p: SearchInfo) {}
}
mod util {
    pub mod metrics {
        pub fn nodes_per_second(_n: u64, _t: std::time::Duration) -> u64 {
            kani::any()
        }
    }
}
fn get_tablebase_pv(_g: &Game, _ctx: &SearchContext<'_>) -> (PrincipalVariation, SearchScore) {
    (PrincipalVariation { first: unsafe { TB_MOVE } }, SearchScore::Centipawns(0))
}
mod iterative_deepening {
    use super::*;
    /// CONTRACT: searches the game it is given and leaves SOME line (possibly none, if not even depth 1 completed) in pv
    pub fn search(game: &mut Game, _ctx: &mut SearchContext<'_>, pv: &mut PrincipalVariation, _r: &mut impl Reporter) -> Option<Move> {
        unsafe {
            ID_CALLS += 1;
            ID_GAME_IS_A_COPY = game as *mut Game as usize != CALLERS_GAME;
            assert!(GENERATIONS == 1 && DECAYS == 1, "the table generation must be advanced exactly once before searching");
            assert!(pv.first.is_none(), "the search starts from an empty line");
            game.marker = 99; // the search may leave its game in any state
            pv.first = ID_LEFT;
            ID_LEFT
        }
    }
}
pub struct MovePicker;
impl MovePicker {
    pub fn new(prev: Option<Move>) -> Self {
        assert!(prev.is_none());
        MovePicker
    }
    /// CONTRACT (C10): the first call hands out a legal move if the position has one
    pub fn next(&mut self, game: &Game, _ctx: &SearchContext<'_>, plies: u8) -> Option<Move> {
        assert!(plies == 0);
        assert!(game.marker == 7, "the fallback move must be picked in the CALLER'S position, not in the searched copy");
        unsafe { PICKER_FIRST }
    }
}

//@@ body: engine/search/mod.rs :: fn search => search__body
//@@ body?: engine/search/mod.rs :: fn panic_move => panic_move

fn any_move_opt() -> Option<Move> {
    if kani::any() {
        let (s, d): (u8, u8) = (kani::any(), kani::any());
        kani::assume(s < 64 && d < 64 && s != d);
        Some(Move::quiet(Square::from_index(s), Square::from_index(d)))
    } else {
        None
    }
}

//@ obligation: C04.best_move.entry_point
//@ property: C04 C09
//@ domain: complete
//@ functions: engine/search/mod.rs::search, engine/search/mod.rs::panic_move
//@ timeout: 900
//@ mem_gb: 6
//@ note: body of the search entry point against callee contracts, for every outcome of the tablebase probe and of iterative deepening: the table generation is advanced and the history decayed exactly once, before any search; the search runs on a COPY of the caller's position (the caller's game is only borrowed immutably and is bit-for-bit untouched afterwards); the move returned is the tablebase move if there is one, else the head of the line the search left, else -- when not even depth 1 completed -- the first move the picker hands out IN THE CALLER'S POSITION (legal by C10 when the position has a legal move, the property's precondition, which is also what makes the final unwrap safe)
//@ assumes: callee contracts (C08.depths.iterative: the line's head is a searched root move; C10: picker hands out legal moves; the position has at least one legal move)
#[kani::proof]
#[kani::unwind(4)]
fn vk_c04_best_move_entry_point() {
    let game = Game { marker: 7, player: crate::chess::player::Player::White };
    let mut ps = PersistentState { tt: GhostTT, history_table: GhostHist, tablebase: GhostTB };
    let mut ts = TimeStrategy;
    let (opts, restr) = (EngineOptions, SearchRestrictions);
    let mut rep = GhostReporter;
    unsafe {
        GENERATIONS = 0;
        DECAYS = 0;
        ID_CALLS = 0;
        TB_MOVE = any_move_opt();
        ID_LEFT = any_move_opt();
        PICKER_FIRST = any_move_opt();
        // the property's precondition: the position has a legal move, so the picker hands one out
        kani::assume(PICKER_FIRST.is_some());
        CALLERS_GAME = &game as *const Game as usize;
    }
    let mv = search__body(&game, &mut ps, &mut ts, &restr, &opts, &mut rep);
    unsafe {
        kani::cover!(TB_MOVE.is_none() && ID_LEFT.is_none());
        kani::cover!(TB_MOVE.is_none() && ID_LEFT.is_some());
        assert!(game.marker == 7, "the caller's position must be untouched");
        assert!(GENERATIONS == 1 && DECAYS == 1);
        if let Some(t) = TB_MOVE {
            assert!(mv == t && ID_CALLS == 0);
        } else {
            assert!(ID_CALLS == 1 && ID_GAME_IS_A_COPY);
            match ID_LEFT {
                Some(m) => assert!(mv == m),
                None => assert!(Some(mv) == PICKER_FIRST),
            }
        }
    }
}
