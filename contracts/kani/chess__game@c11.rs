//@@ module: chess/game.rs
//@@ tag: c11
//@@ needs: chess__board@sym.rs chess__game@sym.rs
use crate::chess::board::verif_kani_sym as sym;
use super::verif_kani_symgame as symgame;
use crate::verif_support::{geo, rules};

fn count_kind(mb: &sym::Mailbox, kind: PieceKind) -> u8 {
    rules::count_piece(mb, Piece::new(Player::White, kind)) + rules::count_piece(mb, Piece::new(Player::Black, kind))
}

//@ obligation: C11.material.rule
//@ domain: complete
//@ functions: chess/game.rs::Game::is_stalemate_by_insufficient_material
//@ timeout: 1500
//@ mem_gb: 8
//@ note: fully symbolic board with both kings present exactly once, either side to move: the verdict is TRUE for bare kings and for king + one knight or bishop against king, and FALSE whenever a pawn, rook or queen is on the board or more than two minor pieces remain
#[kani::proof]
#[kani::unwind(10)]
fn vk_c11_material_rule() {
    let mb = sym::any_mailbox();
    kani::assume(rules::count_piece(&mb, Piece::WHITE_KING) == 1 && rules::count_piece(&mb, Piece::BLACK_KING) == 1);
    let g = symgame::game_with_board(sym::board_of(&mb));
    let verdict = g.is_stalemate_by_insufficient_material();
    let heavy = count_kind(&mb, PieceKind::Pawn) + count_kind(&mb, PieceKind::Rook) + count_kind(&mb, PieceKind::Queen);
    let minors = count_kind(&mb, PieceKind::Knight) + count_kind(&mb, PieceKind::Bishop);
    kani::cover!(heavy == 0 && minors == 2 && verdict);
    kani::cover!(heavy == 0 && minors == 2 && !verdict);
    if heavy == 0 && minors <= 1 {
        assert!(verdict);
    }
    if heavy > 0 || minors > 2 {
        assert!(!verdict);
    }
}

//@ obligation: C11.canary.material
//@ canary: true
//@ timeout: 1500
//@ mem_gb: 8
#[kani::proof]
#[kani::unwind(10)]
fn vk_c11_canary_material() {
    let mb = sym::any_mailbox();
    kani::assume(rules::count_piece(&mb, Piece::WHITE_KING) == 1 && rules::count_piece(&mb, Piece::BLACK_KING) == 1);
    let g = symgame::game_with_board(sym::board_of(&mb));
    assert!(!g.is_stalemate_by_insufficient_material()); // must FAIL
}
