//@@ module: engine/search/quiescence.rs
//@@ tag: c09ind
//@@ noglob: names are bound to the ghost environment of the negamax contract file
//@@ needs: engine__search__negamax@c04.rs
// INDUCTIVE FORM of the quiescence obligations: the function's text is cut at its move loop into
//   prefix  (everything before the loop, verbatim; an early `return` is reported as such),
//   step    (ONE verbatim iteration of the loop, from an ARBITRARY loop-head state that satisfies the invariant INV),
//   suffix  (everything after the loop, verbatim),
// and each piece is verified against the same callee contracts as the one-shot body obligations.  prefix establishes INV
// (or returns a result satisfying the function's contract), step preserves INV, suffix turns INV into the function's
// contract => by induction over the iterations the obligations hold for ANY number of moves handed out by the picker (the
// one-shot form in @c09.rs is bounded to 3 moves per node).
use crate::chess::moves::Move;
use crate::engine::eval::Eval;
use crate::engine::search::MAX_SEARCH_DEPTH;
use crate::engine::search::negamax::verif_kani_c04 as env;
use crate::engine::search::negamax::verif_kani_c04::{Game, SearchContext};
use crate::verif_support::geo;

mod eval {
    pub use crate::engine::search::negamax::verif_kani_c04::eval_contract as eval;
}
/// the recursive call: one ply further, legal window, Err (stop) or a score strictly inside the non-mate band
pub fn quiescence(_g: &mut Game, alpha: Eval, beta: Eval, plies: u8, _ctx: &mut SearchContext<'_>) -> Result<Eval, ()> {
    let r = env::child_contract(alpha, beta, plies);
    if let Ok(e) = r {
        kani::assume(-31900 < e.0 && e.0 < 31900); // contract of quiescence: no mate scores
    }
    r
}
/// CONTRACT of the picker as seen by the search, WITHOUT a bound on the number of moves: at every call it hands out another
/// (legal) move or says None
pub struct MovePicker;
impl MovePicker {
    pub fn new_loud() -> Self {
        MovePicker
    }
    pub fn new(_prev: Option<Move>) -> Self {
        MovePicker
    }
    pub fn next(&mut self, _g: &Game, _ctx: &SearchContext<'_>, plies: u8) -> Option<Move> {
        env::live();
        assert!((plies as usize) < 255, "KillersTable has 255 rows: index out of range (read in MovePicker::next)");
        if kani::any() {
            return None;
        }
        let (s, d) = (geo::any_square(), geo::any_square());
        kani::assume(s != d);
        let m = Move::capture(s, d);
        unsafe {
            env::PICKED = Some(m);
            env::PICKS = env::PICKS.wrapping_add(1);
        }
        Some(m)
    }
}

type St = (Eval, Eval, MovePicker); // (alpha, best_eval, moves): the locals that are live at the loop head

//@@ prefix-early: engine/search/quiescence.rs :: fn quiescence :: while let Some(mv) => #[allow(unused_assignments, unused_mut, unused_variables)] fn q_prefix(game: &mut Game, mut alpha: Eval, beta: Eval, plies: u8, ctx: &mut SearchContext<'_>) ;; Result<Eval, ()> ;; St ;; (alpha, best_eval, moves) ;; Err(())

//@@ loopstep: engine/search/quiescence.rs :: fn quiescence :: while let Some(mv) = moves.next(game, ctx, plies) => #[allow(unused_assignments, unused_mut, unused_variables)] fn q_step(game: &mut Game, beta: Eval, plies: u8, ctx: &mut SearchContext<'_>, st: St) -> Result<(St, bool), ()> ;; let (mut alpha, mut best_eval, mut moves) = st; let mut verif_iter = 0u8; ;; if verif_iter == 1 { return Ok(((alpha, best_eval, moves), false)); } verif_iter += 1; ;; Ok(((alpha, best_eval, moves), true))

//@@ suffix: engine/search/quiescence.rs :: fn quiescence :: Ok(best_eval) => #[allow(unused_variables)] fn q_suffix(best_eval: Eval) -> Result<Eval, ()> ;;

/// INV at the loop head
fn inv(alpha: Eval, beta: Eval, best_eval: Eval, plies: u8) -> bool {
    env::window_ok(alpha, beta, plies) && plies < 255 && -31900 < best_eval.0 && best_eval.0 < 31900 && best_eval <= alpha
}
fn in_band(e: Eval) -> bool {
    -31900 < e.0 && e.0 < 31900
}

//@ obligation: C04.quiescence.ind_prefix
//@ property: C04 C09 C08
//@ domain: complete
//@ functions: engine/search/quiescence.rs::quiescence
//@ timeout: 900
//@ mem_gb: 4
//@ note: text of quiescence up to its move loop, for every legal window and EVERY distance from the root 0..=255: either it returns early -- Err exactly when a stop was observed, otherwise a score strictly inside the non-mate band with the position untouched -- or it reaches the loop with the invariant INV (legal window, plies < 255, stand-pat score in the band and <= alpha), nothing examined after a stop
//@ assumes: callee contracts listed in engine__search__negamax@c04.rs
#[kani::proof]
#[kani::unwind(3)]
fn vk_c04_quiescence_ind_prefix() {
    let alpha = Eval(kani::any());
    let beta = Eval(kani::any());
    let plies: u8 = kani::any();
    kani::assume(env::window_ok(alpha, beta, plies));
    let (mut game, mut ctx) = env::any_game_ctx();
    env::reset(plies);
    let r = q_prefix(&mut game, alpha, beta, plies, &mut ctx);
    kani::cover!(r.is_ok());
    kani::cover!(matches!(r, Err(Ok(_))) && plies == 255);
    match r {
        Ok((a, best, _moves)) => {
            assert!(!unsafe { env::ABORTED } && unsafe { env::MADE } == 0);
            assert!(inv(a, beta, best, plies), "loop invariant not established");
        }
        Err(early) => {
            assert!(early.is_err() == unsafe { env::ABORTED });
            if let Ok(e) = early {
                assert!(in_band(e), "quiescence must not produce mate scores");
                assert!(unsafe { env::MADE } == 0);
            }
        }
    }
}

//@ obligation: C04.quiescence.ind_step
//@ property: C04 C09 C08
//@ domain: complete
//@ functions: engine/search/quiescence.rs::quiescence
//@ timeout: 900
//@ mem_gb: 4
//@ note: ONE verbatim iteration of the move loop from an ARBITRARY loop-head state satisfying INV, with a picker that may hand out any number of further moves: the child is searched one ply further with a legal window after the move was made; on a stop nothing further is examined and Err is returned (never a score); otherwise the move is taken back, no i16 overflow occurs, and INV holds again at the next loop head -- or the loop is left (picker exhausted / cut-off) with the best score still strictly inside the non-mate band
//@ assumes: callee contracts listed in engine__search__negamax@c04.rs
#[kani::proof]
#[kani::unwind(3)]
fn vk_c04_quiescence_ind_step() {
    let alpha = Eval(kani::any());
    let beta = Eval(kani::any());
    let best = Eval(kani::any());
    let plies: u8 = kani::any();
    kani::assume(inv(alpha, beta, best, plies));
    let (mut game, mut ctx) = env::any_game_ctx();
    env::reset(plies);
    let r = q_step(&mut game, beta, plies, &mut ctx, (alpha, best, MovePicker));
    kani::cover!(matches!(r, Ok((_, false))));
    kani::cover!(matches!(r, Ok((_, true))) && unsafe { env::CHILD_CALLS } == 1);
    kani::cover!(r.is_err());
    assert!(r.is_err() == unsafe { env::ABORTED });
    if let Ok(((a, b2, _m), exited)) = r {
        assert!(unsafe { env::MADE } == 0, "the move is not taken back");
        if exited {
            assert!(in_band(b2));
        } else {
            assert!(inv(a, beta, b2, plies), "loop invariant not preserved");
        }
    }
}

//@ obligation: C04.quiescence.ind_suffix
//@ property: C04 C09 C08
//@ domain: complete
//@ functions: engine/search/quiescence.rs::quiescence
//@ timeout: 300
//@ note: text after the loop: the function returns Ok(best score of the loop state), which INV / the exit condition keep strictly inside the non-mate band
//@ assumes: -
#[kani::proof]
fn vk_c04_quiescence_ind_suffix() {
    let best = Eval(kani::any());
    kani::assume(in_band(best));
    let r = q_suffix(best);
    kani::cover!(r.is_ok());
    assert!(matches!(r, Ok(e) if e == best));
}

//@ obligation: C04.canary.quiescence_ind
//@ property: C04 C09 C08
//@ canary: true
//@ timeout: 900
//@ mem_gb: 4
#[kani::proof]
#[kani::unwind(3)]
fn vk_c04_canary_quiescence_ind() {
    let alpha = Eval(kani::any());
    let beta = Eval(kani::any());
    let best = Eval(kani::any());
    let plies: u8 = kani::any();
    kani::assume(inv(alpha, beta, best, plies));
    let (mut game, mut ctx) = env::any_game_ctx();
    env::reset(plies);
    let r = q_step(&mut game, beta, plies, &mut ctx, (alpha, best, MovePicker));
    assert!(!matches!(r, Ok((_, true)))); // must FAIL: the loop can be left
}
