//@@ module: engine/search/tables/lmr_table.rs
//@@ tag: c04

//@ obligation: C04.index.lmr
//@ property: C04
//@ domain: complete
//@ functions: engine/search/tables/lmr_table.rs::lmr_reduction
//@ timeout: 600
//@ mem_gb: 6
//@ note: for every depth 0..=255 and every move count (usize) the 64x64 table is read in range
#[kani::proof]
#[kani::unwind(4)]
fn vk_c04_index_lmr() {
    let d: u8 = kani::any();
    let n: usize = kani::any();
    kani::cover!(d > 63 && n > 63);
    let _ = lmr_reduction(d, n);
}
