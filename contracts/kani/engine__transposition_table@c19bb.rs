//@@ module: engine/transposition_table.rs
//@@ tag: c19bb
// BLACK-BOX obligation on the SMALLEST ADVERTISED table (Hash = 0), through the public API only (new / insert / get /
// occupancy / new_generation / reset): it names no private field, so it keeps deciding when the table's representation is
// changed (the Verus unit and the Kani twins of @c19.rs name `occupied` / `data` and lose their anchor then).
#[derive(Clone)]
pub struct D(pub u8);
impl TTOverwriteable for D {
    fn should_overwrite_with(&self, _new: &Self) -> bool {
        kani::any()
    }
}

//@ obligation: C19.tt.blackbox_smallest_table
//@ property: C19 C13 C04
//@ domain: bounded(the table built for Hash = 0; two insertions)
//@ functions: engine/transposition_table.rs::TranspositionTable<T>::new, engine/transposition_table.rs::TranspositionTable<T>::insert, engine/transposition_table.rs::TranspositionTable<T>::get, engine/transposition_table.rs::TranspositionTable<T>::occupancy, engine/transposition_table.rs::TranspositionTable<T>::reset
//@ timeout: 900
//@ mem_gb: 6
//@ note: the smallest advertised hash size works, through the public API only: a table built with new(0) accepts insertions under arbitrary keys, a probe returns data only under exactly the key it was stored with, the fill indicator can be read at any time (0 when empty, at most 1000, 1000 once the single slot is taken), new_generation and reset return and reset empties the table -- no panic, no division by zero, no index out of range
//@ assumes: Vec as compiled by Kani; D is an arbitrary payload with an arbitrary replacement policy
#[kani::proof]
#[kani::unwind(4)]
fn vk_c19_tt_blackbox_smallest_table() {
    let mut t = TranspositionTable::<D>::new(0);
    assert!(t.occupancy() == 0);
    let k1 = ZobristHash(kani::any());
    let k2 = ZobristHash(kani::any());
    assert!(t.get(&k1).is_none());
    t.insert(&k1, D(1));
    let o1 = t.occupancy();
    assert!(o1 <= 1000);
    match t.get(&k1) {
        Some(d) => assert!(d.0 == 1),
        None => assert!(false, "the entry just stored in an empty slot is not found"),
    }
    t.new_generation();
    t.insert(&k2, D(2));
    assert!(t.occupancy() <= 1000);
    kani::cover!(k1.0 != k2.0);
    if let Some(d) = t.get(&k2) {
        assert!(d.0 == 2 || k1.0 == k2.0);
    }
    if k1.0 != k2.0 {
        // data stored under one key is never returned for another
        if let Some(d) = t.get(&k1) {
            assert!(d.0 == 1);
        }
    }
    t.reset();
    assert!(t.occupancy() == 0 && t.get(&k1).is_none() && t.get(&k2).is_none());
    std::mem::forget(t);
}
