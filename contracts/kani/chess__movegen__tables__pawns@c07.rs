//@@ module: chess/movegen/tables/pawns.rs
//@@ tag: c07
//@@ needs: chess__bitboard@iter.rs
use crate::chess::bitboard::verif_kani_iter as iter;
use crate::verif_support::geo;

//@ obligation: C07.tables.pawns_init_and_lookup
//@ domain: complete
//@ functions: chess/movegen/tables/pawns.rs::init, chess/movegen/tables/pawns.rs::pawn_attacks
//@ timeout: 900
//@ mem_gb: 6
//@ note: as for king/knights, both colours: cell [colour][s] receives generate_pawn_attacks(s, colour); no other cell changes; the lookup reads [colour][square]
//@ assumes: one-shot iterator contract and independence of loop iterations
#[kani::proof]
#[kani::unwind(10)]
#[kani::stub(<crate::chess::bitboard::SquareIterator as std::iter::Iterator>::next, iter::one_shot_square_next)]
fn vk_c07_pawns_init_and_lookup() {
    let j = geo::any_square();
    let pj = geo::any_player();
    let before = pawn_attacks(j, pj);
    iter::rec_reset();
    init();
    let s = iter::yielded(0);
    let p = geo::any_player();
    kani::cover!(s != j && p == Player::Black);
    assert!(iter::calls() == 1);
    assert!(pawn_attacks(s, p) == attacks::generate_pawn_attacks(s, p));
    if j != s {
        assert!(pawn_attacks(j, pj) == before);
    }
}
