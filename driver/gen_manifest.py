#!/usr/bin/env python3
"""Regenerates /verif/MANIFEST.json from contracts/properties_meta.json (single source of truth for claims)."""
import json, sys
from pathlib import Path
V = Path(__file__).resolve().parent.parent
meta = json.loads((V / "contracts" / "properties_meta.json").read_text())
props = [json.loads(l) for l in (V / "properties.jsonl").read_text().splitlines() if l.strip()]
checks, na = [], []
for p in props:
    pid = p["id"]
    m = meta.get(pid, {})
    if m.get("claimed"):
        checks.append({
            "property_id": pid,
            "quick_cmd": "./check %s --tier quick" % pid,
            "thorough_cmd": "./check %s --tier thorough" % pid,
            "evidence_file": "/verif/evidence/%s.json" % pid,
            "replay_cmd_template": "./check replay {path}",
            "engine": "contracts",
            "level_claimed": {"category": m.get("level", "proof"), "text": m["level_text"], "design_ref": m.get("design_ref", "DESIGN.md section 4, " + pid)},
            "level_note": m["level_note"],
            "technique": m.get("technique", "contract-based deductive verification: Kani function/loop-free harness contracts (CBMC) and Verus requires/ensures/invariants on the real code"),
        })
    else:
        na.append({"property_id": pid, "reason": m.get("na_reason", "no obligation of this framework decides it yet")})
man = {
    "version": 1,
    "setup_cmd": "./check setup",
    "hooks": {"guard": "jgilchrist_tcheran_verif", "enable": "none needed: contracts are appended under #[cfg(kani)] to a staged copy of /repo rebuilt on every run; Verus text is extracted from /repo on every run",
              "baseline_off_cmd": "cd /repo && cargo test --workspace --no-fail-fast --offline", "source_commits": [], "add_only": True},
    "engines": [{"name": "contracts", "path": "/verif/driver/verif.py", "serves_properties": [c["property_id"] for c in checks],
                 "kind_free_text": "stages /repo, appends #[cfg(kani)] contract modules (contracts/kani), extracts items into Verus files (contracts/verus), schedules cargo-kani / verus per obligation, classifies accepted/refuted/undecided, writes evidence and replay files"}],
    "checks": checks,
    "not_applicable": na,
    "notes": "Exit 0 all registered obligations accepted; exit 1 + VIOLATION line for a refuted obligation; exit 2 undecided (anchor lost, timeout, OOM, vacuous). See DESIGN.md.",
}
(V / "MANIFEST.json").write_text(json.dumps(man, indent=1))
print("wrote MANIFEST.json: %d checks, %d not_applicable" % (len(checks), len(na)))
