#!/bin/bash
# runs every claimed check's quick command sequentially; summary in /tmp/runall/summary.txt
cd /verif; mkdir -p /tmp/runall; : > /tmp/runall/summary.txt
for p in $(python3 -c "import json;print(' '.join(c['property_id'] for c in json.load(open('MANIFEST.json'))['checks']))"); do
  s=$(date +%s); ./check $p --tier ${1:-quick} > /tmp/runall/$p.log 2>&1; rc=$?; e=$(date +%s)
  echo "$p rc=$rc wall=$((e-s))s $(grep -v WARN /tmp/runall/$p.log | grep 'tier=' | tail -1)" >> /tmp/runall/summary.txt
done
echo DONE >> /tmp/runall/summary.txt
