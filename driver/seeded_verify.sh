#!/bin/bash
# usage: seeded_verify.sh <ID> [name]   -- confirm a seeded change delivered in /tmp/seed/<ID>-out against worktree /tmp/seed/<ID>-wt
ID=$1; NAME=${2:-$1}
WT=/tmp/seed/$ID-wt; OUT=/tmp/seed/$ID-out
export CARGO_TARGET_DIR=/tmp/seed/$ID-target
cd $WT || exit 2
echo "== diff stat"; git diff --stat
echo "== test suite WITH the change"
cargo test --offline 2>&1 | grep "test result" 
echo "== demo WITH the change (must fail)"
bash $OUT/demo.sh > /tmp/seed/$ID-demo-with.log 2>&1; W=$?; echo "exit=$W"; tail -3 /tmp/seed/$ID-demo-with.log
git apply -R $OUT/patch.diff
echo "== demo WITHOUT the change (must pass)"
bash $OUT/demo.sh > /tmp/seed/$ID-demo-without.log 2>&1; WO=$?; echo "exit=$WO"; tail -3 /tmp/seed/$ID-demo-without.log
git apply $OUT/patch.diff
git diff > /tmp/seed/$ID-recheck.diff
cmp -s <(git diff) $OUT/patch.diff && echo "patch.diff matches worktree diff" || echo "NOTE: patch.diff differs from worktree diff"
rm -rf $CARGO_TARGET_DIR
echo "RESULT with=$W without=$WO"
