#!/bin/bash
# usage: seed_check.sh <seed-id> <PROPERTY> [tier] [--only substr]  -- run a check against the scratch worktree /tmp/seed/<seed-id>-wt (change applied)
ID=$1; P=$2; T=${3:-quick}; shift 3
mkdir -p /tmp/seed/$ID-vout
cd /verif && VERIF_REPO=/tmp/seed/$ID-wt VERIF_OUT=/tmp/seed/$ID-vout VERIF_SCRATCH=/var/tmp/tcheran-verif-seed ./check $P --tier $T "$@" > /tmp/seed/$ID-check-$P.log 2>&1
echo "[$ID $P $T] rc=$? $(grep -E 'tier=' /tmp/seed/$ID-check-$P.log | tail -1)"
grep -E "^(REFUTED|VIOLATION|UNDECIDED)" /tmp/seed/$ID-check-$P.log | cut -c1-300
