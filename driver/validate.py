#!/usr/bin/env python3
import json, sys, glob
import jsonschema
ev = json.load(open('/root/.vp/EVIDENCE.schema.json'))
mf = json.load(open('/root/.vp/MANIFEST.schema.json'))
ok = True
try:
    m = json.load(open('/verif/MANIFEST.json'))
    jsonschema.validate(m, mf)
    print("MANIFEST ok:", len(m['checks']), "checks,", len(m.get('not_applicable', [])), "n/a")
except Exception as e:
    ok = False; print("MANIFEST invalid:", str(e)[:500])
for f in sorted(glob.glob('/verif/evidence/*.json')):
    try:
        jsonschema.validate(json.load(open(f)), ev); print("ok", f)
    except Exception as e:
        ok = False; print("INVALID", f, str(e)[:300])
sys.exit(0 if ok else 1)
