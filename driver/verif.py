#!/usr/bin/env python3
"""Driver for the contract-based verification of jgilchrist/tcheran (see /verif/DESIGN.md).

usage:  verif.py check <PROPERTY> [--tier quick|thorough] [--only <substr>] [--keep] [--all-status]
        verif.py replay <replay-file>
        verif.py list [<PROPERTY>]
        verif.py setup

Exit codes of `check`: 0 every registered obligation accepted; 1 an obligation that is registered as
passing is now *refuted* by the verifier (prints VIOLATION property=<id> replay=<path>); 2 undecided
(anchor lost / compile error / timeout / out of memory / vacuous / tool failure) -- never an alarm.
"""
import hashlib
import json
import os
import re
import shutil
import signal
import subprocess
import sys
import threading
import time
from concurrent.futures import ThreadPoolExecutor
from pathlib import Path

VERIF = Path(__file__).resolve().parent.parent
REPO = Path(os.environ.get("VERIF_REPO", "/repo"))
KANI_DIR = VERIF / "contracts" / "kani"
VERUS_DIR = VERIF / "contracts" / "verus"
# VERIF_OUT: where evidence/ and replays/ are written (default /verif; set it when checking a scratch worktree via VERIF_REPO)
OUT_ROOT = Path(os.environ.get("VERIF_OUT", str(VERIF)))
EVIDENCE = OUT_ROOT / "evidence"
REPLAYS = OUT_ROOT / "replays"
SCRATCH_ROOT = Path(os.environ.get("VERIF_SCRATCH", "/var/tmp/tcheran-verif"))
KANI_FLAGS = ["-Z", "stubbing", "-Z", "function-contracts", "-Z", "unstable-options"]
NCPU = os.cpu_count() or 4
MAX_JOBS = int(os.environ.get("VERIF_JOBS", str(min(16, NCPU))))
def _default_mem_cap():
    try:
        kb = int(re.search(r"MemTotal:\s+(\d+)", open("/proc/meminfo").read()).group(1))
        return max(8.0, min(52.0, kb / 1024 / 1024 * 0.84))
    except Exception:
        return 44.0


MEM_CAP_GB = float(os.environ.get("VERIF_MEM_CAP_GB", "0")) or _default_mem_cap()
TIME_SCALE = float(os.environ.get("VERIF_TIME_SCALE", "1.0"))

ENV = dict(os.environ)
ENV["CARGO_NET_OFFLINE"] = "true"
ENV.pop("RUSTUP_TOOLCHAIN", None)


def sha256(b):
    if isinstance(b, str):
        b = b.encode()
    return hashlib.sha256(b).hexdigest()


def log(*a):
    print(*a, flush=True)


# ----------------------------------------------------------------------------------------------
# contract files and their annotations
# ----------------------------------------------------------------------------------------------
class Obligation:
    def __init__(self, d, cfile):
        self.id = d["obligation"]
        self.cfile = cfile
        self.backend = cfile.backend
        self.properties = d.get("property", self.id.split(".")[0]).split()
        self.tier = d.get("tier", "quick")
        self.domain = d.get("domain", "complete")
        self.functions = [x.strip() for x in d.get("functions", "").split(",") if x.strip()]
        self.timeout = float(d.get("timeout", "600"))
        self.mem_gb = float(d.get("mem_gb", "4"))
        # extra cargo-kani arguments for this obligation (e.g. --no-memory-safety-checks); recorded in the evidence as an assumption
        self.kani_args = d.get("kani_args", "").split()
        self.assumes = [x.strip() for x in d.get("assumes", "").split(";") if x.strip()]
        if any(a.startswith("--no-") for a in self.kani_args):
            self.assumes.append("checks switched off for this obligation: " + " ".join(a for a in self.kani_args if a.startswith("--no-")))
        self.status = d.get("status", "registered")
        self.canary = d.get("canary", "false").lower() == "true"
        self.min_covers = int(d.get("covers", "1"))
        self.note = d.get("note", "")
        self.harness = d.get("harness")  # kani: fn name; verus: fn/lemma name
        self.finding_class = d.get("finding_class")

    @property
    def bounded(self):
        return not self.domain.startswith("complete")

    def fq_harness(self):
        return self.cfile.rust_mod_path() + "::" + self.harness


class ContractFile:
    """One file under contracts/kani: appended to one module of the staged crate."""

    def __init__(self, path, backend):
        self.path = path
        self.backend = backend
        self.text = path.read_text()
        self.meta = {}
        for m in re.finditer(r"^//@@\s*([\w-]+)\s*:\s*(.*)$", self.text, re.M):
            self.meta.setdefault(m.group(1), []).append(m.group(2).strip())
        self.module = self.meta.get("module", [None])[0]  # path relative to src/
        self.tag = self.meta.get("tag", [path.stem.replace("@", "_").replace("-", "_")])[0]
        self.obligations = []
        self._parse_obligations()

    def _parse_obligations(self):
        lines = self.text.split("\n")
        i = 0
        while i < len(lines):
            if lines[i].strip().startswith("//@ obligation:"):
                d = {}
                last = None
                first = True
                while i < len(lines) and lines[i].strip().startswith("//@") and not lines[i].strip().startswith("//@@"):
                    if not first and lines[i].strip().startswith("//@ obligation:"):
                        break
                    first = False
                    s = lines[i].strip()[3:].strip()
                    m = re.match(r"^(\w+)\s*:\s*(.*)$", s)
                    if m:
                        last = m.group(1)
                        d[last] = m.group(2).strip()
                    elif last:
                        d[last] += " " + s
                    i += 1
                # next fn name
                j = i
                while j < len(lines) and "harness" not in d:
                    m = re.search(r"\bfn\s+([A-Za-z0-9_]+)", lines[j])
                    if m:
                        d["harness"] = m.group(1)
                    j += 1
                self.obligations.append(Obligation(d, self))
            else:
                i += 1

    def rust_mod_path(self):
        p = self.module
        if p.endswith("/mod.rs"):
            p = p[: -len("/mod.rs")]
        elif p.endswith(".rs"):
            p = p[:-3]
        parts = [("r#" + x if x in ("move", "type", "match", "mod", "use", "fn", "impl", "loop", "ref", "box") else x)
                 for x in p.split("/") if x and x != "main"]
        return "::".join(parts + ["verif_kani_" + self.tag])


def load_contracts():
    files = []
    for p in sorted(KANI_DIR.glob("*.rs")):
        files.append(ContractFile(p, "kani"))
    return files


def load_verus_units():
    units = []
    for p in sorted(VERUS_DIR.glob("*.vspec")):
        units.append(VerusUnit(p))
    return units


# ----------------------------------------------------------------------------------------------
# mechanical extraction of function text from /repo (used by both back ends)
# ----------------------------------------------------------------------------------------------
def strip_comments_mask(src):
    """Return a string of the same length where comments/strings/chars are blanked (for brace matching)."""
    out = list(src)
    i, n = 0, len(src)
    while i < n:
        c = src[i]
        if src.startswith("//", i):
            j = src.find("\n", i)
            j = n if j < 0 else j
            for k in range(i, j):
                out[k] = " "
            i = j
        elif src.startswith("/*", i):
            depth, j = 1, i + 2
            while j < n and depth:
                if src.startswith("/*", j):
                    depth += 1
                    j += 2
                elif src.startswith("*/", j):
                    depth -= 1
                    j += 2
                else:
                    j += 1
            for k in range(i, j):
                if out[k] != "\n":
                    out[k] = " "
            i = j
        elif c == '"':
            j = i + 1
            while j < n and src[j] != '"':
                j += 2 if src[j] == "\\" else 1
            for k in range(i + 1, min(j, n)):
                if out[k] != "\n":
                    out[k] = " "
            i = j + 1
        elif c == "'":
            # char literal or lifetime
            m = re.match(r"'(\\.[^']*|[^'\\])'", src[i:])
            if m:
                for k in range(i + 1, i + m.end() - 1):
                    out[k] = " "
                i += m.end()
            else:
                i += 1
        else:
            i += 1
    return "".join(out)


def match_brace(mask, open_idx):
    depth = 0
    for i in range(open_idx, len(mask)):
        if mask[i] == "{":
            depth += 1
        elif mask[i] == "}":
            depth -= 1
            if depth == 0:
                return i
    raise ValueError("unbalanced braces")


def find_item(src, locator, mask=None, lo=0, hi=None):
    """locator: 'impl Foo / fn bar' or 'fn bar' or 'struct X' or 'mod m / fn f' ...
    Returns (start, end) span of the whole item (from the keyword, *without* leading attributes/vis)."""
    mask = mask or strip_comments_mask(src)
    hi = len(src) if hi is None else hi
    parts = [p.strip() for p in locator.split("/")]
    for idx, part in enumerate(parts):
        kw, _, name = part.partition(" ")
        name = name.strip()
        if kw == "impl":
            # name may contain generics / 'Trait for Type'
            pat = r"\bimpl(?:\s*<[^{]*?>)?\s+" + re.escape(name).replace(r"\ ", r"\s+") + r"\s*(?:where[^{]*)?\{"
        elif kw in ("fn",):
            pat = r"\bfn\s+" + re.escape(name) + r"\b"
        elif kw in ("struct", "enum", "trait", "mod", "const", "static", "type"):
            pat = r"\b" + kw + r"\s+(?:mut\s+)?" + re.escape(name) + r"\b"
        else:
            raise ValueError("bad locator part: " + part)
        m = None
        for mm in re.finditer(pat, mask[lo:hi]):
            m = mm
            break
        if not m:
            raise LookupError("anchor lost: %s (part %r)" % (locator, part))
        start = lo + m.start()
        # find the end: first '{' or ';' at depth 0 after start
        k = lo + m.end() - (1 if kw == "impl" else 0)
        depth_par = 0
        end = None
        while k < hi:
            ch = mask[k]
            if ch in "([":
                depth_par += 1
            elif ch in ")]":
                depth_par -= 1
            elif ch == "{" and depth_par == 0:
                end = match_brace(mask, k) + 1
                body_open = k
                break
            elif ch == ";" and depth_par == 0:
                end = k + 1
                body_open = None
                break
            k += 1
        if end is None:
            raise LookupError("anchor lost (no end): " + locator)
        if idx == len(parts) - 1:
            # include a leading visibility qualifier (pub / pub(crate) / pub(super))
            mv = re.search(r"(pub(?:\([a-z:]+\))?\s+(?:(?:const|unsafe|async)\s+)*)$", mask[max(lo, start - 40):start])
            mc = re.search(r"((?:(?:const|unsafe|async)\s+)+)$", mask[max(lo, start - 40):start])
            if mv:
                start -= len(mv.group(1))
            elif mc:
                start -= len(mc.group(1))
            return start, end
        lo, hi = body_open + 1, end - 1
    raise AssertionError


def _read_src(relpath, root=None):
    root = root or REPO
    if not str(relpath).startswith("src/"):
        relpath = "src/" + str(relpath)
    f = root / relpath
    if not f.exists():
        raise LookupError("anchor lost: file %s does not exist" % relpath)
    return f.read_text()


def extract_item(relpath, locator, root=None, with_attrs=False):
    src = _read_src(relpath, root)
    s, e = find_item(src, locator)
    if with_attrs:
        ls = src.rfind("\n", 0, s) + 1
        while ls > 0:
            prev_end = ls - 1
            prev_start = src.rfind("\n", 0, prev_end) + 1
            prev = src[prev_start:prev_end].strip()
            if prev.startswith("#[") or (prev and _in_attr(src, prev_start)):
                ls = prev_start
            else:
                break
        s = ls
    return src[s:e]


def fn_line(relpath, locator, root=None):
    src = _read_src(relpath, root)
    s, e = find_item(src, locator)
    return src.count("\n", 0, s) + 1, sha256(src[s:e])[:16]


TABLE_STUBS = "\n".join("#[kani::stub(crate::chess::movegen::tables::%s, crate::verif_support::tstub::%s)]" % (a, b) for a, b in [
    ("magics::rook_attacks", "rook_attacks"), ("magics::bishop_attacks", "bishop_attacks"),
    ("knights::knight_attacks", "knight_attacks"), ("king::king_attacks", "king_attacks"),
    ("pawns::pawn_attacks", "pawn_attacks"), ("between::between", "between")])

INDICATOR_STUBS = "\n".join("#[kani::stub(%s, crate::verif_support::indicator::%s)]" % (a, b) for a, b in [
    ("crate::chess::zobrist::piece_on_square", "piece_on_square"), ("crate::chess::zobrist::castle_rights", "castle_rights"),
    ("crate::chess::zobrist::en_passant", "en_passant"), ("crate::chess::zobrist::side_to_play", "side_to_play"),
    ("crate::engine::eval::piece_square_tables::piece_contributions", "piece_contributions")])

def desugar_inline_format(text, locator):
    """format!("..{name}..", a, b)  ->  format!("..{}..", <args in placeholder order, `name` inserted where it is captured>)
    Rust's own definition of implicit named-argument capture, applied mechanically so that a macro_rules `format!` (which
    cannot see the call site's locals through a string literal) can stand in.  Format specs ({:>3}, {x:?}) are not supported:
    anchor lost."""
    out = []
    i = 0
    for m in re.finditer(r"\bformat!\s*\(", text):
        if m.start() < i:
            continue
        k = m.end()
        depth = 1
        j = k
        in_str = False
        while j < len(text) and depth:
            c = text[j]
            if in_str:
                if c == "\\":
                    j += 1
                elif c == '"':
                    in_str = False
            else:
                if c == '"':
                    in_str = True
                elif c in "([{":
                    depth += 1
                elif c in ")]}":
                    depth -= 1
            j += 1
        inner = text[k:j - 1]
        lm = re.match(r'\s*"((?:[^"\\]|\\.)*)"\s*(,|$)', inner, re.S)
        if not lm:
            raise LookupError("anchor lost: format! without a literal format string in %s" % locator)
        lit = lm.group(1)
        rest = inner[lm.end():]
        # split rest at top-level commas
        args, cur, d, ins = [], "", 0, False
        for ch in rest:
            if ins:
                cur += ch
                if ch == '"':
                    ins = False
                continue
            if ch == '"':
                ins = True
                cur += ch
            elif ch in "([{":
                d += 1
                cur += ch
            elif ch in ")]}":
                d -= 1
                cur += ch
            elif ch == "," and d == 0:
                args.append(cur)
                cur = ""
            else:
                cur += ch
        if cur.strip():
            args.append(cur)
        args = [a for a in args if a.strip()]
        new_args, pos = [], 0
        def ph(mm):
            nonlocal pos
            name = mm.group(1)
            if name == "":
                if pos >= len(args):
                    raise LookupError("anchor lost: format! placeholder without argument in %s" % locator)
                new_args.append(args[pos].strip())
                pos += 1
            elif re.match(r"^[A-Za-z_][A-Za-z0-9_]*$", name):
                new_args.append(name)
            else:
                raise LookupError("anchor lost: unsupported format spec {%s} in %s" % (name, locator))
            return "{}"
        new_lit = re.sub(r"\{([^{}]*)\}", ph, lit)
        out.append(text[i:m.start()])
        out.append('format!("%s"%s)' % (new_lit, "".join(", " + a for a in new_args)))
        i = j
    out.append(text[i:])
    return "".join(out)


METHODS_RE = re.compile(r"^[ \t]*//@@[ \t]*methods-except[ \t]*:[ \t]*(\S+)[ \t]*::[ \t]*(.*?)[ \t]*::[ \t]*(.*?)[ \t]*$", re.M)


def expand_methods(text, root, record):
    """//@@ methods-except: <relpath> :: <impl locator> :: name1, name2, ...
    is replaced by the verbatim text of EVERY fn item of that impl block except the named ones -- so that a helper method
    added to the impl later (and called from an extracted arm) is compiled in the contract scope too, against the same
    ghost fields, instead of losing the anchor."""

    def repl(m):
        rel, locator, names = m.group(1), m.group(2), [x.strip() for x in m.group(3).split(",") if x.strip()]
        item = extract_item(rel, locator, root)
        mask = strip_comments_mask(item)
        b0 = mask.find("{")
        b1 = match_brace(mask, b0)
        out = []
        depth = 0
        i = b0 + 1
        for mm in re.finditer(r"\bfn\s+([A-Za-z0-9_]+)\b", mask[b0 + 1:b1]):
            pos = b0 + 1 + mm.start()
            # only fns at depth 1 of the impl block
            d = mask[b0 + 1:pos].count("{") - mask[b0 + 1:pos].count("}")
            if d != 0 or mm.group(1) in names:
                continue
            k = mask.find("{", pos)
            e = match_brace(mask, k)
            ls = item.rfind("\n", 0, pos) + 1
            txt = item[ls:e + 1]
            record.append({"source": ("src/" + rel) if not rel.startswith("src/") else rel, "item": locator + " / fn " + mm.group(1),
                           "sha256_of_source_span": sha256(txt), "renamed_to": None, "substitutions": ["helper method of the impl, copied verbatim (methods-except)"]})
            out.append(txt)
        return "\n".join(out)

    return METHODS_RE.sub(repl, text)


FNS_RE = re.compile(r"^[ \t]*//@@[ \t]*fns-except[ \t]*:[ \t]*(\S+)[ \t]*::[ \t]*(.*?)[ \t]*$", re.M)


def expand_fns(text, root, record):
    """//@@ fns-except: <relpath> :: name1, name2, ...
    is replaced by the verbatim text of EVERY top-level `fn` item of that file (outside impl / mod / trait blocks, tests
    excluded) except the named ones -- so that a free helper function added to the module later and called from an extracted
    item is compiled in the contract scope too, against the same ghost types, instead of losing the anchor."""

    def repl(m):
        rel, names = m.group(1), [x.strip() for x in m.group(2).split(",") if x.strip()]
        src = _read_src(rel, root)
        mask = strip_comments_mask(src)
        out = []
        for mm in re.finditer(r"(?m)^(?:pub(?:\([a-z:]+\))?\s+)?(?:const\s+)?fn\s+([A-Za-z0-9_]+)\b", mask):
            if mm.group(1) in names:
                continue
            k = mask.find("{", mm.end())
            semi = mask.find(";", mm.end())
            if k < 0 or (0 <= semi < k):
                continue
            e = match_brace(mask, k)
            txt = src[mm.start():e + 1]
            record.append({"source": ("src/" + rel) if not rel.startswith("src/") else rel, "item": "fn " + mm.group(1),
                           "sha256_of_source_span": sha256(txt), "renamed_to": None, "substitutions": ["free helper function of the module, copied verbatim (fns-except)"]})
            out.append(txt)
        return "\n".join(out)

    return FNS_RE.sub(repl, text)


BODY_RE = re.compile(r"^[ \t]*//@@[ \t]*body(\??)[ \t]*:[ \t]*(\S+)[ \t]*::[ \t]*(.*?)[ \t]*=>[ \t]*(\w+)[ \t]*(.*)$", re.M)


ITEM_RE = re.compile(r"^[ \t]*//@@[ \t]*item[ \t]*:[ \t]*(\S+)[ \t]*::[ \t]*(.*?)[ \t]*$", re.M)


def expand_items(text, root, record):
    """//@@ item: <relpath> :: <locator>   is replaced by the verbatim text of that item (struct / enum / impl / fn ...)"""

    def repl(m):
        rel, locator = m.group(1), m.group(2)
        item = extract_item(rel, locator, root, with_attrs=True)
        record.append({"source": ("src/" + rel) if not rel.startswith("src/") else rel, "item": locator,
                       "sha256_of_source_span": sha256(item), "renamed_to": None, "substitutions": []})
        return item

    return ITEM_RE.sub(repl, text)


CLOSURE_RE = re.compile(r"^[ \t]*//@@[ \t]*closure[ \t]*:[ \t]*(\S+)[ \t]*::[ \t]*(.*?)[ \t]*::[ \t]*(.*?)[ \t]*=>[ \t]*(.*)$", re.M)


def expand_closures(text, root, record):
    """//@@ closure: <relpath> :: <locator of enclosing fn> :: <literal closure head |...|> => <new fn signature>
    is replaced by `<new fn signature> { <verbatim closure body> }` (the body is the brace-matched block after the head)."""

    def repl(m):
        rel, locator, head, sig = m.group(1), m.group(2), m.group(3), m.group(4)
        item = extract_item(rel, locator, root)
        k = item.find(head)
        if k < 0:
            raise LookupError("anchor lost: closure head %r not found in %s" % (head, locator))
        mask = strip_comments_mask(item)
        b0 = mask.find("{", k + len(head))
        if sig.startswith("=>"):
            # match-arm form `<pattern> => => <signature>`: the block is the arm's body
            sig = sig[2:].strip()
        if b0 < 0 or mask[k + len(head):b0].strip() not in ("", "=>"):
            raise LookupError("anchor lost: closure %r in %s has no block body" % (head, locator))
        b1 = match_brace(mask, b0)
        body = item[b0:b1 + 1]
        if head.startswith("for ") or head.startswith("while "):
            # a loop statement: keep its head, wrap the whole statement in the new function
            body = "{\n" + head + " " + body + "\n}"
        if ";;" in sig:
            # `<signature> ;; <epilogue>`: the block becomes a statement followed by the epilogue (e.g. `Ok(())`)
            sig, epilogue = [x.strip() for x in sig.split(";;", 1)]
            body = "{\n" + body + "\n" + epilogue + "\n}"
        record.append({"source": ("src/" + rel) if not rel.startswith("src/") else rel, "item": locator + " / closure " + head,
                       "sha256_of_source_span": sha256(body), "renamed_to": sig, "substitutions": []})
        return sig + " " + body

    return CLOSURE_RE.sub(repl, text)


LOOPSTEP_RE = re.compile(r"^[ \t]*//@@[ \t]*loopstep[ \t]*:[ \t]*(\S+)[ \t]*::[ \t]*(.*?)[ \t]*::[ \t]*(.*?)[ \t]*=>[ \t]*(.*?)[ \t]*;;[ \t]*(.*?)[ \t]*;;[ \t]*(.*?)[ \t]*;;[ \t]*(.*)$", re.M)
SUFFIX_RE = re.compile(r"^[ \t]*//@@[ \t]*suffix[ \t]*:[ \t]*(\S+)[ \t]*::[ \t]*(.*?)[ \t]*::[ \t]*(.*?)[ \t]*=>[ \t]*(.*?)[ \t]*;;[ \t]*(.*)$", re.M)
PREFIX_EARLY_RE = re.compile(r"^[ \t]*//@@[ \t]*prefix-early[ \t]*:[ \t]*(\S+)[ \t]*::[ \t]*(.*?)[ \t]*::[ \t]*(.*?)[ \t]*=>[ \t]*(.*?)[ \t]*;;[ \t]*(.*?)[ \t]*;;[ \t]*(.*?)[ \t]*;;[ \t]*(.*?)[ \t]*;;[ \t]*(.*)$", re.M)
PREFIX_RE = re.compile(r"^[ \t]*//@@[ \t]*prefix[ \t]*:[ \t]*(\S+)[ \t]*::[ \t]*(.*?)[ \t]*::[ \t]*(.*?)[ \t]*=>[ \t]*(.*?)[ \t]*;;[ \t]*(.*)$", re.M)


def expand_loopsteps(text, root, record):
    """//@@ loopstep: <relpath> :: <fn locator> :: <loop head, e.g. loop> => <signature> ;; <prologue> ;; <guard> ;; <epilogue>
    ONE-ITERATION FORM of a loop of the real function: the loop's block is copied verbatim; the driver adds only the new
    signature, the prologue (declares the loop's free variables from the parameters), a guard as the first statement of
    the block (returns after one full iteration) and the epilogue after the loop (reached through the loop's own break).
    //@@ prefix: <relpath> :: <fn locator> :: <until literal> => <signature> ;; <epilogue>
    the text of the function from its opening brace up to the `until` literal, verbatim, followed by the epilogue."""

    def _fn_block(item):
        mask = strip_comments_mask(item)
        b0 = mask.find("{")
        return mask, b0, match_brace(mask, b0)

    def repl_loop(m):
        rel, locator, head, sig, prologue, guard, epilogue = [m.group(i) for i in range(1, 8)]
        item = extract_item(rel, locator, root)
        mask, f0, f1 = _fn_block(item)
        mm = re.search(r"\b" + re.escape(head) + r"\s*\{", mask[f0:f1])
        if not mm:
            raise LookupError("anchor lost: loop head %r not found in %s" % (head, locator))
        b0 = f0 + mm.end() - 1
        b1 = match_brace(mask, b0)
        inner = item[b0 + 1:b1]
        record.append({"source": ("src/" + rel) if not rel.startswith("src/") else rel, "item": locator + " / loop " + head,
                       "sha256_of_source_span": sha256(inner), "renamed_to": sig,
                       "substitutions": ["one-iteration form: prologue, guard and epilogue added by the contract; loop block verbatim"]})
        return "%s {\n%s\n%s {\n%s\n%s\n}\n%s\n}" % (sig, prologue, head, guard, inner, epilogue)

    def repl_prefix(m):
        rel, locator, until, sig, epilogue = [m.group(i) for i in range(1, 6)]
        item = extract_item(rel, locator, root)
        mask, f0, f1 = _fn_block(item)
        k = mask.find(until, f0)
        if k < 0:
            raise LookupError("anchor lost: prefix end %r not found in %s" % (until, locator))
        inner = item[f0 + 1:k]
        record.append({"source": ("src/" + rel) if not rel.startswith("src/") else rel, "item": locator + " / prefix up to " + until,
                       "sha256_of_source_span": sha256(inner), "renamed_to": sig,
                       "substitutions": ["function text up to the loop, verbatim; epilogue added by the contract"]})
        return "%s {\n%s\n%s\n}" % (sig, inner, epilogue)

    def repl_suffix(m):
        """//@@ suffix: <relpath> :: <fn locator> :: <from literal> => <signature> ;; <prologue>
        the text of the function from the `from` literal to its closing brace, verbatim, preceded by the prologue."""
        rel, locator, frm, sig, prologue = [m.group(i) for i in range(1, 6)]
        item = extract_item(rel, locator, root)
        mask, f0, f1 = _fn_block(item)
        k = mask.find(frm, f0)
        if k < 0:
            raise LookupError("anchor lost: suffix start %r not found in %s" % (frm, locator))
        inner = item[k:f1]
        record.append({"source": ("src/" + rel) if not rel.startswith("src/") else rel, "item": locator + " / suffix from " + frm,
                       "sha256_of_source_span": sha256(inner), "renamed_to": sig,
                       "substitutions": ["function text from the anchor to the end, verbatim; prologue added by the contract"]})
        return "%s {\n%s\n%s\n}" % (sig, prologue, inner)

    def repl_prefix_early(m):
        """//@@ prefix-early: <relpath> :: <fn locator> :: <until literal> => <signature WITHOUT return type> ;; <the function's own
        return type> ;; <state type> ;; <state expression> ;; <dummy value of the function's return type>
        like `prefix`, but the text runs inside a closure that has the function's OWN return type, so that a `return` (or `?`)
        placed before the anchor keeps compiling: the generated function returns Ok(state) when the anchor is reached and
        Err(v) when the function returned v before reaching it."""
        rel, locator, until, sig, ret, sty, sexpr, dummy = [m.group(i) for i in range(1, 9)]
        item = extract_item(rel, locator, root)
        mask, f0, f1 = _fn_block(item)
        k = mask.find(until, f0)
        if k < 0:
            raise LookupError("anchor lost: prefix end %r not found in %s" % (until, locator))
        inner = item[f0 + 1:k]
        record.append({"source": ("src/" + rel) if not rel.startswith("src/") else rel, "item": locator + " / prefix up to " + until,
                       "sha256_of_source_span": sha256(inner), "renamed_to": sig,
                       "substitutions": ["function text up to the loop, verbatim, run inside a closure of the function's own return type; the contract adds: state capture at the anchor, Ok(state) / Err(early return value)"]})
        return ("%s -> Result<%s, %s> {\nlet mut verif_state: Option<%s> = None;\nlet verif_ret: %s = (|| -> %s {\n%s\nverif_state = Some(%s);\n%s\n})();\n"
                "match verif_state { Some(s) => Ok(s), None => Err(verif_ret) }\n}" % (sig, sty, ret, sty, ret, ret, inner, sexpr, dummy))

    text = PREFIX_EARLY_RE.sub(repl_prefix_early, text)
    text = LOOPSTEP_RE.sub(repl_loop, text)
    text = SUFFIX_RE.sub(repl_suffix, text)
    return PREFIX_RE.sub(repl_prefix, text)


def expand_bodies(text, root, record):
    """//@@ body: <relpath> :: <locator> => <newname> [pub] [subst:a=>b,...]
    is replaced by the verbatim text of the function with only its name changed."""

    def repl(m):
        optional, rel, locator, newname, opts = m.group(1), m.group(2), m.group(3), m.group(4), m.group(5)
        try:
            item = extract_item(rel, locator, root)
        except LookupError:
            if optional:
                # `body?:` -- a helper that may legitimately disappear: the callers' bodies then no longer name it
                record.append({"source": ("src/" + rel) if not rel.startswith("src/") else rel, "item": locator,
                               "sha256_of_source_span": None, "renamed_to": newname, "substitutions": ["optional item not present in the source: nothing copied"]})
                return ""
            raise
        h = sha256(item)
        name = locator.split("/")[-1].strip().split(" ", 1)[1]
        new = re.sub(r"\bfn\s+" + re.escape(name) + r"\b", "fn " + newname, item, count=1)
        drops = []
        for sm in re.finditer(r"subst:(\S+)", opts):
            for pair in sm.group(1).split(","):
                a, b = pair.split("=>")
                a = a.replace("~", " ")
                b = b.replace("~", " ")
                if a not in new:
                    raise LookupError("anchor lost: subst %r not found in %s" % (a, locator))
                new = new.replace(a, b)
                drops.append("%s=>%s" % (a, b))
        if "inline-format" in opts.split():
            new2 = desugar_inline_format(new, locator)
            if new2 != new:
                drops.append("format! implicit named arguments written out positionally (Rust's own desugaring)")
            new = new2
        record.append({"source": ("src/" + rel) if not rel.startswith("src/") else rel, "item": locator,
                       "sha256_of_source_span": h, "renamed_to": newname, "substitutions": drops})
        prefix = "pub " if ("pub" in opts.split() and not new.lstrip().startswith("pub")) else ""
        return prefix + new

    text = expand_items(text, root, record)
    text = expand_methods(text, root, record)
    text = expand_fns(text, root, record)
    text = expand_closures(text, root, record)
    text = expand_loopsteps(text, root, record)
    text = re.sub(r"^[ \t]*//@@stubs-tables[ \t]*$", TABLE_STUBS, text, flags=re.M)
    text = re.sub(r"^[ \t]*//@@stubs-indicator[ \t]*$", INDICATOR_STUBS, text, flags=re.M)
    return BODY_RE.sub(repl, text)


# ----------------------------------------------------------------------------------------------
# staging for Kani
# ----------------------------------------------------------------------------------------------
def stage_kani(scratch, cfiles, extra_tests=None, nocover=False):
    stage = scratch / "stage"
    if stage.exists():
        shutil.rmtree(stage)
    stage.mkdir(parents=True)
    subprocess.run(["rsync", "-a", "--exclude", "/target", "--exclude", ".git", str(REPO) + "/", str(stage) + "/"],
                   check=True)
    record = {"appended": [], "bodies": []}
    # //@@ cargo-dep: <line for [dependencies]>  -- e.g. switch a dependency to its portable (no inline asm) back end; recorded
    deps = []
    for cf in cfiles:
        for d in cf.meta.get("cargo-dep", []) + cf.meta.get("cargo_dep", []):
            if d not in deps:
                deps.append(d)
    if deps:
        ct = (stage / "Cargo.toml").read_text()
        if "[dependencies]" not in ct:
            raise LookupError("anchor lost: Cargo.toml has no [dependencies] section")
        ct = ct.replace("[dependencies]", "[dependencies]\n" + "\n".join(deps), 1)
        (stage / "Cargo.toml").write_text(ct)
        record["cargo_dependencies_added"] = deps
    by_module = {}
    for cf in cfiles:
        by_module.setdefault(cf.module, []).append(cf)
    # support module
    sup = sorted((KANI_DIR / "support").glob("*.rs"))
    if sup:
        txt = "\n".join(p.read_text() for p in sup)
        txt = expand_bodies(txt, REPO, record["bodies"])
        (stage / "src" / "verif_support.rs").write_text("#![allow(warnings, clippy::all)]\n" + txt)
        by_module.setdefault("main.rs", [])
    for module, cfs in by_module.items():
        f = stage / "src" / module
        if not f.exists():
            raise LookupError("anchor lost: module file src/%s does not exist" % module)
        orig = (REPO / "src" / module).read_bytes()
        tail = ""
        if module == "main.rs" and sup:
            tail += ("\n#[cfg(kani)]\n#[macro_export]\nmacro_rules! verif_nocover { ($($t:tt)*) => {}; }\n"
                     "#[cfg(kani)]\nmod verif_support;\n")
        for cf in cfs:
            body = expand_bodies(cf.text, REPO, record["bodies"])
            if nocover:
                # second pass after a refutation: Kani prints one concrete-playback test per harness and prefers a
                # satisfied cover; compile the covers out so that the test it prints is the failing assertion's
                body = body.replace("kani::cover!(", "crate::verif_nocover!(")
            extra = ""
            if extra_tests and cf.path.name in extra_tests:
                extra = "\n" + extra_tests[cf.path.name] + "\n"
            glob = "" if "noglob" in cf.meta else "    use super::*;\n"
            tail += ("\n// ==== appended by /verif from contracts/kani/%s ====\n#[cfg(kani)]\n"
                     "#[allow(warnings, clippy::all)]\npub(crate) mod verif_kani_%s {\n%s%s\n%s}\n"
                     % (cf.path.name, cf.tag, glob, body, extra))
        f.write_bytes(orig + tail.encode())
        staged = f.read_bytes()
        assert staged[: len(orig)] == orig
        record["appended"].append({"file": "src/" + module, "sha256_repo_file": sha256(orig),
                                   "prefix_identical": True, "appended_bytes": len(staged) - len(orig),
                                   "contract_files": [c.path.name for c in cfs]})
    return stage, record


def proc_tree_rss_kb(pgid):
    total = 0
    for d in os.listdir("/proc"):
        if not d.isdigit():
            continue
        try:
            with open("/proc/%s/stat" % d) as fh:
                st = fh.read()
            rp = st.rfind(")")
            fields = st[rp + 2:].split()
            if int(fields[2]) != pgid:
                continue
            total += int(fields[21]) * 4  # rss pages -> kB
        except Exception:
            continue
    return total


class MemGovernor:
    def __init__(self, cap_gb):
        self.cap = cap_gb
        self.used = 0.0
        self.cv = threading.Condition()

    def acquire(self, gb):
        with self.cv:
            while self.used + gb > self.cap and self.used > 0:
                self.cv.wait()
            self.used += gb

    def release(self, gb):
        with self.cv:
            self.used -= gb
            self.cv.notify_all()


def run_limited(cmd, cwd, timeout, mem_gb, logfile):
    """Run cmd in its own process group with wall-clock and RSS limits. Returns (status, seconds, peak_gb)."""
    t0 = time.time()
    peak = 0
    with open(logfile, "wb") as lf:
        p = subprocess.Popen(cmd, cwd=cwd, stdout=lf, stderr=subprocess.STDOUT, env=ENV, start_new_session=True)
        status = None
        while True:
            try:
                p.wait(timeout=1.0)
                break
            except subprocess.TimeoutExpired:
                pass
            el = time.time() - t0
            rss = proc_tree_rss_kb(p.pid)
            peak = max(peak, rss)
            if el > timeout:
                status = "timeout"
            elif rss > mem_gb * 1024 * 1024:
                status = "memout"
            if status:
                try:
                    os.killpg(p.pid, signal.SIGKILL)
                except ProcessLookupError:
                    pass
                p.wait()
                break
    return status or ("exit%d" % p.returncode), time.time() - t0, peak / 1024 / 1024


CHECK_RE = re.compile(r"^Check (\d+): (.+)\n\t - Status: (\w+)\n\t - Description: \"((?:.|\n)*?)\"\n\t - Location: (.*)$", re.M)


def parse_kani_log(text):
    r = {"verdict": None, "checks": 0, "failed_checks": [], "covers_sat": 0, "covers_total": 0,
         "covers_unsat": [], "verification_time": None, "playback": None, "stubs": [], "undetermined": 0}
    for m in CHECK_RE.finditer(text):
        name, status, desc, loc = m.group(2), m.group(3), m.group(4), m.group(5)
        if ".cover." in name:
            r["covers_total"] += 1
            if status == "SATISFIED":
                r["covers_sat"] += 1
            else:
                r["covers_unsat"].append({"desc": desc, "status": status, "loc": loc})
            continue
        r["checks"] += 1
        if status == "FAILURE":
            r["failed_checks"].append({"check": name, "desc": desc, "loc": loc})
        elif status == "UNDETERMINED":
            r["undetermined"] += 1
    m = re.search(r"^VERIFICATION:- (\w+)", text, re.M)
    if m:
        r["verdict"] = m.group(1)
    m = re.search(r"^Verification Time: ([0-9.]+)s", text, re.M)
    if m:
        r["verification_time"] = float(m.group(1))
    blocks = re.findall(r"Concrete playback unit test for `[^`]*`:\n```\n(.*?)```", text, re.S)
    # Kani prints one playback test per failing check and per satisfied cover: keep the first one that belongs to a
    # failing (non-cover) check
    non_cover = [b for b in blocks if not re.search(r"Check for `cover`", b)]
    if non_cover:
        r["playback"] = non_cover[0]
    elif blocks and False:
        r["playback"] = blocks[0]
    r["stubs"] = re.findall(r"^\s*- Stub: (.*)$", text, re.M)
    m = re.search(r"Runtime Symex: ([0-9.]+)s", text)
    return r


def classify_kani(ob, status, parsed, text):
    """-> (state, reason) with state in accepted|refuted|undecided"""
    if status == "timeout":
        return "undecided", "timeout after %ds" % ob.timeout
    if status == "memout":
        return "undecided", "memory limit %.0f GB exceeded" % ob.mem_gb
    if parsed["verdict"] is None:
        if re.search(r"^error(\[E\d+\])?:", text, re.M):
            return "undecided", "ANCHOR-LOST / compile error: " + (re.search(r"^error.*$", text, re.M).group(0))[:300]
        return "undecided", "tool failure (no verdict): " + status
    real_fail = [f for f in parsed["failed_checks"] if "unwinding assertion" not in f["desc"]]
    unwind_fail = [f for f in parsed["failed_checks"] if "unwinding assertion" in f["desc"]]
    unsupported = [f for f in real_fail if "is not currently supported by Kani" in f["desc"] or "unsupported" in f["check"]]
    if ob.canary:
        if parsed["verdict"] == "FAILED" and real_fail:
            return "accepted", "canary failed as it must"
        return "undecided", "VACUOUS: canary assertion was not refuted (contradictory assumptions or broken tool chain)"
    if parsed["verdict"] == "SUCCESSFUL":
        if parsed["checks"] == 0:
            return "undecided", "VACUOUS: zero checks generated"
        if parsed["covers_unsat"]:
            return "undecided", "VACUOUS: cover not satisfied: %s" % parsed["covers_unsat"][0]["desc"]
        if parsed["covers_sat"] < ob.min_covers:
            return "undecided", "VACUOUS: %d covers satisfied, %d required" % (parsed["covers_sat"], ob.min_covers)
        return "accepted", "CBMC: VERIFICATION SUCCESSFUL"
    if unsupported:
        return "undecided", "unsupported construct reached: " + unsupported[0]["desc"][:200]
    if real_fail:
        f0 = real_fail[0]
        named = [f for f in real_fail if "placeholder message" not in f["desc"]]
        if "placeholder message" in f0["desc"]:
            # a panic whose message is formatted at run time (e.g. inside core): say where it is
            f0 = named[0] if named else f0
            if "placeholder message" in f0["desc"]:
                return "refuted", "panic (message formatted at run time) at " + f0["loc"][:160]
        return "refuted", f0["desc"]
    if unwind_fail:
        return "undecided", "unwinding bound too small for the code as it is now: " + unwind_fail[0]["loc"]
    return "undecided", "FAILED without a failing check (%s)" % status


# ----------------------------------------------------------------------------------------------
# Verus units
# ----------------------------------------------------------------------------------------------
class VerusUnit:
    """A .vspec file: python-free, line oriented.
       @@ unit: name
       sections introduced by lines starting with '@@':
         @@ prelude            -> raw verus text placed first inside verus!{}
         @@ item: <relpath> :: <locator> [pub-fields] [subst:...]   -> verbatim item; following lines until
                 next @@ are 'splices':   'after-signature <fn>:' + indented contract text, 'loop <fn>#k:' ...
         @@ raw                -> raw verus text (specs, lemmas, proof fns)
       Obligations are annotated exactly like in kani files (//@ obligation: ... followed by fn name) inside raw
       text, or by '//@ obligation' blocks before an '@@ item' (harness: = name of the exec fn whose contract it is).
    """

    def __init__(self, path):
        self.path = path
        self.backend = "verus"
        self.text = path.read_text()
        self.tag = path.stem
        self.module = None
        self.obligations = []
        lines = self.text.split("\n")
        i = 0
        while i < len(lines):
            if lines[i].strip().startswith("//@ obligation:"):
                d = {}
                last = None
                first = True
                while i < len(lines) and lines[i].strip().startswith("//@") and not lines[i].strip().startswith("//@@"):
                    if not first and lines[i].strip().startswith("//@ obligation:"):
                        break
                    first = False
                    s = lines[i].strip()[3:].strip()
                    m = re.match(r"^(\w+)\s*:\s*(.*)$", s)
                    if m:
                        last = m.group(1)
                        d[last] = m.group(2).strip()
                    elif last:
                        d[last] += " " + s
                    i += 1
                j = i
                while j < len(lines) and "harness" not in d:
                    m = re.search(r"\bfn\s+([A-Za-z0-9_]+)", lines[j])
                    if m:
                        d["harness"] = m.group(1)
                    j += 1
                self.obligations.append(Obligation(d, self))
            else:
                i += 1

    def rust_mod_path(self):
        return ""

    def build(self, out_path, record):
        """Assemble the single verus file. Returns text."""
        out = ["// GENERATED on every run by /verif/driver/verif.py from %s and /repo -- do not edit\n"
               "#![allow(unused_imports, dead_code, unused_variables, unused_mut, unused_parens, non_snake_case)]\n"
               % self.path.name]
        prelude_done = [False]
        sections = re.split(r"^@@ *", self.text, flags=re.M)
        body = []
        for sec in sections[1:]:
            head, _, rest = sec.partition("\n")
            head = head.strip()
            if head.startswith("unit:"):
                continue
            if head.startswith("header"):
                out.append(rest)
                continue
            if not prelude_done[0]:
                out.append("use vstd::prelude::*;\n")
                prelude_done[0] = True
            if head in ("prelude", "raw"):
                body.append(rest)
                continue
            if head.startswith("item:"):
                m = re.match(r"item:\s*(\S+)\s*::\s*(.*?)(?:\s+\[(.*)\])?$", head)
                rel, locator, opts = m.group(1), m.group(2).strip(), (m.group(3) or "")
                item = extract_item(rel, locator, with_attrs=("attrs" in opts.split()))
                h = sha256(item)
                new = item
                applied = []
                for tok in opts.split():
                    if tok == "pub-fields":
                        # make struct fields pub (no semantic content)
                        def pubify(mm):
                            return mm.group(1) + "pub " + mm.group(2)
                        new2 = re.sub(r"(?m)^(\s+)(?!pub\b)([a-z_][a-z0-9_]*\s*:)", pubify, new)
                        if new2 != new:
                            applied.append("struct fields made pub")
                        new = new2
                    elif tok == "pub":
                        new = "pub " + new
                        applied.append("item made pub")
                    elif tok == "pub-fns":
                        new2 = re.sub(r"(?m)^(\s+)(?:pub(?:\([a-z]+\))?\s+)?((?:const\s+)?fn\s)", r"\1pub \2", new)
                        if new2 != new:
                            applied.append("fns made pub")
                        new = new2
                # splices
                splices = parse_splices(rest)
                for sp in splices:
                    new = apply_splice(new, sp, applied, locator)
                record.append({"source": "src/" + rel, "item": locator, "sha256_of_source_span": h,
                               "rewrites": applied})
                body.append(new + "\n")
                continue
            raise ValueError("unknown vspec section: " + head)
        out.append("verus! {\n" + "\n".join(body) + "\n} // verus!\nfn main() {}\n")
        txt = "\n".join(out)
        out_path.write_text(txt)
        return txt


def parse_splices(rest):
    """splice syntax (lines at column 0 starting with '%'):
       % after-signature <fn>
       % loop <fn>#<k>
       % replace <literal old> ==> <literal new>        (single line; recorded as a rewrite)
       % replace-block  (followed by  ---old--- / ---new--- / ---end---)
       % before-fn <fn>     text inserted before the fn item (attributes etc.)
       % body-start <fn>    text inserted right after the opening brace
       following lines (until next % or end) are the text."""
    sp = []
    cur = None
    for line in rest.split("\n"):
        if line.strip().startswith("//@"):
            continue
        if line.startswith("%"):
            cur = {"head": line[1:].strip(), "text": []}
            sp.append(cur)
        elif cur is not None:
            cur["text"].append(line)
    for s in sp:
        s["text"] = "\n".join(s["text"]).rstrip() + "\n"
    return sp


def _in_attr(item, pos):
    """is position `pos` inside a multi-line #[...] attribute?"""
    k = item.rfind("#[", 0, pos)
    if k < 0:
        return False
    depth = 0
    for i in range(k + 1, pos):
        if item[i] == "[":
            depth += 1
        elif item[i] == "]":
            depth -= 1
    return depth > 0


def apply_splice(item, sp, applied, locator):
    head = sp["head"]
    mask = strip_comments_mask(item)
    if head.startswith("replace "):
        old, _, new = head[len("replace "):].partition(" ==> ")
        if old not in item:
            raise LookupError("anchor lost: replace %r not found in %s" % (old, locator))
        applied.append("replace `%s` -> `%s`" % (old, new))
        return item.replace(old, new)
    if head.startswith("replace-block"):
        t = sp["text"]
        m = re.search(r"---old---\n(.*?)---new---\n(.*?)---end---", t, re.S)
        old, new = m.group(1).rstrip("\n"), m.group(2).rstrip("\n")
        if old not in item:
            raise LookupError("anchor lost: replace-block not found in %s:\n%s" % (locator, old))
        applied.append("replace-block `%s` -> `%s`" % (old.strip()[:60], new.strip()[:60]))
        return item.replace(old, new)
    kind, _, arg = head.partition(" ")
    arg = arg.strip()
    if kind == "after-line":
        k = item.find(arg)
        if k < 0:
            raise LookupError("anchor lost: line containing %r not found in %s" % (arg, locator))
        e = item.find("\n", k)
        return item[: e + 1] + sp["text"] + item[e + 1:]
    if kind == "drop-fn":
        m = re.search(r"\bfn\s+" + re.escape(arg) + r"\b", mask)
        if not m:
            raise LookupError("anchor lost: fn %s in %s" % (arg, locator))
        k0 = mask.find("{", m.end())
        k1 = match_brace(mask, k0)
        # start: go back over `pub`, and preceding attribute lines
        ls = item.rfind("\n", 0, m.start()) + 1
        while True:
            prev_end = ls - 1
            prev_start = item.rfind("\n", 0, prev_end) + 1
            prev = item[prev_start:prev_end].strip()
            if prev.startswith("#[") or prev.startswith("#![") or (prev and _in_attr(item, prev_start)):
                ls = prev_start
            else:
                break
        applied.append("fn %s dropped (not extracted: %s)" % (arg, sp["text"].strip() or "outside the verifier's subset"))
        return item[:ls] + item[k1 + 1:]
    if kind in ("after-signature", "body-start", "before-fn", "before-end"):
        m = re.search(r"\bfn\s+" + re.escape(arg) + r"\b", mask)
        if not m:
            raise LookupError("anchor lost: fn %s in %s" % (arg, locator))
        if kind == "before-fn":
            # go back to line start (and over `pub`)
            ls = item.rfind("\n", 0, m.start()) + 1
            return item[:ls] + sp["text"] + item[ls:]
        k = m.end()
        depth = 0
        while k < len(mask):
            if mask[k] in "([":
                depth += 1
            elif mask[k] in ")]":
                depth -= 1
            elif mask[k] == "{" and depth == 0:
                break
            k += 1
        if kind == "before-end":
            k1 = match_brace(mask, k)
            return item[:k1] + sp["text"] + item[k1:]
        if kind == "after-signature":
            return item[:k] + "\n" + sp["text"] + item[k:]
        return item[: k + 1] + "\n" + sp["text"] + item[k + 1:]
    if kind in ("loop", "loop?"):
        optional = kind == "loop?"
        fn, _, ordinal = arg.partition("#")
        ordinal = int(ordinal or "1")
        m = re.search(r"\bfn\s+" + re.escape(fn) + r"\b", mask)
        if not m:
            raise LookupError("anchor lost: fn %s in %s" % (fn, locator))
        k0 = mask.find("{", m.end())
        k1 = match_brace(mask, k0)
        loops = [mm for mm in re.finditer(r"\b(while|for|loop)\b", mask[k0:k1])]
        if len(loops) < ordinal:
            if optional:
                applied.append("optional loop invariant for %s#%d not applied (loop no longer present)" % (fn, ordinal))
                return item
            raise LookupError("anchor lost: loop #%d of %s" % (ordinal, fn))
        lm = loops[ordinal - 1]
        k = k0 + lm.end()
        depth = 0
        while k < k1:
            if mask[k] in "([":
                depth += 1
            elif mask[k] in ")]":
                depth -= 1
            elif mask[k] == "{" and depth == 0:
                break
            k += 1
        return item[:k] + "\n" + sp["text"] + item[k:]
    raise ValueError("unknown splice: " + head)


def run_verus_unit(unit, scratch, obs, results, keep=False):
    vdir = scratch / "verus"
    vdir.mkdir(parents=True, exist_ok=True)
    f = vdir / (unit.tag + ".rs")
    record = []
    t0 = time.time()
    try:
        unit.build(f, record)
    except LookupError as e:
        for ob in obs:
            results[ob.id] = {"state": "undecided", "reason": "ANCHOR-LOST: %s" % e, "seconds": 0}
        return record
    env = dict(os.environ)
    cmd = ["verus", str(f), "--output-json", "--time", "--multiple-errors", "20"]
    rl = unit_opt(unit, "rlimit")
    if rl:
        cmd += ["--rlimit", rl]
    p = subprocess.run(cmd, cwd=vdir, capture_output=True, text=True, env=env, timeout=1800)
    secs = time.time() - t0
    (vdir / (unit.tag + ".log")).write_text(p.stdout + "\n---- stderr ----\n" + p.stderr)
    try:
        js = json.loads(p.stdout[p.stdout.index("{"):])
    except Exception:
        js = None
    vr = (js or {}).get("verification-results", {})
    errs = p.stderr
    ok_all = bool(vr) and vr.get("errors", 1) == 0 and vr.get("success", False)
    smt = (((js or {}).get("times-ms") or {}).get("smt") or {}).get("total")
    # map errors to function names: find "error: ..." blocks and the fn they belong to by line number
    blocks = re.split(r"\n(?=error)", errs)
    src_lines = f.read_text().split("\n")

    def fn_of_line(ln):
        for k in range(min(ln, len(src_lines)) - 1, -1, -1):
            m = re.search(r"\bfn\s+([A-Za-z0-9_]+)", src_lines[k])
            if m:
                return m.group(1)
        return None

    failing = {}
    hard_error = None
    for b in blocks:
        if not b.startswith("error"):
            continue
        if b.startswith("error: aborting") or "could not compile" in b.split("\n")[0]:
            continue
        m = re.search(r"--> [^\n:]+:(\d+):\d+", b)
        first = b.split("\n")[0]
        vc = any(k in first for k in ("postcondition not satisfied", "precondition not satisfied", "assertion failed",
                                      "invariant not satisfied", "possible arithmetic", "possible bit shift",
                                      "possible division by zero", "decreases not satisfied", "loop invariant",
                                      "possible overflow", "possible underflow", "recommendation not met",
                                      "might not be allowed", "arithmetic underflow/overflow"))
        rlim = "Resource limit" in b or "rlimit" in first
        if m and (vc or rlim):
            fn = fn_of_line(int(m.group(1)))
            failing.setdefault(fn, []).append({"msg": first, "block": b[:1500], "rlimit": rlim})
        elif not first.startswith("error: aborting"):
            hard_error = hard_error or b[:1500]
    for ob in obs:
        fs = failing.get(ob.harness, [])
        if hard_error:
            results[ob.id] = {"state": "undecided", "reason": "ANCHOR-LOST / verus front-end error: " + hard_error[:400],
                              "seconds": secs}
            continue
        if ob.canary:
            if fs:
                results[ob.id] = {"state": "accepted", "reason": "canary failed as it must", "seconds": secs}
            else:
                results[ob.id] = {"state": "undecided", "reason": "VACUOUS: verus canary `ensures false` was accepted",
                                  "seconds": secs}
            continue
        if fs:
            if all(x["rlimit"] for x in fs):
                results[ob.id] = {"state": "undecided", "reason": "rlimit: " + fs[0]["msg"], "seconds": secs}
            else:
                x = [y for y in fs if not y["rlimit"]][0]
                results[ob.id] = {"state": "refuted", "reason": x["msg"], "detail": x["block"], "seconds": secs}
        else:
            if not vr or vr.get("verified", 0) == 0:
                results[ob.id] = {"state": "undecided", "reason": "verus produced no verification results", "seconds": secs}
            else:
                results[ob.id] = {"state": "accepted", "reason": "verus: function verified (z3)", "seconds": secs}
        results[ob.id].update({"backend": "verus/z3", "smt_ms": smt, "verus_verified": vr.get("verified"),
                               "verus_errors": vr.get("errors")})
    if keep or True:
        # keep the generated file + diff for audit in evidence dir
        aud = EVIDENCE / "verus_text"
        aud.mkdir(parents=True, exist_ok=True)
        shutil.copy(f, aud / (unit.tag + ".rs"))
    return record


def unit_opt(unit, key):
    m = re.search(r"^@@ unit:.*\b%s=(\S+)" % key, unit.text, re.M)
    return m.group(1) if m else None


# ----------------------------------------------------------------------------------------------
# known findings
# ----------------------------------------------------------------------------------------------
def load_known():
    p = VERIF / "known_findings.json"
    if p.exists():
        return json.loads(p.read_text())
    return {"findings": [], "fixed": []}


# ----------------------------------------------------------------------------------------------
# check
# ----------------------------------------------------------------------------------------------
def scan_trusted(cfiles, units):
    items = []
    for cf in list(cfiles) + list(units):
        for m in re.finditer(r"kani::stub\(([^)]*)\)|kani::assume\(|external_body|assume_specification|admit\(\)|assume\(",
                             cf.text):
            s = m.group(0)
            if s.startswith("kani::stub"):
                items.append("%s: %s)" % (cf.path.name, s.rstrip(")")))
        n_assume = len(re.findall(r"kani::assume\(", cf.text))
        if n_assume:
            items.append("%s: %d kani::assume (harness preconditions)" % (cf.path.name, n_assume))
        for kw in ("external_body", "assume_specification", "admit()", "assume("):
            if cf.backend == "verus":
                c = cf.text.count(kw)
                if c:
                    items.append("%s: %d x %s" % (cf.path.name, c, kw))
    return sorted(set(items))


def git_head(path):
    try:
        return subprocess.run(["git", "-C", str(path), "rev-parse", "--short", "HEAD"], capture_output=True,
                              text=True).stdout.strip()
    except Exception:
        return "?"


def cmd_check(args):
    prop = args[0]
    tier = os.environ.get("VERIF_TIER", "quick")
    only = None
    keep = False
    all_status = False
    i = 1
    while i < len(args):
        if args[i] == "--tier":
            tier = args[i + 1]
            i += 2
        elif args[i] == "--only":
            only = args[i + 1]
            i += 2
        elif args[i] == "--keep":
            keep = True
            i += 1
        elif args[i] == "--all-status":
            all_status = True
            i += 1
        else:
            raise SystemExit("unknown arg " + args[i])
    seed = int(os.environ.get("VERIF_SEED", "0") or 0)
    t_start = time.time()
    cfiles = load_contracts()
    units = load_verus_units()
    sel = []
    for cf in cfiles + units:
        for ob in cf.obligations:
            if prop not in ob.properties:
                continue
            if ob.status != "registered" and not all_status and not only:
                continue
            if tier == "quick" and ob.tier != "quick":
                continue
            if only and only not in ob.id:
                continue
            sel.append(ob)
    if not sel:
        log("no obligations selected for %s" % prop)
        return 2
    scratch = SCRATCH_ROOT / ("%s-%d" % (prop, os.getpid()))
    scratch.mkdir(parents=True, exist_ok=True)
    results = {}
    stage_record = {}
    verus_record = []
    rc = 2
    try:
        kani_obs = [o for o in sel if o.backend == "kani"]
        verus_obs = [o for o in sel if o.backend == "verus"]
        threads = []
        # verus units run in a side thread while kani builds
        def verus_all():
            for u in units:
                obs = [o for o in verus_obs if o.cfile is u]
                if obs:
                    verus_record.extend(run_verus_unit(u, scratch, obs, results))
        vt = threading.Thread(target=verus_all)
        vt.start()
        if kani_obs:
            run_kani(kani_obs, scratch, results, stage_record)
            need = [o for o in kani_obs if results.get(o.id, {}).get("state") == "refuted" and not results[o.id].get("playback")]
            if need:
                log("  re-running %d refuted obligation(s) with covers compiled out to obtain the counterexample of the failing assertion" % len(need))
                r2, rec2 = {}, {}
                scratch2 = scratch / "pb"
                scratch2.mkdir(exist_ok=True)
                run_kani(need, scratch2, r2, rec2, nocover=True)
                for o in need:
                    pb = r2.get(o.id, {}).get("playback")
                    if pb:
                        results[o.id]["playback"] = pb
        vt.join()
        rc = report(prop, tier, seed, sel, results, stage_record, verus_record, cfiles, units, t_start, partial=bool(only or all_status))
    finally:
        if not keep:
            shutil.rmtree(scratch, ignore_errors=True)
            try:
                SCRATCH_ROOT.rmdir()
            except OSError:
                pass
        else:
            log("scratch kept at %s" % scratch)
    return rc


def run_kani(kani_obs, scratch, results, stage_record, extra_tests=None, playback_only=None, nocover=False, _isolating=False):
    used_files = []
    for o in kani_obs:
        if o.cfile not in used_files:
            used_files.append(o.cfile)
    # files a contract file depends on (//@@ needs: other_file.rs)
    allf = {c.path.name: c for c in load_contracts()}
    changed = True
    while changed:
        changed = False
        for cf in list(used_files):
            for need in cf.meta.get("needs", []):
                for nm in need.split():
                    if allf[nm] not in [u for u in used_files] and nm not in [u.path.name for u in used_files]:
                        used_files.append(allf[nm])
                        changed = True

    def _isolate(why):
        """a contract file whose extracted text no longer compiles / whose anchor is lost must not mask what the OTHER
        contract files decide: re-stage each contract file on its own (only ever happens on a modified tree)"""
        groups = {}
        for o in kani_obs:
            groups.setdefault(o.cfile.path.name, []).append(o)
        if len(groups) <= 1 or playback_only or _isolating:
            return False
        log("  %s; re-staging each of the %d contract files on its own" % (why, len(groups)))
        for k, (name, obs) in enumerate(sorted(groups.items())):
            sub = scratch / ("iso%d" % k)
            sub.mkdir(exist_ok=True)
            rec2 = {}
            run_kani(obs, sub, results, rec2, nocover=nocover, _isolating=True)
            for key in ("appended", "bodies"):
                stage_record.setdefault(key, [])
                stage_record[key].extend(x for x in rec2.get(key, []) if x not in stage_record[key])
            shutil.rmtree(sub, ignore_errors=True)
        return True

    try:
        stage, rec = stage_kani(scratch, used_files, extra_tests, nocover=nocover)
        stage_record.update(rec)
    except LookupError as e:
        if _isolate("anchor lost while staging (%s)" % str(e)[:120]):
            return None
        for o in kani_obs:
            results[o.id] = {"state": "undecided", "reason": "ANCHOR-LOST: %s" % e, "seconds": 0}
        return None
    logs = scratch / "logs"
    logs.mkdir(exist_ok=True)
    t0 = time.time()
    st, secs, peak = run_limited(["cargo", "kani"] + KANI_FLAGS + ["--only-codegen"], stage, 1800, 30,
                                 logs / "build.log")
    btxt = (logs / "build.log").read_text(errors="replace")
    stage_record["build_seconds"] = round(secs, 1)
    if st != "exit0":
        m = re.search(r"^error.*(?:\n.*){0,12}", btxt, re.M)
        reason = "ANCHOR-LOST / staged crate does not compile: " + (m.group(0)[:1200] if m else st)
        if _isolate("staged crate does not compile"):
            return stage
        for o in kani_obs:
            results[o.id] = {"state": "undecided", "reason": reason, "seconds": 0}
        return stage
    if playback_only:
        return stage
    gov = MemGovernor(MEM_CAP_GB)

    def job(ob):
        try:
            job_inner(ob)
        except Exception as e:  # never let a tool hiccup look like anything but "undecided"
            results[ob.id] = {"state": "undecided", "reason": "tool failure: %r" % (e,), "seconds": 0}

    def job_inner(ob):
        gov.acquire(ob.mem_gb)
        try:
            lf = logs / (ob.id + ".log")
            # --no-assertion-reach-checks: Kani's per-assertion reachability covers cost one SAT call each (measured:
            # 124 s -> 9 s on a 1000-check harness); vacuity is guarded by the harness's own kani::cover! + canaries
            cmd = ["cargo", "kani"] + KANI_FLAGS + ["-Z", "concrete-playback", "--concrete-playback=print",
                                                   "--no-assertion-reach-checks"] + ob.kani_args + [
                                                   "--harness", ob.fq_harness(), "--exact"]
            st, secs, peak = run_limited(cmd, stage, ob.timeout * TIME_SCALE, ob.mem_gb, lf)
            text = lf.read_text(errors="replace")
            parsed = parse_kani_log(text)
            if parsed["verdict"] is None and st.startswith("exit") and "no harnesses matched" in text.lower():
                state, reason = "undecided", "ANCHOR-LOST: harness not found"
            else:
                state, reason = classify_kani(ob, st, parsed, text)
            results[ob.id] = {"state": state, "reason": reason, "seconds": round(secs, 1), "peak_gb": round(peak, 2),
                              "backend": "kani 0.68 / cbmc 6.11 / " + (re.search(r"solver\((\w+)\)", "") or ["cadical"])[0],
                              "cbmc_checks": parsed["checks"], "covers": "%d/%d" % (parsed["covers_sat"], parsed["covers_total"]),
                              "solver_seconds": parsed["verification_time"], "stubs": parsed["stubs"],
                              "failed_checks": parsed["failed_checks"][:5], "playback": parsed["playback"],
                              "log_tail": text[-1500:] if state != "accepted" else ""}
            log("  [%s] %-55s %-9s %6.1fs %5.2fGB  %s" % (time.strftime("%H:%M:%S"), ob.id, state, secs, peak,
                                                         reason[:100] if state != "accepted" else ""))
        finally:
            gov.release(ob.mem_gb)

    order = sorted(kani_obs, key=lambda o: -o.timeout)
    with ThreadPoolExecutor(max_workers=MAX_JOBS) as ex:
        list(ex.map(job, order))
    return stage


def report(prop, tier, seed, sel, results, stage_record, verus_record, cfiles, units, t_start, partial=False):
    known = load_known()
    accepted, refuted, undecided = [], [], []
    for ob in sel:
        r = results.get(ob.id) or {"state": "undecided", "reason": "not run"}
        results[ob.id] = r
        {"accepted": accepted, "refuted": refuted, "undecided": undecided}[r["state"]].append(ob)
    violations = []
    known_hits = []
    REPLAYS.mkdir(parents=True, exist_ok=True)
    for ob in refuted:
        r = results[ob.id]
        kf = None
        for f in known["findings"]:
            if f["property"] == prop and f["obligation"] == ob.id:
                # a finding is keyed by the obligation and by the failing check description (witness class)
                if f.get("failing_check") and f["failing_check"] not in (r.get("reason") or ""):
                    continue
                kf = f
        if kf:
            known_hits.append((ob, kf))
            continue
        h = sha256(json.dumps(r, sort_keys=True, default=str))[:10]
        rp = REPLAYS / ("%s-%s.rs" % (ob.id, h))
        no_input = not r.get("playback")
        body = ["// REPLAY FILE written by /verif/driver/verif.py",
                "// property: %s" % prop,
                "// obligation: %s" % ob.id,
                "// backend: %s" % ob.backend,
                "// harness: %s" % (ob.fq_harness() if ob.backend == "kani" else ob.harness),
                "// contract_file: %s" % ob.cfile.path.name,
                "// functions_under_contract: %s" % ", ".join(ob.functions),
                "// failed: %s" % r.get("reason"),
                "// repo_head: %s  (working tree may differ)" % git_head(REPO),
                "// replay with: /verif/check replay %s" % rp,
                "//"]
        if no_input:
            body.append("// no-failing-input-found: the verifier gives no model for this obligation; its output follows")
            for ln in (r.get("detail") or r.get("log_tail") or "").split("\n"):
                body.append("// | " + ln)
        else:
            body.append("// The verifier's counterexample as a concrete playback test (runs the REAL functions natively):")
            body.append("//@playback-begin")
            body.append(r["playback"])
            body.append("//@playback-end")
            for fc in r.get("failed_checks", []):
                body.append("// failing check: %s @ %s" % (fc["desc"], fc["loc"]))
        rp.write_text("\n".join(body) + "\n")
        violations.append((ob, rp, no_input))
    # evidence
    complete_ok = [o for o in accepted if not o.bounded and not o.canary]
    bounded_ok = [o for o in accepted if o.bounded and not o.canary]
    canaries = [o for o in sel if o.canary]
    real = [o for o in sel if not o.canary]
    proof_obs = [o for o in real if not o.bounded]
    samples = []
    for ob in sel:
        r = results[ob.id]
        fl = []
        for fn in ob.functions:
            try:
                rel, _, loc = fn.partition("::")
                if not rel.startswith("src/"):
                    rel = "src/" + rel
                if loc:
                    ln, hh = fn_line(rel, loc_to_locator(loc))
                    fl.append("%s:%d %s sha256=%s" % (rel, ln, loc, hh))
                else:
                    fl.append(fn)
            except Exception as e:
                fl.append("%s (anchor not resolved: %s)" % (fn, str(e)[:60]))
        samples.append({"obligation": ob.id, "backend": r.get("backend", ob.backend), "domain": ob.domain,
                        "harness": ob.harness, "contract_file": ob.cfile.path.name,
                        "functions_under_contract": fl, "state": r["state"], "reason": r.get("reason"),
                        "wall_s": r.get("seconds"), "solver_s": r.get("solver_seconds"), "smt_ms": r.get("smt_ms"),
                        "cbmc_checks": r.get("cbmc_checks"), "covers": r.get("covers"), "peak_gb": r.get("peak_gb"),
                        "stubs": r.get("stubs"), "assumes": ob.assumes, "canary": ob.canary, "note": ob.note})
    trusted = scan_trusted({o.cfile for o in sel if o.backend == "kani"}, {o.cfile for o in sel if o.backend == "verus"})
    assumptions = sorted({a for o in sel for a in o.assumes})
    pmeta = load_property_meta().get(prop, {})
    assumptions += pmeta.get("assumptions", [])
    level = pmeta.get("level", "proof")
    n_ob = len(proof_obs)
    n_dis = len(complete_ok)
    cov = {
        "obligations": n_ob, "discharged": n_dis,
        "bounded_obligations": len([o for o in real if o.bounded]), "bounded_discharged": len(bounded_ok),
        "canaries_failed_as_required": len([o for o in canaries if results[o.id]["state"] == "accepted"]),
        "canaries": len(canaries),
        "refuted": [o.id for o in refuted], "undecided": [{"obligation": o.id, "reason": results[o.id]["reason"]} for o in undecided],
        "known_findings_hit": [k["id"] for _, k in known_hits],
        "checker_cmd": "cargo kani %s --harness <h> --exact (per obligation, staged copy of /repo) ; verus <generated>.rs --output-json --time"
                       % " ".join(KANI_FLAGS),
        "trusted_base": trusted + pmeta.get("trusted_base", []),
        "samples": samples,
        "staging": stage_record, "verus_extraction": verus_record,
        "undecided_clauses": pmeta.get("undecided_clauses", []),
        "explanation": pmeta.get("explanation", ""),
        "repo_head": git_head(REPO),
        "solver_seconds_total": round(sum((results[o.id].get("solver_seconds") or 0) for o in sel), 2),
        "functions_under_contract": sorted({f for o in real for f in o.functions}),
    }
    if n_ob == 0:
        level = "other"
        cov["explanation"] = (cov["explanation"] + " Only bounded obligations exist for this tier; nothing is counted as proved.").strip()
    ev = {"property_id": prop, "tier": tier, "seed": seed, "level": level, "coverage": cov,
          "assumptions": assumptions, "wall_s": round(time.time() - t_start, 1), "violations": len(violations)}
    # a run restricted with --only / --all-status is a development aid: it must not overwrite the property's evidence file
    evdir = (EVIDENCE / "partial") if partial else EVIDENCE
    evdir.mkdir(parents=True, exist_ok=True)
    (evdir / (prop + ".json")).write_text(json.dumps(ev, indent=1, default=str))
    log("%s tier=%s: %d obligations (%d complete, %d bounded, %d canaries): accepted=%d refuted=%d undecided=%d  wall=%.0fs"
        % (prop, tier, len(sel), len(proof_obs), len([o for o in real if o.bounded]), len(canaries), len(accepted),
           len(refuted), len(undecided), time.time() - t_start))
    for ob, kf in known_hits:
        log("KNOWN-FINDING: property=%s %s" % (prop, kf["what_fails"]))
    for ob in undecided:
        log("UNDECIDED %s: %s" % (ob.id, results[ob.id]["reason"][:400]))
    for ob, rp, no_input in violations:
        log("REFUTED %s: %s" % (ob.id, results[ob.id]["reason"]))
        log("VIOLATION property=%s replay=%s%s" % (prop, rp, " no-failing-input-found" if no_input else ""))
    if violations:
        return 1
    if undecided:
        return 2
    return 0


def loc_to_locator(loc):
    """'Bitboard::north' -> 'impl Bitboard / fn north';  'table_index_rook' -> 'fn table_index_rook';
       'impl X for Y::f' allowed verbatim when it already contains '/'."""
    if "/" in loc:
        return loc
    if "::" in loc:
        a, b = loc.rsplit("::", 1)
        return "impl %s / fn %s" % (a, b)
    return "fn " + loc


def load_property_meta():
    p = VERIF / "contracts" / "properties_meta.json"
    if p.exists():
        return json.loads(p.read_text())
    return {}


# ----------------------------------------------------------------------------------------------
# replay
# ----------------------------------------------------------------------------------------------
def cmd_replay(args):
    rp = Path(args[0])
    text = rp.read_text()
    meta = dict(re.findall(r"^// (\w+): (.*)$", text, re.M))
    log("replay of obligation %s (property %s)" % (meta.get("obligation"), meta.get("property")))
    log("failed clause: %s" % meta.get("failed"))
    m = re.search(r"//@playback-begin\n(.*?)//@playback-end", text, re.S)
    if not m:
        log("no-failing-input-found: this obligation was refuted by a verifier that yields no model; verifier output:")
        for ln in re.findall(r"^// \| (.*)$", text, re.M):
            log("   " + ln)
        log("re-running the obligation on the current tree instead:")
        return cmd_check([meta["property"], "--only", meta["obligation"], "--tier", "thorough"])
    test = m.group(1)
    tname = re.search(r"fn (kani_concrete_playback_\w+)", test).group(1)
    cfiles = load_contracts()
    cf = [c for c in cfiles if c.path.name == meta["contract_file"]][0]
    ob = [o for o in cf.obligations if o.id == meta["obligation"]][0]
    scratch = SCRATCH_ROOT / ("replay-%d" % os.getpid())
    scratch.mkdir(parents=True, exist_ok=True)
    try:
        results, rec = {}, {}
        stage = run_kani([ob], scratch, results, rec, extra_tests={cf.path.name: test}, playback_only=True)
        if stage is None or results:
            log("could not stage: %s" % results)
            return 2
        p = subprocess.run(["cargo", "kani", "playback", "-Z", "concrete-playback"] + ["--", tname], cwd=stage, env=ENV,
                           capture_output=True, text=True)
        out = p.stdout + p.stderr
        tail = "\n".join(out.split("\n")[-60:])
        log(tail)
        if re.search(r"test result: FAILED", out):
            log("REPLAY: the counterexample REPRODUCES natively on the real functions (test %s failed)" % tname)
            return 1
        if re.search(r"test result: ok", out):
            log("REPLAY: native run did NOT reproduce the failure (refuted obligation stands as reported by CBMC)")
            return 0
        return 2
    finally:
        shutil.rmtree(scratch, ignore_errors=True)


def cmd_list(args):
    for cf in load_contracts() + load_verus_units():
        for ob in cf.obligations:
            if args and args[0] not in ob.properties:
                continue
            print("%-50s %-6s %-9s %-22s %-12s %s" % (ob.id, ob.backend, ob.tier, ob.domain, ob.status, cf.path.name))


def main():
    if len(sys.argv) < 2:
        print(__doc__)
        return 2
    c = sys.argv[1]
    if c == "check":
        return cmd_check(sys.argv[2:])
    if c == "replay":
        return cmd_replay(sys.argv[2:])
    if c == "list":
        return cmd_list(sys.argv[2:])
    if c == "setup":
        for t in ("cargo", "verus", "cbmc", "rsync"):
            if not shutil.which(t):
                print("missing tool: " + t)
                return 1
        p = subprocess.run(["cargo", "kani", "--version"], capture_output=True, text=True, env=ENV)
        print(p.stdout.strip())
        return 0 if p.returncode == 0 else 1
    print(__doc__)
    return 2


if __name__ == "__main__":
    sys.exit(main() or 0)
