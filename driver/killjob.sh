#!/bin/bash
# kill all processes whose cwd is under /var/tmp/tcheran-verif/$1* ($1 = PROP or PROP-pid); never use pkill -f
for p in $(ls /proc | grep -E '^[0-9]+$'); do d=$(readlink /proc/$p/cwd 2>/dev/null); case "$d" in /var/tmp/tcheran-verif/$1*) kill -9 $p 2>/dev/null; echo "killed $p $d";; esac; done
